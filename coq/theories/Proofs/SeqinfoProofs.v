(** cmd/seqinfo: the option pipeline as an interpreted list of stages.

    - [seqinfo_run] over the reference stage list (the list gfsgen regenerates from
      func parse) is the hand-written [seqinfo_parse];
    - the stage order is the documented one (reformat, component overrides, inversion,
      frame/index selection), every stage occurs exactly once;
    - the component overrides commute: any order of them gives the same result;
    - an error entry carries nothing but its pattern, a good entry is the read-out of a
      sequence;
    - without options the entry is the library's parse; with component overrides only it
      is the library's setters applied to the library's parse ([run_sops] of
      Proofs/SetterProofs.v), hence the per-field replay of C12;
    - the pipeline never panics and never runs out of fuel;
    - the entry stored for a pattern does not depend on the other patterns. *)
From Coq Require Import Permutation Sorted.
From GFS Require Import Base Dec Regex GenRegex GenPadTables Ranges Pad FrameSet Path Seq Seqinfo
     SpecRange ParseProofs SetterProofs TotalProofs CollectProofs.
Local Open Scope Z_scope.

(** * 1. the interpreter over the reference list is the monolithic definition *)

Theorem seqinfo_run_reference : forall pattern o refmt,
  seqinfo_run reference_pipeline pattern o refmt = seqinfo_parse pattern o refmt.
Proof.
  intros pattern o refmt.
  unfold seqinfo_run, seqinfo_parse, reference_pipeline. cbv zeta.
  destruct (new_fileseq pattern (if so_hash1 o then Hash1 else Hash4)) as [q0|e0|n0|];
    try reflexivity.
  generalize (if so_hash1 o then Hash1 else Hash4). intros st.
  (* StFormat *)
  cbn [run_stages run_stage].
  assert (Hfmt : forall q1 : fileseq,
    (do x <- (do x0 <- Ok (Some q1);
              match x0 with
              | None => Ok None
              | Some q' => run_stages st o refmt
                             [StDirname; StBasename; StExt; StPadding; StRange; StInverted; StIndex; StFrame] q'
              end);
     Ok (match x with None => err_result pattern | Some q => fill_result q end)) =
    (let q2 := if nonempty (so_dir o) then set_dirname q1 (so_dir o) else q1 in
     let q3 := if nonempty (so_base o) then set_basename q2 (so_base o) else q2 in
     let q4 := if nonempty (so_ext o) then set_ext q3 (so_ext o) else q3 in
     let q5 := if nonempty (so_pad o) then set_padding q4 (so_pad o) else q4 in
     let r6 := if nonempty (so_range o) then set_frame_range q5 (so_range o) else (q5, true) in
     if negb (snd r6) then Ok (err_result pattern) else
     let q6 := fst r6 in
     let q7 :=
         if so_inverted o then
           match q_fs q6 with
           | None => set_frameset q6 None
           | Some f =>
             match fs_inverted_frame_range f 0 with
             | [] => set_frameset q6 None
             | fr => fst (set_frame_range q6 fr)
             end
           end
         else q6 in
     let r8 :=
         match so_index o with
         | None => Ok (Some q7)
         | Some i =>
           match q_index q7 i with
           | [] => Ok None
           | path => reparse_frame path st
           end
         end in
     do o8 <- r8;
     match o8 with
     | None => Ok (err_result pattern)
     | Some q8 =>
       do o9 <- match so_frame o with
                | None => Ok (Some q8)
                | Some f => reparse_frame (q_frame_int q8 f) st
                end;
       match o9 with
       | None => Ok (err_result pattern)
       | Some q9 => Ok (fill_result q9)
       end
     end)).
  { intros q1. cbv zeta. cbn [run_stages run_stage bind].
    set (q5 := if nonempty (so_pad o) then set_padding _ (so_pad o) else _).
    (* StRange *)
    assert (Hrest : forall q6 : fileseq,
      (do x <- (do x0 <- Ok (Some q6);
                match x0 with
                | None => Ok None
                | Some q' => run_stages st o refmt [StInverted; StIndex; StFrame] q'
                end);
       Ok (match x with None => err_result pattern | Some q => fill_result q end)) =
      (do o8 <- match so_index o with
                | None => Ok (Some (if so_inverted o then
                                      match q_fs q6 with
                                      | None => set_frameset q6 None
                                      | Some f =>
                                        match fs_inverted_frame_range f 0 with
                                        | [] => set_frameset q6 None
                                        | fr => fst (set_frame_range q6 fr)
                                        end
                                      end
                                    else q6))
                | Some i =>
                  match q_index (if so_inverted o then
                                   match q_fs q6 with
                                   | None => set_frameset q6 None
                                   | Some f =>
                                     match fs_inverted_frame_range f 0 with
                                     | [] => set_frameset q6 None
                                     | fr => fst (set_frame_range q6 fr)
                                     end
                                   end
                                 else q6) i with
                  | [] => Ok None
                  | path => reparse_frame path st
                  end
                end;
       match o8 with
       | None => Ok (err_result pattern)
       | Some q8 =>
         do o9 <- match so_frame o with
                  | None => Ok (Some q8)
                  | Some f => reparse_frame (q_frame_int q8 f) st
                  end;
         match o9 with
         | None => Ok (err_result pattern)
         | Some q9 => Ok (fill_result q9)
         end
       end)).
    { intros q6. cbn [run_stages run_stage bind].
      set (q7 := if so_inverted o then _ else q6).
      destruct (so_index o) as [i|].
      - destruct (q_index q7 i) as [|c path]; [reflexivity|].
        destruct (reparse_frame (c :: path) st) as [[q8|]|e8|n8|]; cbn [bind]; try reflexivity.
        destruct (so_frame o) as [f|]; [|reflexivity].
        destruct (reparse_frame (q_frame_int q8 f) st) as [[q9|]|e9|n9|]; reflexivity.
      - cbn [bind].
        destruct (so_frame o) as [f|]; [|reflexivity].
        destruct (reparse_frame (q_frame_int q7 f) st) as [[q9|]|e9|n9|]; reflexivity. }
    destruct (nonempty (so_range o)).
    - destruct (set_frame_range q5 (so_range o)) as [q6 b]. cbn [fst snd].
      destruct b; cbn [negb]; [apply Hrest | reflexivity].
    - cbn [fst snd negb]. apply Hrest. }
  destruct (so_format o).
  - destruct refmt as [s|]; [|reflexivity].
    destruct (new_fileseq s st) as [q1|e1|n1|]; try reflexivity. apply Hfmt.
  - apply Hfmt.
Qed.

(** * 2. the order of the stages is the documented one *)

(** 0 = reformat, 1 = component overrides, 2 = inversion, 3 = frame/index selection *)
Definition stage_class (s : stage) : nat :=
  match s with
  | StFormat => 0
  | StDirname | StBasename | StExt | StPadding | StRange => 1
  | StInverted => 2
  | StIndex | StFrame => 3
  end%nat.

Theorem stage_order_is_the_documented_one :
  StronglySorted (fun a b => (stage_class a <= stage_class b)%nat) reference_pipeline /\
  NoDup reference_pipeline /\
  (forall s, In s reference_pipeline).
Proof.
  unfold reference_pipeline. split; [|split].
  - repeat (apply SSorted_cons; [|repeat (apply Forall_cons; [cbn [stage_class]; lia|]); apply Forall_nil]).
    apply SSorted_nil.
  - repeat (apply NoDup_cons; [cbn [In]; intros H; repeat (destruct H as [H|H]; [discriminate H|]); exact H|]).
    apply NoDup_nil.
  - intros s. destruct s; cbn [In]; tauto.
Qed.

(** * 3. the component overrides commute *)

(** whether a range string is accepted depends on the string alone *)
Definition range_parses (r : bytes) : bool :=
  match new_frameset r with Ok _ => true | _ => false end.

Lemma set_frame_range_flag : forall q r, snd (set_frame_range q r) = range_parses r.
Proof. intros q r. unfold set_frame_range, range_parses. destruct (new_frameset r); reflexivity. Qed.

Lemma set_frame_range_flag_independent : forall q q' r,
  snd (set_frame_range q r) = snd (set_frame_range q' r).
Proof. intros q q' r. rewrite !set_frame_range_flag. reflexivity. Qed.

(** ... and is the specification's decision *)
Lemma range_parses_spec : forall r, range_parses r = true <-> exists l, spec_frames r = Some l.
Proof.
  intros r. unfold range_parses. pose proof (parse_denotes r) as P.
  destruct (new_frameset r) as [f|e|n|]; try contradiction.
  - destruct P as [P _]. split; [intros _; eexists; exact P | reflexivity].
  - rewrite P. split; [discriminate | intros [l Hl]; discriminate Hl].
Qed.

(** an override stage is a total function of the sequence, guarded by a test on the options *)
Definition ov_ok (o : sopts) (s : stage) : bool :=
  match s with
  | StRange => if nonempty (so_range o) then range_parses (so_range o) else true
  | _ => true
  end.

Definition ov_fun (o : sopts) (s : stage) (q : fileseq) : fileseq :=
  match s with
  | StDirname => if nonempty (so_dir o) then set_dirname q (so_dir o) else q
  | StBasename => if nonempty (so_base o) then set_basename q (so_base o) else q
  | StExt => if nonempty (so_ext o) then set_ext q (so_ext o) else q
  | StPadding => if nonempty (so_pad o) then set_padding q (so_pad o) else q
  | StRange => if nonempty (so_range o) then fst (set_frame_range q (so_range o)) else q
  | _ => q
  end.

Lemma run_stage_override : forall st o refmt s q, stage_class s = 1%nat ->
  run_stage st o refmt s q = if ov_ok o s then Ok (Some (ov_fun o s q)) else Ok None.
Proof.
  intros st o refmt s q Hc.
  destruct s; cbn [stage_class] in Hc; try discriminate Hc; cbn [run_stage ov_ok ov_fun];
    try reflexivity.
  destruct (nonempty (so_range o)); [|reflexivity].
  cbv zeta. rewrite set_frame_range_flag. reflexivity.
Qed.

Lemma run_stages_overrides : forall st o refmt pl q,
  Forall (fun s => stage_class s = 1%nat) pl ->
  run_stages st o refmt pl q =
  if forallb (ov_ok o) pl then Ok (Some (fold_left (fun q' s => ov_fun o s q') pl q)) else Ok None.
Proof.
  intros st o refmt pl. induction pl as [|s rest IH]; intros q HF; cbn [run_stages forallb fold_left].
  - reflexivity.
  - inversion HF as [|s' l' Hs Hrest]; subst s' l'.
    rewrite (run_stage_override st o refmt s q Hs).
    destruct (ov_ok o s); cbn [bind andb]; [apply IH; exact Hrest | reflexivity].
Qed.

(** the five functions write different fields (padding also rewrites the zero-fill width, which
    it reads from the style and the new pad characters only), so any two of them commute *)
Lemma ov_fun_commute : forall o s1 s2 q,
  ov_fun o s1 (ov_fun o s2 q) = ov_fun o s2 (ov_fun o s1 q).
Proof.
  intros o s1 s2 q. destruct q as [d b e p z fs sty].
  destruct s1, s2; cbn [ov_fun]; try reflexivity;
    unfold set_frame_range;
    repeat match goal with
           | |- context [nonempty ?x] => destruct (nonempty x)
           | |- context [new_frameset ?x] => destruct (new_frameset x)
           end; reflexivity.
Qed.

Lemma forallb_perm : forall (A : Type) (g : A -> bool) l l',
  Permutation l l' -> forallb g l = forallb g l'.
Proof.
  intros A g l l' H. induction H as [|x l l' HP IH|x y l|l l' l'' HP1 IH1 HP2 IH2]; cbn [forallb].
  - reflexivity.
  - rewrite IH. reflexivity.
  - destruct (g x), (g y); reflexivity.
  - congruence.
Qed.

Lemma fold_left_perm : forall (A B : Type) (f : A -> B -> A),
  (forall a x y, f (f a x) y = f (f a y) x) ->
  forall l l', Permutation l l' -> forall a, fold_left f l a = fold_left f l' a.
Proof.
  intros A B f Hc l l' H.
  induction H as [|x l l' HP IH|x y l|l l' l'' HP1 IH1 HP2 IH2]; intros a; cbn [fold_left].
  - reflexivity.
  - apply IH.
  - rewrite Hc. reflexivity.
  - rewrite IH1. apply IH2.
Qed.

(** the general form: no duplicate-freeness is needed (a stage commutes with itself) *)
Theorem overrides_commute_gen : forall st o refmt pl1 pl2 q,
  Permutation pl1 pl2 ->
  Forall (fun s => stage_class s = 1%nat) pl1 ->
  run_stages st o refmt pl1 q = run_stages st o refmt pl2 q.
Proof.
  intros st o refmt pl1 pl2 q HP HF.
  assert (HF2 : Forall (fun s => stage_class s = 1%nat) pl2).
  { apply Forall_forall. intros s Hs. rewrite Forall_forall in HF. apply HF.
    apply (Permutation_in s (Permutation_sym HP)). exact Hs. }
  rewrite (run_stages_overrides st o refmt pl1 q HF), (run_stages_overrides st o refmt pl2 q HF2).
  rewrite (forallb_perm stage (ov_ok o) pl1 pl2 HP).
  rewrite (fold_left_perm fileseq stage (fun q' s => ov_fun o s q')
             (fun a x y => ov_fun_commute o y x a) pl1 pl2 HP q).
  reflexivity.
Qed.

Theorem overrides_commute : forall st o refmt pl1 pl2 q,
  Permutation pl1 pl2 -> NoDup pl1 ->
  Forall (fun s => stage_class s = 1%nat) pl1 ->
  run_stages st o refmt pl1 q = run_stages st o refmt pl2 q.
Proof. intros st o refmt pl1 pl2 q HP _ HF. apply overrides_commute_gen; assumption. Qed.

(** at the level of the tool: the override block of the pipeline may be written in any order *)
Lemma run_stages_app : forall st o refmt pl1 pl2 q,
  run_stages st o refmt (pl1 ++ pl2) q =
  do x <- run_stages st o refmt pl1 q;
  match x with None => Ok None | Some q' => run_stages st o refmt pl2 q' end.
Proof.
  intros st o refmt pl1 pl2. induction pl1 as [|s rest IH]; intros q; cbn [app run_stages].
  - reflexivity.
  - destruct (run_stage st o refmt s q) as [[q'|]|e|n|]; cbn [bind]; try reflexivity. apply IH.
Qed.

Definition override_block : list stage := [StDirname; StBasename; StExt; StPadding; StRange].

Corollary seqinfo_any_override_order : forall pl pattern o refmt,
  Permutation override_block pl ->
  seqinfo_run (StFormat :: pl ++ [StInverted; StIndex; StFrame]) pattern o refmt =
  seqinfo_parse pattern o refmt.
Proof.
  intros pl pattern o refmt HP. rewrite <- seqinfo_run_reference.
  change reference_pipeline with (StFormat :: override_block ++ [StInverted; StIndex; StFrame]).
  unfold seqinfo_run. cbv zeta.
  destruct (new_fileseq pattern (if so_hash1 o then Hash1 else Hash4)) as [q0|e0|n0|]; try reflexivity.
  f_equal. cbn [run_stages].
  destruct (run_stage (if so_hash1 o then Hash1 else Hash4) o refmt StFormat q0) as [[q1|]|e|n|];
    cbn [bind]; try reflexivity.
  rewrite !run_stages_app.
  rewrite (overrides_commute_gen _ o refmt override_block pl q1 HP).
  - reflexivity.
  - unfold override_block. repeat (apply Forall_cons; [reflexivity|]). apply Forall_nil.
Qed.

(** * 4. an error entry carries only its pattern; a good entry is the read-out of a sequence *)

Theorem error_entry_carries_only_its_pattern : forall pl pattern o refmt r,
  seqinfo_run pl pattern o refmt = Ok r ->
  (sr_error r = true -> r = err_result pattern) /\
  (sr_error r = false -> exists q, r = fill_result q).
Proof.
  intros pl pattern o refmt r H. unfold seqinfo_run in H. cbv zeta in H.
  destruct (new_fileseq pattern (if so_hash1 o then Hash1 else Hash4)) as [q0|e0|n0|];
    try discriminate H.
  - destruct (run_stages (if so_hash1 o then Hash1 else Hash4) o refmt pl q0) as [[q|]|e|n|];
      cbn [bind] in H; try discriminate H; injection H as H; subst r; split; intros He.
    + cbn in He. discriminate He.
    + exists q. reflexivity.
    + reflexivity.
    + cbn in He. discriminate He.
  - injection H as H. subst r. split; intros He; [reflexivity | cbn in He; discriminate He].
Qed.

(** * 5. without options the entry is the library's parse *)

Definition no_options (o : sopts) : Prop :=
  so_dir o = [] /\ so_base o = [] /\ so_ext o = [] /\ so_pad o = [] /\ so_range o = [] /\
  so_format o = false /\ so_inverted o = false /\ so_index o = None /\ so_frame o = None.

Theorem no_options_is_the_library_parse : forall pattern o refmt, no_options o ->
  seqinfo_run reference_pipeline pattern o refmt =
  match new_fileseq pattern (if so_hash1 o then Hash1 else Hash4) with
  | Ok q => Ok (fill_result q)
  | Err _ => Ok (err_result pattern)
  | Panic n => Panic n
  | OutOfFuel => OutOfFuel
  end.
Proof.
  intros pattern o refmt (Hd & Hb & He & Hp & Hr & Hf & Hi & Hx & Hfr).
  unfold seqinfo_run, reference_pipeline. cbv zeta.
  destruct (new_fileseq pattern (if so_hash1 o then Hash1 else Hash4)) as [q0|e0|n0|]; try reflexivity.
  cbn [run_stages run_stage]. rewrite Hd, Hb, He, Hp, Hr, Hf, Hi, Hx, Hfr.
  reflexivity.
Qed.

(** * 6. component overrides are the library's setters, in pipeline order *)

Definition override_ops (o : sopts) : list sop :=
  (if nonempty (so_dir o) then [SDir (so_dir o)] else []) ++
  (if nonempty (so_base o) then [SBase (so_base o)] else []) ++
  (if nonempty (so_ext o) then [SExt (so_ext o)] else []) ++
  (if nonempty (so_pad o) then [SPad (so_pad o)] else []) ++
  (if nonempty (so_range o) then [SRange (so_range o)] else []).

Definition overrides_only (o : sopts) : Prop :=
  so_format o = false /\ so_inverted o = false /\ so_index o = None /\ so_frame o = None.

Lemma override_block_is_the_setters : forall st o refmt q,
  run_stages st o refmt override_block q =
  if ov_ok o StRange then Ok (Some (run_sops q (override_ops o))) else Ok None.
Proof.
  intros st o refmt q. unfold override_block, override_ops, run_sops. cbn [run_stages run_stage bind ov_ok].
  destruct (nonempty (so_dir o)), (nonempty (so_base o)), (nonempty (so_ext o)), (nonempty (so_pad o)),
           (nonempty (so_range o));
    cbn [app fold_left apply_sop bind]; cbv zeta; try reflexivity;
    rewrite set_frame_range_flag; destruct (range_parses (so_range o)); reflexivity.
Qed.

Theorem overrides_are_the_setters : forall pattern o refmt q0,
  overrides_only o ->
  new_fileseq pattern (if so_hash1 o then Hash1 else Hash4) = Ok q0 ->
  (nonempty (so_range o) = true -> range_parses (so_range o) = true) ->
  seqinfo_run reference_pipeline pattern o refmt = Ok (fill_result (run_sops q0 (override_ops o))).
Proof.
  intros pattern o refmt q0 (Hf & Hi & Hx & Hfr) Hq0 Hr.
  change reference_pipeline with (StFormat :: override_block ++ [StInverted; StIndex; StFrame]).
  unfold seqinfo_run. cbv zeta. rewrite Hq0.
  cbn [run_stages run_stage]. rewrite Hf. cbn [bind].
  rewrite run_stages_app, override_block_is_the_setters.
  assert (Hok : ov_ok o StRange = true).
  { cbn [ov_ok]. destruct (nonempty (so_range o)); [apply Hr|]; reflexivity. }
  rewrite Hok. cbn [bind run_stages run_stage]. rewrite Hi, Hx, Hfr. reflexivity.
Qed.

(** the other case: a range that does not parse makes the entry an error entry *)
Theorem rejected_range_is_an_error_entry : forall pattern o refmt q0,
  overrides_only o ->
  new_fileseq pattern (if so_hash1 o then Hash1 else Hash4) = Ok q0 ->
  nonempty (so_range o) = true -> range_parses (so_range o) = false ->
  seqinfo_run reference_pipeline pattern o refmt = Ok (err_result pattern).
Proof.
  intros pattern o refmt q0 (Hf & Hi & Hx & Hfr) Hq0 Hne Hr.
  change reference_pipeline with (StFormat :: override_block ++ [StInverted; StIndex; StFrame]).
  unfold seqinfo_run. cbv zeta. rewrite Hq0.
  cbn [run_stages run_stage]. rewrite Hf. cbn [bind].
  rewrite run_stages_app, override_block_is_the_setters.
  cbn [ov_ok]. rewrite Hne, Hr. reflexivity.
Qed.

(** hence (C12, [setters_compose]) the entry's sequence is the per-field replay of the options *)
Corollary overrides_components : forall pattern o refmt q0,
  overrides_only o ->
  new_fileseq pattern (if so_hash1 o then Hash1 else Hash4) = Ok q0 ->
  (nonempty (so_range o) = true -> range_parses (so_range o) = true) ->
  exists q, seqinfo_run reference_pipeline pattern o refmt = Ok (fill_result q) /\
            components q = fold_left comp_step (override_ops o) (components q0) /\
            q_string q = q_dir q ++ q_base q ++ q_frange q ++ q_pad q ++ q_ext q.
Proof.
  intros pattern o refmt q0 Ho Hq0 Hr. exists (run_sops q0 (override_ops o)).
  split; [apply overrides_are_the_setters; assumption|].
  pose proof (setters_compose (override_ops o) q0) as H. cbv zeta in H. destruct H as [H1 H2].
  split; assumption.
Qed.

(** * 7. the pipeline never panics, never runs out of fuel and always yields an entry *)

Lemma run_stage_not_err : forall st o refmt s q e, run_stage st o refmt s q <> Err e.
Proof.
  intros st o refmt s q e.
  destruct s; cbn [run_stage]; unfold reparse_frame;
    repeat match goal with
           | |- (if ?b then _ else _) <> _ => destruct b
           | |- (let _ := _ in _) <> _ => cbv zeta
           | |- match ?x with _ => _ end <> _ => destruct x
           end; discriminate.
Qed.

Lemma run_stages_not_err : forall st o refmt pl q e, run_stages st o refmt pl q <> Err e.
Proof.
  intros st o refmt pl. induction pl as [|s rest IH]; intros q e; cbn [run_stages]; [discriminate|].
  pose proof (run_stage_not_err st o refmt s q) as Hs.
  destruct (run_stage st o refmt s q) as [[q'|]|e'|n|]; cbn [bind]; try discriminate.
  - apply IH.
  - exfalso. apply (Hs e'). reflexivity.
Qed.

Lemma seqinfo_run_not_err : forall pl pattern o refmt e, seqinfo_run pl pattern o refmt <> Err e.
Proof.
  intros pl pattern o refmt e. unfold seqinfo_run. cbv zeta.
  destruct (new_fileseq pattern (if so_hash1 o then Hash1 else Hash4)) as [q0|e0|n0|]; try discriminate.
  pose proof (run_stages_not_err (if so_hash1 o then Hash1 else Hash4) o refmt pl q0) as Hs.
  destruct (run_stages (if so_hash1 o then Hash1 else Hash4) o refmt pl q0) as [x|e'|n|];
    cbn [bind]; try discriminate.
  exfalso. apply (Hs e'). reflexivity.
Qed.

Theorem seqinfo_run_total : forall pattern o refmt,
  exists r, seqinfo_run reference_pipeline pattern o refmt = Ok r.
Proof.
  intros pattern o refmt.
  pose proof (seqinfo_parse_total pattern o refmt) as T.
  rewrite <- seqinfo_run_reference in T.
  pose proof (seqinfo_run_not_err reference_pipeline pattern o refmt) as NE.
  destruct (seqinfo_run reference_pipeline pattern o refmt) as [r|e|n|]; cbn [total] in T.
  - exists r. reflexivity.
  - exfalso. apply (NE e). reflexivity.
  - contradiction.
  - contradiction.
Qed.

(** and so does every ordering of the override block *)
Corollary seqinfo_any_override_order_total : forall pl pattern o refmt,
  Permutation override_block pl ->
  exists r, seqinfo_run (StFormat :: pl ++ [StInverted; StIndex; StFrame]) pattern o refmt = Ok r.
Proof.
  intros pl pattern o refmt HP. rewrite (seqinfo_any_override_order pl pattern o refmt HP).
  rewrite <- seqinfo_run_reference. apply seqinfo_run_total.
Qed.

(** * 8. the entry stored for a pattern is its own parse, whatever the other patterns are *)

Theorem entries_are_independent : forall o k pats1 pats2,
  In k pats1 -> In k pats2 ->
  let f := fun p => seqinfo_run reference_pipeline p o None in
  map_get (collect (map (fun p => (p, f p)) pats1)) k = Some (f k) /\
  map_get (collect (map (fun p => (p, f p)) pats1)) k =
  map_get (collect (map (fun p => (p, f p)) pats2)) k.
Proof.
  intros o k pats1 pats2 H1 H2 f.
  rewrite (collect_entries_correct _ f pats1 k H1), (collect_entries_correct _ f pats2 k H2).
  split; reflexivity.
Qed.

(** a pattern that fails to parse yields an error entry carrying its pattern, and the entries
    of the other patterns are the same as if it had not been given *)
Corollary bad_pattern_does_not_affect_the_others : forall o bad k pats e,
  new_fileseq bad (if so_hash1 o then Hash1 else Hash4) = Err e ->
  In k pats -> k <> bad ->
  let f := fun p => seqinfo_run reference_pipeline p o None in
  map_get (collect (map (fun p => (p, f p)) (bad :: pats))) bad = Some (Ok (err_result bad)) /\
  map_get (collect (map (fun p => (p, f p)) (bad :: pats))) k =
  map_get (collect (map (fun p => (p, f p)) pats)) k.
Proof.
  intros o bad k pats e Hbad Hk Hne f. split.
  - rewrite (collect_entries_correct _ f (bad :: pats) bad (or_introl eq_refl)).
    unfold f, seqinfo_run. cbv zeta. rewrite Hbad. reflexivity.
  - rewrite (collect_entries_correct _ f (bad :: pats) k (or_intror Hk)),
            (collect_entries_correct _ f pats k Hk). reflexivity.
Qed.

(** * 9. a boolean test of the stage order, robust to a reordering of the (commuting) overrides *)

Definition stage_eqb (a b : stage) : bool :=
  match a, b with
  | StFormat, StFormat | StDirname, StDirname | StBasename, StBasename | StExt, StExt | StPadding, StPadding
  | StRange, StRange | StInverted, StInverted | StIndex, StIndex | StFrame, StFrame => true
  | _, _ => false
  end.
Lemma stage_eqb_eq : forall a b, stage_eqb a b = true -> a = b.
Proof. intros a b; destruct a, b; simpl; intros H; try reflexivity; discriminate H. Qed.

(** reformat first, then the five component overrides in ANY order, then inversion, then index, then frame *)
Definition pipeline_ok (pl : list stage) : bool :=
  match pl with
  | StFormat :: a :: b :: c :: d :: e :: [StInverted; StIndex; StFrame] =>
    forallb (fun s => existsb (stage_eqb s) [a; b; c; d; e]) override_block
  | _ => false
  end.

Lemma pipeline_ok_shape : forall pl, pipeline_ok pl = true ->
  exists mid, Permutation override_block mid /\ pl = StFormat :: mid ++ [StInverted; StIndex; StFrame].
Proof.
  intros pl H. unfold pipeline_ok in H.
  destruct pl as [|s0 pl]; [discriminate H|]. destruct s0; try discriminate H.
  destruct pl as [|a [|b [|c [|d [|e [|i pl]]]]]]; try discriminate H.
  destruct i; try discriminate H.
  destruct pl as [|x pl]; [discriminate H|]. destruct x; try discriminate H.
  destruct pl as [|f pl]; [discriminate H|]. destruct f; try discriminate H.
  destruct pl as [|z r]; [|discriminate H].
  exists [a; b; c; d; e]. split; [|reflexivity].
  apply NoDup_Permutation_bis.
  - unfold override_block. repeat (apply NoDup_cons; [cbn [In]; intros K; repeat (destruct K as [K|K]; [discriminate K|]); exact K|]).
    apply NoDup_nil.
  - reflexivity.
  - intros s Hs. rewrite forallb_forall in H. specialize (H s Hs). apply existsb_exists in H.
    destruct H as [y [Hy E]]. apply stage_eqb_eq in E. subst y. exact Hy.
Qed.


Theorem pipeline_ok_runs_as_documented : forall pl pattern o refmt, pipeline_ok pl = true ->
  seqinfo_run pl pattern o refmt = seqinfo_parse pattern o refmt.
Proof.
  intros pl pattern o refmt H. destruct (pipeline_ok_shape _ H) as [mid [HP E]].
  rewrite E. apply seqinfo_any_override_order. exact HP.
Qed.

Print Assumptions seqinfo_run_reference.
Print Assumptions pipeline_ok_runs_as_documented.
Print Assumptions stage_order_is_the_documented_one.
Print Assumptions overrides_commute_gen.
Print Assumptions overrides_commute.
Print Assumptions seqinfo_any_override_order.
Print Assumptions error_entry_carries_only_its_pattern.
Print Assumptions no_options_is_the_library_parse.
Print Assumptions overrides_are_the_setters.
Print Assumptions rejected_range_is_an_error_entry.
Print Assumptions overrides_components.
Print Assumptions seqinfo_run_total.
Print Assumptions entries_are_independent.
Print Assumptions bad_pattern_does_not_affect_the_others.
