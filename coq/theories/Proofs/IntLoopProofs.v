From GFS Require Import Base Ranges SpecRanges RangeBasics IntLoop.
From Coq Require Import Lia ZArith List.
Import ListNotations.
Local Open Scope Z_scope.

Lemma wrap_id : forall z, is_int64 z -> wrap z = z.
Proof.
  intros z [H1 H2]. unfold wrap, int_min, int_max in *.
  rewrite Z.mod_small by lia. lia.
Qed.

Lemma wrap_is_int64 : forall z, is_int64 (wrap z).
Proof.
  intro z. unfold wrap, is_int64, int_min, int_max.
  pose proof (Z.mod_pos_bound (z + 2 ^ 63) (2 ^ 64) ltac:(lia)). lia.
Qed.

(** the domain: 64-bit start, end and step; a step whose magnitude is an int (not the smallest
    int, whose negation wraps back onto itself), and a span that fits an int *)
Definition au_domain (start end_ step : Z) : Prop :=
  is_int64 start /\ is_int64 end_ /\ int_min < step <= int_max /\ step <> 0 /\
  Z.abs (end_ - start) <= int_max.

Lemma au_step_wf : forall s e st, st <> 0 -> wf (mkR s e (au_step s e st)).
Proof.
  intros s e st H. unfold wf, au_step. cbn [r_start r_end r_step].
  destruct (Z.leb_spec s e); lia.
Qed.

Lemma au_count_cnt : forall s e st, st <> 0 ->
  au_count s e (au_step s e st) = Z.to_nat (cnt (mkR s e (au_step s e st)) + 1).
Proof. intros. reflexivity. Qed.

(** every value start + step*k, 0 <= k <= cnt, lies between start and end *)
Lemma lattice_between : forall r k, wf r -> 0 <= k <= cnt r ->
  Z.min (r_start r) (r_end r) <= r_start r + r_step r * k <= Z.max (r_start r) (r_end r).
Proof.
  intros r k H Hk.
  destruct (Z.lt_trichotomy (r_step r) 0) as [Hs|[Hs|Hs]].
  - pose proof (cnt_bounds_neg r H Hs). destruct r as [s e st]; unfold wf in H;
      cbn [r_start r_end r_step] in *. nia.
  - exfalso. apply (wf_step_nz r H Hs).
  - pose proof (cnt_bounds_pos r H Hs). destruct r as [s e st]; unfold wf in H;
      cbn [r_start r_end r_step] in *. nia.
Qed.

Lemma visit_stop_S : forall f stop st v,
  visit_stop (S f) stop st v =
  if v =? stop then Some [v] else option_map (cons v) (visit_stop f stop st (wrap (v + st))).
Proof. reflexivity. Qed.

Lemma visit_past_S : forall f asc e st v,
  visit_past (S f) asc e st v =
  if (if asc then v <=? e else v >=? e)
  then option_map (cons v) (visit_past f asc e st (wrap (v + st))) else Some [].
Proof. reflexivity. Qed.

Lemma visit_stop_run : forall (n : nat) s st k,
  st <> 0 ->
  0 <= k ->
  (forall j, k <= j <= k + Z.of_nat n -> is_int64 (s + st * j)) ->
  visit_stop (S n) (s + st * (k + Z.of_nat n)) st (s + st * k) =
  Some (map (fun i => s + st * (k + Z.of_nat i)) (seq 0 (S n))).
Proof.
  induction n as [|n IH]; intros s st k Hst Hk Hin.
  - rewrite visit_stop_S. cbn [seq map]. rewrite !Z.add_0_r, Z.eqb_refl. reflexivity.
  - rewrite visit_stop_S.
    destruct (Z.eqb_spec (s + st * k) (s + st * (k + Z.of_nat (S n)))) as [E|_]; [nia|].
    replace (s + st * k + st) with (s + st * (k + 1)) by lia.
    rewrite wrap_id by (apply Hin; lia).
    replace (k + Z.of_nat (S n)) with ((k + 1) + Z.of_nat n) by lia.
    rewrite IH; [|assumption|lia|intros j Hj; apply Hin; lia].
    cbn [option_map]. f_equal.
    change (seq 0 (S (S n))) with (0%nat :: seq 1 (S n)).
    cbn [map]. rewrite Z.add_0_r. f_equal.
    rewrite <- seq_shift, map_map. apply map_ext. intro i. f_equal. lia.
Qed.

(** The loop control of the current source: it ends after exactly [au_count] trips and the body
    sees exactly the values the range enumerates, none of them wrapped. *)
Theorem stop_on_last_visits_enum : forall start end_ step,
  au_domain start end_ step ->
  loop_visits CtlStopOnLast (au_count start end_ (au_step start end_ step)) start end_ step =
  Some (enum (mkR start end_ (au_step start end_ step))).
Proof.
  intros s e st (Hs & He & Hst & Hnz & Hspan).
  pose proof (au_step_wf s e st Hnz) as Hwf.
  set (st' := au_step s e st) in *.
  assert (Hst' : st' <> 0) by (apply (wf_step_nz _ Hwf)).
  unfold loop_visits. fold st'.
  assert (Hnr : new_range s e st' = mkR s e st').
  { unfold new_range. destruct (Z.eqb_spec st' 0); [contradiction|reflexivity]. }
  rewrite Hnr, (ir_end_cnt _ Hwf). cbn [r_start r_step].
  pose proof (cnt_nonneg _ Hwf) as Hc.
  unfold au_count. fold (cnt (mkR s e st')).
  set (c := cnt (mkR s e st')) in *.
  replace (Z.to_nat (c + 1)) with (S (Z.to_nat c)) by lia.
  assert (Hin : forall j, 0 <= j <= 0 + Z.of_nat (Z.to_nat c) -> is_int64 (s + st' * j)).
  { intros j Hj. rewrite Z2Nat.id in Hj by lia.
    pose proof (lattice_between (mkR s e st') j Hwf ltac:(fold c; lia)) as Hb.
    cbn [r_start r_end r_step] in Hb. unfold is_int64 in *. lia. }
  pose proof (visit_stop_run (Z.to_nat c) s st' 0 Hst' ltac:(lia) Hin) as R.
  rewrite Z2Nat.id in R by lia.
  replace (s + st' * (0 + c)) with (s + st' * c) in R by lia.
  replace (s + st' * 0) with s in R by lia.
  change (Z.abs (e - s) / Z.abs st') with c.
  replace (Z.to_nat (c + 1)) with (S (Z.to_nat c)) by lia.
  rewrite R. f_equal.
  unfold enum, enum_count. cbn [r_start r_end r_step].
  change (Z.abs (e - s) / Z.abs st') with c.
  replace (Z.to_nat (c + 1)) with (S (Z.to_nat c)) by lia.
  apply map_ext. intro i. f_equal.
Qed.

(** The earlier loop control never ends when the range ends on the largest int: every 64-bit value
    is <= it, whatever the step wraps to. *)
Lemma visit_past_top : forall fuel st v, is_int64 v -> visit_past fuel true int_max st v = None.
Proof.
  induction fuel as [|f IH]; intros st v Hv; [reflexivity|].
  rewrite visit_past_S. destruct (Z.leb_spec v int_max) as [_|H]; [|unfold is_int64 in Hv; lia].
  rewrite IH by apply wrap_is_int64. reflexivity.
Qed.

Lemma visit_past_bottom : forall fuel st v, is_int64 v -> visit_past fuel false int_min st v = None.
Proof.
  induction fuel as [|f IH]; intros st v Hv; [reflexivity|].
  rewrite visit_past_S. destruct (Z.geb_spec v int_min) as [_|H]; [|unfold is_int64 in Hv; lia].
  rewrite IH by apply wrap_is_int64. reflexivity.
Qed.

Theorem test_past_never_ends_at_the_int_edges : forall fuel start step,
  is_int64 start ->
  loop_visits CtlTestPast fuel start int_max step = None /\
  (int_min < start -> loop_visits CtlTestPast fuel start int_min step = None).
Proof.
  intros fuel s st Hs. unfold loop_visits. split.
  - destruct (Z.leb_spec s int_max) as [_|H]; [|unfold is_int64 in Hs; lia].
    apply visit_past_top; assumption.
  - intro Hlt. destruct (Z.leb_spec s int_min) as [H|_]; [lia|].
    apply visit_past_bottom; assumption.
Qed.

(** ** The loop control gfsgen read from the current ranges.go *)
From GFS Require Import GenAuLoop.

Theorem generated_loop_control_visits_enum : forall start end_ step,
  au_domain start end_ step ->
  loop_visits au_loop_ctl (au_count start end_ (au_step start end_ step)) start end_ step =
  Some (enum (mkR start end_ (au_step start end_ step))).
Proof. exact stop_on_last_visits_enum. Qed.

(** the abstract model's [append_unique] normalises the step the same way *)
Lemma append_unique_uses_au_step : forall bl b start end_ step, step <> 0 ->
  append_unique (b :: bl) start end_ step =
  au_loop (au_count start end_ (au_step start end_ step)) (au_step start end_ step)
          start start start false (b :: bl).
Proof.
  intros bl b s e st H. unfold append_unique, au_step.
  destruct (Z.eqb_spec st 0); [contradiction|reflexivity].
Qed.

(** non-vacuity: a range ending on the largest int is in the domain, and the generated control
    ends on it after five trips *)
Example loop_at_the_top_of_the_int_range :
  au_domain (int_max - 4) int_max 1 /\
  loop_visits au_loop_ctl 5 (int_max - 4) int_max 1 =
  Some [int_max - 4; int_max - 3; int_max - 2; int_max - 1; int_max] /\
  loop_visits CtlTestPast 1000 (int_max - 4) int_max 1 = None.
Proof.
  split; [|split].
  - unfold au_domain, is_int64, int_min, int_max. lia.
  - vm_compute. reflexivity.
  - vm_compute. reflexivity.
Qed.
