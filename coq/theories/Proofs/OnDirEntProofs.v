(** fastwalk's use of the callback's answer (Model/OnDirEnt.v, trees generated from the source):
    the decisions are exactly the ones the walk model assumes ([WalkFn.traverses]) and the control
    answers TraverseLink / SkipDir never escape as errors. *)
From GFS Require Import Base Path Listing Seqls WalkLts WalkFn OnDirEnt GenOnDirEnt.

(** onDirEnt, every entry type and every answer *)
Theorem ondirent_decides : forall typ ans,
  run_tree ondirent_tree typ true ans =
  match typ with
  | TDir => mkOR 0 [false] RetNil                       (* a directory is handed over without calling the callback: walk() calls it *)
  | TSymlink =>
    match ans with
    | CTraverse => mkOR 1 [true] RetNil                 (* read the link as a directory; the callback has run already *)
    | CSkipDir => mkOR 1 [] RetNil
    | CNil => mkOR 1 [] RetNil
    | e => mkOR 1 [] (RetErr e)                         (* SkipFiles (readDir then skips the regular files) or a real error *)
    end
  | TOther =>
    match ans with
    | CNil => mkOR 1 [] RetNil
    | e => mkOR 1 [] (RetErr e)
    end
  end.
Proof. intros typ ans; destruct typ, ans; vm_compute; reflexivity. Qed.

(** a symlink is handed over exactly when the walk model says it is traversed *)
Theorem ondirent_enqueues_iff_traverses : forall a,
  r_enq (run_tree ondirent_tree TSymlink true (cbans_of a)) = (if traverses TSymlink a then [true] else []).
Proof. intros a; destruct a; vm_compute; reflexivity. Qed.

(** the control answers never come out of onDirEnt as errors: a SkipDir or TraverseLink answered
    for a symlink cannot abort the walk *)
Theorem ondirent_never_leaks_control_answers : forall a,
  r_ret (run_tree ondirent_tree TSymlink true (cbans_of a)) <> RetErr CSkipDir /\
  r_ret (run_tree ondirent_tree TSymlink true (cbans_of a)) <> RetErr CTraverse.
Proof. intros a; destruct a; vm_compute; split; discriminate. Qed.

(** for a symlink the only error value that can come out is the callback's own SkipFiles (which
    readDir absorbs: it stops passing regular files); for any other entry the seqls callback
    answers nil ([callback_never_lists_a_file]) and so does onDirEnt *)
Theorem ondirent_errors_only_from_the_callback : forall a e,
  r_ret (run_tree ondirent_tree TSymlink true (cbans_of a)) = RetErr e -> e = CSkipFiles /\ a = ASkipFiles.
Proof. intros a e; destruct a; vm_compute; intros H; inversion H; subst; split; reflexivity. Qed.

Theorem ondirent_other_entries_pass : run_tree ondirent_tree TOther true CNil = mkOR 1 [] RetNil.
Proof. vm_compute. reflexivity. Qed.

(** walk(): with the callback still to run, the directory is read exactly when the model says a
    directory is traversed; SkipDir means "do not read, no error"; without it (a link that was
    announced by onDirEnt) the directory is read *)
Theorem walk_decides : forall ans,
  run_tree walk_tree TDir true ans =
  match ans with
  | CNil => mkOR 1 [] RetReadDir
  | CSkipDir => mkOR 1 [] RetNil
  | e => mkOR 1 [] (RetErr e)
  end /\
  run_tree walk_tree TDir false ans = mkOR 0 [] RetReadDir.
Proof. intros ans; destruct ans; vm_compute; split; reflexivity. Qed.

Theorem walk_reads_iff_traverses : forall a, a = ANil \/ a = ASkipDir ->
  (r_ret (run_tree walk_tree TDir true (cbans_of a)) = RetReadDir <-> traverses TDir a = true).
Proof. intros a [H|H]; subst a; vm_compute; split; intros; try reflexivity; discriminate. Qed.

(** callbackDone: a traversed link does not get the callback a second time *)
Theorem link_callback_runs_once :
  r_called (run_tree ondirent_tree TSymlink true CTraverse) + r_called (run_tree walk_tree TDir false CNil) = 1.
Proof. vm_compute. reflexivity. Qed.

(** the trees are the reference ones (a readable statement of what was translated) *)
Lemma generated_trees_are_reference : ondirent_tree = reference_ondirent /\ walk_tree = reference_walk.
Proof. split; reflexivity. Qed.

Print Assumptions ondirent_decides.
Print Assumptions ondirent_enqueues_iff_traverses.
Print Assumptions ondirent_never_leaks_control_answers.
Print Assumptions ondirent_errors_only_from_the_callback.
Print Assumptions walk_decides.
Print Assumptions walk_reads_iff_traverses.
