(** Decimal numerals: integer <-> text conversions ([itoa], [atoi_big],
    [atoi], the spec's independent reader [read_int], zero filling). *)
From Coq Require Import DecimalZ DecimalPos DecimalN DecimalFacts Decimal.
From GFS Require Import Base Dec Pad SpecRange RegexKit RangeRegex.

Definition all_digits (s : bytes) : Prop := Forall (fun c => is_digit c = true) s.

(** text of the shape  -?digit+  *)
Definition numeral (t : bytes) : Prop :=
  match t with 45 :: ds => ds <> [] /\ all_digits ds | _ => t <> [] /\ all_digits t end.

(** value of a digit string, most significant first, by accumulation *)
Fixpoint dval (s : bytes) (acc : Z) : Z :=
  match s with c :: r => dval r (acc * 10 + Z.of_nat (c - 48))%Z | [] => acc end.

(** * digit bytes *)

Lemma is_digit_cases : forall c, is_digit c = true ->
  c = 48 \/ c = 49 \/ c = 50 \/ c = 51 \/ c = 52 \/ c = 53 \/ c = 54 \/ c = 55 \/ c = 56 \/ c = 57.
Proof.
  intros c H. unfold is_digit in H. apply andb_true_iff in H. destruct H as [A B].
  apply Nat.leb_le in A. apply Nat.leb_le in B. lia.
Qed.

Lemma is_digit_range : forall c, is_digit c = true <-> (48 <= c <= 57)%nat.
Proof.
  intros c. unfold is_digit. rewrite andb_true_iff, !Nat.leb_le. tauto.
Qed.

Lemma all_digits_cons : forall c r, all_digits (c :: r) <-> is_digit c = true /\ all_digits r.
Proof.
  intros c r. unfold all_digits. split.
  - intros H. inversion H; subst. tauto.
  - intros [A B]. constructor; assumption.
Qed.

Lemma all_digits_app : forall a b, all_digits (a ++ b) <-> all_digits a /\ all_digits b.
Proof. intros a b. unfold all_digits. apply Forall_app. Qed.

Lemma all_digits_nil : all_digits [].
Proof. constructor. Qed.

Lemma all_digits_forallb : forall s, all_digits s <-> forallb is_digit s = true.
Proof.
  intros s. unfold all_digits. rewrite forallb_forall, Forall_forall. tauto.
Qed.

Lemma repeat_bytes_length1 : forall (c : byte) n, List.length (repeat_bytes [c] n) = n.
Proof. intros c n. induction n as [|n IH]; cbn; [reflexivity|]. now rewrite IH. Qed.

Lemma all_digits_zeros : forall k, all_digits (repeat_bytes [48] k).
Proof.
  intros k. induction k as [|k IH]; cbn; [constructor|].
  apply all_digits_cons. split; [reflexivity | exact IH].
Qed.

(** * heads that are not a sign: the numeral patterns fall to the default branch *)

Lemma atoi_big_other : forall c r, c <> 45 -> c <> 43 ->
  atoi_big (c :: r) = digits_value (c :: r).
Proof.
  intros c r H45 H43. unfold atoi_big.
  do 43 (destruct c as [|c]; [reflexivity|]).
  destruct c as [|c]; [congruence|].
  destruct c as [|c]; [reflexivity|].
  destruct c as [|c]; [congruence|]. reflexivity.
Qed.

Lemma numeral_other : forall c r, c <> 45 ->
  numeral (c :: r) <-> all_digits (c :: r).
Proof.
  intros c r H45.
  assert (E : numeral (c :: r) = (c :: r <> [] /\ all_digits (c :: r))).
  { unfold numeral.
    do 45 (destruct c as [|c]; [reflexivity|]).
    destruct c as [|c]; [congruence|]. reflexivity. }
  rewrite E. split; [tauto|]. intros H. split; [discriminate | exact H].
Qed.

Lemma numeral_neg : forall ds, numeral (45 :: ds) <-> ds <> [] /\ all_digits ds.
Proof. intros ds. reflexivity. Qed.

Lemma digit_not_sign : forall c, is_digit c = true -> c <> 45 /\ c <> 43.
Proof. intros c H. apply is_digit_range in H. lia. Qed.

Lemma numeral_digits : forall ds, ds <> [] -> all_digits ds -> numeral ds.
Proof.
  intros [|c r] Hne H; [congruence|].
  apply numeral_other; [|exact H].
  apply all_digits_cons in H. destruct H as [H _]. now apply digit_not_sign in H.
Qed.

(** the two shapes of a numeral *)
Lemma numeral_inv : forall t, numeral t ->
  (exists ds, t = 45 :: ds /\ ds <> [] /\ all_digits ds) \/
  (t <> [] /\ all_digits t /\ forall ds, t <> 45 :: ds).
Proof.
  intros [|c r] H.
  - destruct H as [H _]. congruence.
  - destruct (Nat.eq_dec c 45) as [->|Hc].
    + left. exists r. split; [reflexivity | exact H].
    + right. apply numeral_other in H; [|exact Hc].
      split; [discriminate|]. split; [exact H|]. intros ds E. congruence.
Qed.

(** * dval *)

Lemma dval_app : forall a b acc, dval (a ++ b) acc = dval b (dval a acc).
Proof.
  intros a. induction a as [|c a IH]; intros b acc; cbn [dval app]; [reflexivity|].
  apply IH.
Qed.

Lemma dval_zeros_acc : forall k ds acc,
  dval (repeat_bytes [48] k ++ ds) acc = dval ds (acc * 10 ^ Z.of_nat k)%Z.
Proof.
  intros k. induction k as [|k IH]; intros ds acc.
  - cbn [repeat_bytes app]. f_equal. change (Z.of_nat 0) with 0%Z. rewrite Z.pow_0_r. lia.
  - cbn [repeat_bytes app dval]. rewrite IH. f_equal.
    rewrite Nat2Z.inj_succ, Z.pow_succ_r by lia.
    change (Z.of_nat (48 - 48)) with 0%Z. ring.
Qed.

Lemma dval_zeros : forall k ds, dval (repeat_bytes [48] k ++ ds) 0 = dval ds 0.
Proof. intros k ds. rewrite dval_zeros_acc. reflexivity. Qed.

Lemma dval_mono_acc : forall ds a, (0 <= a)%Z -> (a <= dval ds a)%Z.
Proof.
  intros ds. induction ds as [|c r IH]; intros a Ha; cbn [dval]; [lia|].
  etransitivity; [|apply IH]; lia.
Qed.

Lemma dval_nonneg_acc : forall ds a, (0 <= a)%Z -> (0 <= dval ds a)%Z.
Proof. intros ds a Ha. pose proof (dval_mono_acc ds a Ha). lia. Qed.

Lemma dval_nonneg : forall ds, all_digits ds -> (0 <= dval ds 0)%Z.
Proof. intros ds _. apply dval_nonneg_acc. lia. Qed.

(** the accumulator is linear *)
Lemma dval_acc : forall ds a,
  dval ds a = (a * 10 ^ Z.of_nat (List.length ds) + dval ds 0)%Z.
Proof.
  intros ds. induction ds as [|c r IH]; intros a.
  - cbn. lia.
  - cbn [dval List.length]. rewrite IH. rewrite (IH (0 * 10 + _)%Z).
    rewrite Nat2Z.inj_succ, Z.pow_succ_r by lia. lia.
Qed.

(** a leading non-zero digit gives a positive value *)
Lemma dval_pos_head : forall c r, is_digit c = true -> c <> 48 -> (0 < dval (c :: r) 0)%Z.
Proof.
  intros c r Hd Hc. cbn [dval]. apply is_digit_range in Hd.
  pose proof (dval_mono_acc r (0 * 10 + Z.of_nat (c - 48))%Z). lia.
Qed.

(** * uint <-> bytes *)

Lemma bytes_to_uint_to_bytes : forall u, bytes_to_uint (uint_to_bytes u) = Some u.
Proof.
  intros u. induction u; cbn [uint_to_bytes bytes_to_uint]; try reflexivity;
    rewrite IHu; reflexivity.
Qed.

Lemma uint_to_bytes_digits : forall u, all_digits (uint_to_bytes u).
Proof.
  intros u. induction u; cbn [uint_to_bytes]; [constructor|..];
    (apply all_digits_cons; split; [reflexivity | assumption]).
Qed.

Lemma bytes_to_uint_digits : forall ds, all_digits ds ->
  exists u, bytes_to_uint ds = Some u /\ uint_to_bytes u = ds.
Proof.
  intros ds. induction ds as [|c r IH]; intros H.
  - exists Nil. split; reflexivity.
  - apply all_digits_cons in H. destruct H as [Hc Hr].
    destruct (IH Hr) as [u [E1 E2]].
    apply is_digit_cases in Hc.
    cbn [bytes_to_uint]. rewrite E1.
    repeat (destruct Hc as [->|Hc]; [eexists; split; [reflexivity | cbn [uint_to_bytes]; now rewrite E2]|]).
    subst c. eexists; split; [reflexivity | cbn [uint_to_bytes]; now rewrite E2].
Qed.

Lemma bytes_to_uint_some : forall ds u, bytes_to_uint ds = Some u ->
  all_digits ds /\ uint_to_bytes u = ds.
Proof.
  intros ds. induction ds as [|c r IH]; intros u H.
  - cbn in H. injection H as <-. split; [constructor | reflexivity].
  - cbn [bytes_to_uint] in H. destruct (bytes_to_uint r) as [u'|] eqn:E; [|discriminate].
    destruct (IH u' eq_refl) as [A B].
    do 48 (destruct c as [|c]; [discriminate|]).
    do 10 (destruct c as [|c];
      [injection H as <-; split;
        [apply all_digits_cons; split; [reflexivity | exact A]
        | cbn [uint_to_bytes]; now rewrite B]|]).
    discriminate.
Qed.

Lemma uint_to_bytes_inj : forall u v, uint_to_bytes u = uint_to_bytes v -> u = v.
Proof.
  intros u v H. pose proof (bytes_to_uint_to_bytes u) as A.
  rewrite H, bytes_to_uint_to_bytes in A. congruence.
Qed.

Lemma uint_to_bytes_nil : forall u, uint_to_bytes u = [] -> u = Nil.
Proof. intros u H. destruct u; cbn in H; congruence. Qed.

(** * the value of a [Decimal.uint] is [dval] of its text *)

Lemma of_uint_acc_dval : forall u acc,
  Z.pos (Pos.of_uint_acc u acc) = dval (uint_to_bytes u) (Z.pos acc).
Proof.
  intros u. induction u; intros acc; cbn [Pos.of_uint_acc uint_to_bytes dval];
    [reflexivity|..]; rewrite IHu; f_equal;
    rewrite ?Pos2Z.inj_add, Pos2Z.inj_mul;
    match goal with |- context [Z.of_nat ?n] =>
      let v := eval vm_compute in (Z.of_nat n) in change (Z.of_nat n) with v end; lia.
Qed.

Lemma pos_of_uint_dval : forall u, Z.of_N (Pos.of_uint u) = dval (uint_to_bytes u) 0.
Proof.
  intros u. induction u; cbn [Pos.of_uint uint_to_bytes dval Z.of_N];
    [reflexivity | exact IHu |..]; rewrite of_uint_acc_dval; reflexivity.
Qed.

Lemma of_uint_dval : forall u, Z.of_uint u = dval (uint_to_bytes u) 0.
Proof. intros u. unfold Z.of_uint. apply pos_of_uint_dval. Qed.

Lemma digits_value_dval : forall ds, ds <> [] -> all_digits ds ->
  digits_value ds = Some (dval ds 0).
Proof.
  intros ds Hne H. destruct (bytes_to_uint_digits ds H) as [u [E1 E2]].
  unfold digits_value. destruct ds as [|c r]; [congruence|].
  rewrite E1, of_uint_dval, E2. reflexivity.
Qed.

Lemma digits_value_some : forall ds z, digits_value ds = Some z ->
  ds <> [] /\ all_digits ds /\ z = dval ds 0.
Proof.
  intros ds z H. unfold digits_value in H.
  destruct ds as [|c r]; [discriminate|].
  destruct (bytes_to_uint (c :: r)) as [u|] eqn:E; [|discriminate].
  apply bytes_to_uint_some in E. destruct E as [A B].
  split; [discriminate|]. split; [exact A|].
  injection H as <-. rewrite of_uint_dval, B. reflexivity.
Qed.

(** * atoi_big *)

Lemma atoi_big_digits : forall ds, ds <> [] -> all_digits ds ->
  atoi_big ds = Some (dval ds 0).
Proof.
  intros ds Hne H. destruct ds as [|c r]; [congruence|].
  pose proof H as H'. apply all_digits_cons in H'. destruct H' as [Hc _].
  apply digit_not_sign in Hc. destruct Hc.
  rewrite atoi_big_other by assumption. apply digits_value_dval; assumption.
Qed.

Lemma atoi_big_neg : forall ds, ds <> [] -> all_digits ds ->
  atoi_big (45 :: ds) = Some (- dval ds 0)%Z.
Proof.
  intros ds Hne H. unfold atoi_big. rewrite digits_value_dval by assumption. reflexivity.
Qed.

Lemma atoi_big_numeral : forall t, numeral t ->
  atoi_big t = Some (match t with 45 :: ds => (- dval ds 0)%Z | _ => dval t 0 end).
Proof.
  intros t H. destruct (numeral_inv t H) as [[ds [-> [A B]]]|[A [B C]]].
  - apply atoi_big_neg; assumption.
  - rewrite atoi_big_digits by assumption. f_equal.
    destruct t as [|c r]; [reflexivity|].
    do 45 (destruct c as [|c]; [reflexivity|]).
    destruct c as [|c]; [|reflexivity]. exfalso. eapply C. reflexivity.
Qed.

Lemma atoi_big_only_numeral_or_plus : forall t z, atoi_big t = Some z ->
  numeral t \/ (exists ds, t = 43 :: ds /\ ds <> [] /\ all_digits ds).
Proof.
  intros t z H. destruct t as [|c r]; [discriminate|].
  destruct (Nat.eq_dec c 45) as [->|H45].
  - left. unfold atoi_big in H. destruct (digits_value r) as [v|] eqn:E; [|discriminate].
    apply digits_value_some in E. apply numeral_neg. tauto.
  - destruct (Nat.eq_dec c 43) as [->|H43].
    + right. exists r. unfold atoi_big in H. apply digits_value_some in H.
      split; [reflexivity | tauto].
    + left. rewrite atoi_big_other in H by assumption.
      apply digits_value_some in H. apply numeral_other; tauto.
Qed.

(** exact characterisation of the domain and value of [atoi_big] *)
Lemma atoi_big_some_iff : forall t z, atoi_big t = Some z <->
  (numeral t /\ z = match t with 45 :: ds => (- dval ds 0)%Z | _ => dval t 0 end) \/
  (exists ds, t = 43 :: ds /\ ds <> [] /\ all_digits ds /\ z = dval ds 0).
Proof.
  intros t z. split.
  - intros H. destruct (atoi_big_only_numeral_or_plus t z H) as [N|[ds [-> [A B]]]].
    + left. split; [exact N|]. rewrite (atoi_big_numeral t N) in H. congruence.
    + right. exists ds. unfold atoi_big in H. rewrite digits_value_dval in H by assumption.
      repeat split; try assumption. congruence.
  - intros [[N ->]|[ds [-> [A [B ->]]]]].
    + apply atoi_big_numeral. exact N.
    + unfold atoi_big. apply digits_value_dval; assumption.
Qed.

Lemma atoi_atoi_big : forall t,
  atoi t = match atoi_big t with Some z => if fits_int z then Some z else None | None => None end.
Proof. reflexivity. Qed.

(** * the independent reader of the spec *)

Lemma read_digits_span : forall s acc n, read_digits s acc n =
  (dval (firstn (span_len is_digit s) s) acc, (n + span_len is_digit s)%nat,
   skipn (span_len is_digit s) s).
Proof.
  intros s. induction s as [|c r IH]; intros acc n; cbn [read_digits span_len].
  - cbn [firstn skipn dval]. rewrite Nat.add_0_r. reflexivity.
  - destruct (is_digit c).
    + rewrite IH. cbn [firstn skipn dval]. rewrite Nat.add_succ_comm. reflexivity.
    + cbn [firstn skipn dval]. rewrite Nat.add_0_r. reflexivity.
Qed.

Lemma span_digits : forall s, all_digits (firstn (span_len is_digit s) s).
Proof. intros s. apply all_digits_forallb, span_len_forall. Qed.

Lemma span_firstn_length : forall s,
  List.length (firstn (span_len is_digit s) s) = span_len is_digit s.
Proof. intros s. apply firstn_length_le, span_len_le. Qed.

Lemma span_firstn_nonempty : forall s k, span_len is_digit s = S k ->
  firstn (span_len is_digit s) s <> [].
Proof.
  intros s k H E. pose proof (span_firstn_length s) as L. rewrite E, H in L. discriminate.
Qed.

Lemma read_int_num_len : forall s, read_int s =
  match num_len s with
  | O => None
  | n => match atoi_big (firstn n s) with Some v => Some (v, skipn n s) | None => None end
  end.
Proof.
  intros s. destruct s as [|c r]; [reflexivity|].
  destruct (Nat.eq_dec c 45) as [->|Hc].
  - unfold read_int, num_len. rewrite read_digits_span. cbn [Nat.add].
    pose proof (span_digits r) as D. pose proof (span_firstn_length r) as L.
    destruct (span_len is_digit r) as [|k]; [reflexivity|].
    change (firstn (S (S k)) (45 :: r)) with (45 :: firstn (S k) r).
    change (skipn (S (S k)) (45 :: r)) with (skipn (S k) r).
    rewrite atoi_big_neg; [reflexivity | intros E; rewrite E in L; discriminate | exact D].
  - assert (E : read_int (c :: r) =
      let '(v, n, rest) := read_digits (c :: r) 0 0 in
      match n with O => None | _ => Some (v, rest) end).
    { unfold read_int. do 45 (destruct c as [|c]; [reflexivity|]).
      destruct c as [|c]; [congruence | reflexivity]. }
    rewrite E, read_digits_span, num_len_eq. cbn [Nat.add].
    apply Nat.eqb_neq in Hc. rewrite Hc.
    pose proof (span_digits (c :: r)) as D. pose proof (span_firstn_length (c :: r)) as L.
    destruct (span_len is_digit (c :: r)) as [|k]; [reflexivity|].
    rewrite atoi_big_digits; [reflexivity | intros E'; rewrite E' in L; discriminate | exact D].
Qed.

(** * itoa *)

Lemma itoa_zero : itoa 0 = [48].
Proof. reflexivity. Qed.

Lemma itoa_pos : forall p, itoa (Z.pos p) = uint_to_bytes (Pos.to_uint p).
Proof. reflexivity. Qed.

Lemma itoa_negative : forall p, itoa (Z.neg p) = 45 :: uint_to_bytes (Pos.to_uint p).
Proof. reflexivity. Qed.

Lemma pos_to_uint_nzhead : forall p, nzhead (Pos.to_uint p) = Pos.to_uint p.
Proof.
  intros p. pose proof (DecimalPos.Unsigned.to_of (Pos.to_uint p)) as E.
  rewrite DecimalPos.Unsigned.of_to in E. cbn [N.to_uint] in E.
  pose proof (DecimalPos.Unsigned.to_uint_nonzero p) as NZ.
  unfold unorm in E. destruct (nzhead (Pos.to_uint p)) eqn:N; try (symmetry; exact E).
  congruence.
Qed.

(** the text of a positive number: a non-zero digit, then digits *)
Lemma pos_to_uint_head : forall p, exists c r,
  uint_to_bytes (Pos.to_uint p) = c :: r /\ is_digit c = true /\ c <> 48 /\ all_digits r.
Proof.
  intros p. pose proof (pos_to_uint_nzhead p) as N.
  pose proof (DecimalPos.Unsigned.to_uint_nonnil p) as NN.
  pose proof (uint_to_bytes_digits (Pos.to_uint p)) as D.
  destruct (Pos.to_uint p) as [|u|u|u|u|u|u|u|u|u|u] eqn:E;
    [congruence | exfalso; eapply nzhead_nonzero; exact N | ..];
    cbn [uint_to_bytes] in *; apply all_digits_cons in D; destruct D as [D1 D2];
    eexists; eexists; (split; [reflexivity|]); (split; [exact D1|]); (split; [discriminate | exact D2]).
Qed.

Lemma itoa_numeral : forall z, numeral (itoa z).
Proof.
  intros [|p|p].
  - rewrite itoa_zero. apply numeral_digits; [discriminate|].
    apply all_digits_cons. split; [reflexivity | constructor].
  - rewrite itoa_pos. destruct (pos_to_uint_head p) as [c [r [E [A [B C]]]]].
    apply numeral_digits; [rewrite E; discriminate | apply uint_to_bytes_digits].
  - rewrite itoa_negative. destruct (pos_to_uint_head p) as [c [r [E [A [B C]]]]].
    apply numeral_neg. split; [rewrite E; discriminate | apply uint_to_bytes_digits].
Qed.

Lemma dval_pos_to_uint : forall p, dval (uint_to_bytes (Pos.to_uint p)) 0 = Z.pos p.
Proof.
  intros p. rewrite <- pos_of_uint_dval, DecimalPos.Unsigned.of_to. reflexivity.
Qed.

Lemma atoi_big_itoa : forall z, atoi_big (itoa z) = Some z.
Proof.
  intros [|p|p].
  - reflexivity.
  - rewrite itoa_pos. destruct (pos_to_uint_head p) as [c [r [E [A [B C]]]]].
    rewrite atoi_big_digits; [| rewrite E; discriminate | apply uint_to_bytes_digits].
    rewrite dval_pos_to_uint. reflexivity.
  - rewrite itoa_negative. destruct (pos_to_uint_head p) as [c [r [E [A [B C]]]]].
    rewrite atoi_big_neg; [| rewrite E; discriminate | apply uint_to_bytes_digits].
    rewrite dval_pos_to_uint. reflexivity.
Qed.

Lemma atoi_itoa : forall z, fits_int z = true -> atoi (itoa z) = Some z.
Proof. intros z H. unfold atoi. rewrite atoi_big_itoa, H. reflexivity. Qed.

Lemma atoi_itoa_out : forall z, fits_int z = false -> atoi (itoa z) = None.
Proof. intros z H. unfold atoi. rewrite atoi_big_itoa, H. reflexivity. Qed.

Lemma itoa_inj : forall a b, itoa a = itoa b -> a = b.
Proof.
  intros a b H. pose proof (atoi_big_itoa a) as A. rewrite H, atoi_big_itoa in A. congruence.
Qed.

Lemma itoa_neg_head : forall z, (z < 0)%Z <-> (exists ds, itoa z = 45 :: ds).
Proof.
  intros [|p|p]; split.
  - lia.
  - intros [ds H]. discriminate.
  - lia.
  - intros [ds H]. rewrite itoa_pos in H.
    pose proof (uint_to_bytes_digits (Pos.to_uint p)) as D. rewrite H in D.
    apply all_digits_cons in D. destruct D as [D _]. discriminate.
  - intros _. eexists. apply itoa_negative.
  - intros _. lia.
Qed.

Lemma itoa_opp : forall z, (0 < z)%Z -> itoa (- z) = 45 :: itoa z.
Proof. intros [|p|p] H; try lia. reflexivity. Qed.

Lemma itoa_nonneg_head : forall z, (0 <= z)%Z -> exists c r,
  itoa z = c :: r /\ is_digit c = true /\ all_digits r /\ (c = 48 -> z = 0%Z /\ r = []).
Proof.
  intros [|p|p] H; try lia.
  - exists 48, []. repeat split; constructor.
  - destruct (pos_to_uint_head p) as [c [r [E [A [B C]]]]].
    exists c, r. rewrite itoa_pos. repeat split; try assumption; congruence.
Qed.

Lemma itoa_length_pos : forall z, (1 <= List.length (itoa z))%nat.
Proof.
  intros [|p|p].
  - cbn. lia.
  - destruct (itoa_nonneg_head (Z.pos p)) as [c [r [E _]]]; [lia|]. rewrite E. cbn. lia.
  - rewrite itoa_negative. cbn. lia.
Qed.

Lemma itoa_no_leading_zero : forall z,
  match itoa z with 48 :: _ :: _ => False | 45 :: 48 :: _ => False | _ => True end.
Proof.
  intros [|p|p].
  - exact I.
  - rewrite itoa_pos. destruct (pos_to_uint_head p) as [c [r [E [A [B C]]]]]. rewrite E.
    apply is_digit_cases in A.
    repeat (destruct A as [->|A]; [try congruence; exact I|]). subst c. exact I.
  - rewrite itoa_negative. destruct (pos_to_uint_head p) as [c [r [E [A [B C]]]]]. rewrite E.
    apply is_digit_cases in A.
    repeat (destruct A as [->|A]; [try congruence; exact I|]). subst c. exact I.
Qed.

(** a digit string without a leading zero is the text of its value *)
Lemma itoa_canonical : forall c r, all_digits (c :: r) -> c <> 48 ->
  itoa (dval (c :: r) 0) = c :: r.
Proof.
  intros c r H Hc. destruct (bytes_to_uint_digits _ H) as [u [_ E]].
  rewrite <- E, <- of_uint_dval.
  change (Z.of_uint u) with (Z.of_int (Pos u)).
  unfold itoa. rewrite DecimalZ.to_of. cbn [norm].
  replace (unorm u) with u; [reflexivity|].
  destruct u; cbn [uint_to_bytes] in E; try congruence; reflexivity.
Qed.

(** every digit string is zeros followed by the text of its value *)
Lemma digits_zeros_itoa : forall ds, ds <> [] -> all_digits ds ->
  exists k, ds = repeat_bytes [48] k ++ itoa (dval ds 0).
Proof.
  intros ds. induction ds as [|c r IH]; intros Hne H; [congruence|].
  destruct (Nat.eq_dec c 48) as [->|Hc].
  - destruct r as [|d r'].
    + exists O. reflexivity.
    + apply all_digits_cons in H. destruct H as [_ H].
      destruct (IH ltac:(discriminate) H) as [k E].
      exists (S k). cbn [repeat_bytes app]. f_equal.
      change (dval (48 :: d :: r') 0) with (dval (d :: r') 0). exact E.
  - exists O. cbn [repeat_bytes app]. symmetry. apply itoa_canonical; assumption.
Qed.

(** * zero fill *)

Lemma zfill_string_neg : forall (ds : bytes) w,
  zfill_string (45 :: ds) w =
  if (Z.of_nat (S (List.length ds)) >=? w)%Z then 45 :: ds
  else 45 :: repeat_bytes [48] (Z.to_nat (w - Z.of_nat (S (List.length ds)))) ++ ds.
Proof. reflexivity. Qed.

Lemma zfill_string_other : forall (t : bytes) w, (forall ds, t <> 45 :: ds) ->
  zfill_string t w =
  if (Z.of_nat (List.length t) >=? w)%Z then t
  else repeat_bytes [48] (Z.to_nat (w - Z.of_nat (List.length t))) ++ t.
Proof.
  intros t w H. unfold zfill_string. cbv zeta.
  destruct (Z.of_nat (List.length t) >=? w)%Z; [reflexivity|].
  destruct t as [|c r]; [reflexivity|].
  do 45 (destruct c as [|c]; [reflexivity|]).
  destruct c as [|c]; [|reflexivity]. exfalso. eapply H. reflexivity.
Qed.

Lemma zfill_string_short : forall (t : bytes) w, (w <= Z.of_nat (List.length t))%Z -> zfill_string t w = t.
Proof.
  intros t w H. unfold zfill_string. cbv zeta.
  destruct (Z.geb_spec (Z.of_nat (List.length t)) w) as [_|L]; [reflexivity | lia].
Qed.

Lemma zfill_string_length : forall (t : bytes) w,
  (Z.of_nat (List.length (zfill_string t w)) = Z.max (Z.of_nat (List.length t)) w)%Z.
Proof.
  intros t w. destruct (Z.le_gt_cases w (Z.of_nat (List.length t))) as [L|L].
  - rewrite zfill_string_short by exact L. lia.
  - assert (E : List.length (zfill_string t w) =
               (Z.to_nat (w - Z.of_nat (List.length t)) + List.length t)%nat).
    { unfold zfill_string. cbv zeta.
      destruct (Z.geb_spec (Z.of_nat (List.length t)) w) as [G|_]; [lia|].
      destruct t as [|c r]; [now rewrite app_length, repeat_bytes_length1|].
      do 45 (destruct c as [|c]; [now rewrite app_length, repeat_bytes_length1|]).
      destruct c as [|c]; [|now rewrite app_length, repeat_bytes_length1].
      cbn [List.length]. rewrite app_length, repeat_bytes_length1. cbn [List.length]. lia. }
    rewrite E. lia.
Qed.

Lemma zfill_string_idem : forall (t : bytes) w, zfill_string (zfill_string t w) w = zfill_string t w.
Proof.
  intros t w. apply zfill_string_short. rewrite zfill_string_length. lia.
Qed.

(** the shape of the filled text, for numerals *)
Lemma zfill_string_numeral_shape : forall (t : bytes) w, numeral t ->
  exists k, zfill_string t w =
    match t with 45 :: ds => 45 :: repeat_bytes [48] k ++ ds | _ => repeat_bytes [48] k ++ t end.
Proof.
  intros t w H. destruct (numeral_inv t H) as [[ds [-> [A B]]]|[A [B C]]].
  - rewrite zfill_string_neg. destruct (_ >=? _)%Z.
    + exists O. reflexivity.
    + eexists. reflexivity.
  - rewrite zfill_string_other by exact C.
    assert (E : forall k, match t with 45 :: ds => 45 :: repeat_bytes [48] k ++ ds
                          | _ => repeat_bytes [48] k ++ t end = repeat_bytes [48] k ++ t).
    { intros k. destruct t as [|c r]; [reflexivity|].
      do 45 (destruct c as [|c]; [reflexivity|]).
      destruct c as [|c]; [|reflexivity]. exfalso. eapply C. reflexivity. }
    destruct (_ >=? _)%Z.
    + exists O. rewrite E. reflexivity.
    + eexists. rewrite E. reflexivity.
Qed.

Lemma zfill_string_numeral : forall (t : bytes) w, numeral t -> numeral (zfill_string t w).
Proof.
  intros t w H. destruct (zfill_string_numeral_shape t w H) as [k E]. rewrite E. clear E.
  destruct (numeral_inv t H) as [[ds [-> [A B]]]|[A [B C]]].
  - apply numeral_neg. split.
    + destruct ds; [congruence|]. intros E. apply app_eq_nil in E. destruct E; discriminate.
    + apply all_digits_app. split; [apply all_digits_zeros | exact B].
  - assert (N : numeral (repeat_bytes [48] k ++ t)).
    { apply numeral_digits.
      - intros E. apply app_eq_nil in E. tauto.
      - apply all_digits_app. split; [apply all_digits_zeros | exact B]. }
    destruct t as [|c r]; [exact N|].
    do 45 (destruct c as [|c]; [exact N|]).
    destruct c as [|c]; [|exact N]. exfalso. eapply C. reflexivity.
Qed.

Lemma zfill_string_value : forall (t : bytes) w, numeral t -> atoi_big (zfill_string t w) = atoi_big t.
Proof.
  intros t w H. destruct (zfill_string_numeral_shape t w H) as [k E]. rewrite E. clear E.
  destruct (numeral_inv t H) as [[ds [-> [A B]]]|[A [B C]]].
  - assert (X : repeat_bytes [48] k ++ ds <> []) by (intros E; apply app_eq_nil in E; tauto).
    assert (Y : all_digits (repeat_bytes [48] k ++ ds))
      by (apply all_digits_app; split; [apply all_digits_zeros | exact B]).
    rewrite (atoi_big_neg _ X Y), (atoi_big_neg _ A B), dval_zeros. reflexivity.
  - assert (N : atoi_big (repeat_bytes [48] k ++ t) = atoi_big t).
    { assert (X : repeat_bytes [48] k ++ t <> []) by (intros E; apply app_eq_nil in E; tauto).
      assert (Y : all_digits (repeat_bytes [48] k ++ t))
        by (apply all_digits_app; split; [apply all_digits_zeros | exact B]).
      rewrite (atoi_big_digits _ X Y), (atoi_big_digits _ A B), dval_zeros. reflexivity. }
    destruct t as [|c r]; [exact N|].
    do 45 (destruct c as [|c]; [exact N|]).
    destruct c as [|c]; [|exact N]. exfalso. eapply C. reflexivity.
Qed.

Lemma zfill_int_numeral : forall v w, numeral (zfill_int v w).
Proof.
  intros v w. unfold zfill_int. destruct (w <? 2)%Z.
  - apply itoa_numeral.
  - apply zfill_string_numeral, itoa_numeral.
Qed.

Lemma zfill_int_value : forall v w, atoi_big (zfill_int v w) = Some v.
Proof.
  intros v w. unfold zfill_int. destruct (w <? 2)%Z.
  - apply atoi_big_itoa.
  - rewrite zfill_string_value by apply itoa_numeral. apply atoi_big_itoa.
Qed.

(** exact length: the width wins only when it exceeds the natural text *)
Lemma zfill_int_length_eq : forall v w,
  (Z.of_nat (List.length (zfill_int v w)) = Z.max (Z.of_nat (List.length (itoa v))) w)%Z.
Proof.
  intros v w. unfold zfill_int. destruct (Z.ltb_spec w 2) as [L|L].
  - pose proof (itoa_length_pos v). lia.
  - apply zfill_string_length.
Qed.

Lemma zfill_int_length : forall v w,
  (Z.of_nat (List.length (zfill_int v w)) >= w)%Z /\
  (Z.of_nat (List.length (zfill_int v w)) >= Z.of_nat (List.length (itoa v)))%Z /\
  ((2 <= w)%Z ->
   Z.of_nat (List.length (zfill_int v w)) = Z.max (Z.of_nat (List.length (itoa v))) w).
Proof. intros v w. pose proof (zfill_int_length_eq v w). lia. Qed.

Lemma zfill_int_inj : forall a b w, zfill_int a w = zfill_int b w -> a = b.
Proof.
  intros a b w H. pose proof (zfill_int_value a w) as A.
  rewrite H, zfill_int_value in A. congruence.
Qed.

Lemma zfill_int_narrow : forall v w, (w <= Z.of_nat (List.length (itoa v)))%Z ->
  zfill_int v w = itoa v.
Proof.
  intros v w H. unfold zfill_int. destruct (w <? 2)%Z; [reflexivity|].
  apply zfill_string_short. exact H.
Qed.

(** * text reconstruction *)

Ltac nb := unfold bytes, byte in *.

Lemma zfill_int_digits : forall ds, ds <> [] -> all_digits ds ->
  zfill_int (dval ds 0) (Z.of_nat (List.length ds)) = ds.
Proof.
  intros ds Hne H. destruct (digits_zeros_itoa ds Hne H) as [k E].
  pose proof (dval_nonneg ds H) as NN.
  set (v := dval ds 0) in *.
  assert (L : List.length ds = (k + List.length (itoa v))%nat).
  { rewrite E at 1. rewrite app_length, repeat_bytes_length1. reflexivity. }
  pose proof (itoa_length_pos v) as P.
  destruct k as [|k].
  - rewrite zfill_int_narrow by (nb; lia). symmetry. exact E.
  - unfold zfill_int. nb.
    match goal with |- context [Z.ltb ?a ?b] => destruct (Z.ltb_spec a b) as [L2|L2] end; nb; [lia|].
    destruct (itoa_nonneg_head v NN) as [c [r [E' [A _]]]].
    rewrite zfill_string_other.
    + nb. match goal with |- context [Z.geb ?a ?b] => destruct (Z.geb_spec a b) as [G|G] end; nb; [lia|].
      rewrite E at 2. f_equal. f_equal. lia.
    + intros ds' X. rewrite E' in X. injection X as -> _. discriminate.
Qed.

Lemma zfill_int_neg_digits : forall ds, ds <> [] -> all_digits ds -> dval ds 0 <> 0%Z ->
  zfill_int (- dval ds 0) (Z.of_nat (List.length (45 :: ds))) = 45 :: ds.
Proof.
  intros ds Hne H NZ. destruct (digits_zeros_itoa ds Hne H) as [k E].
  pose proof (dval_nonneg ds H) as NN.
  set (v := dval ds 0) in *.
  assert (L : List.length ds = (k + List.length (itoa v))%nat).
  { rewrite E at 1. rewrite app_length, repeat_bytes_length1. reflexivity. }
  pose proof (itoa_length_pos v) as P.
  unfold zfill_int. cbn [List.length]. nb.
  match goal with |- context [Z.ltb ?a ?b] => destruct (Z.ltb_spec a b) as [L2|L2] end; nb; [lia|].
  rewrite itoa_opp by lia. rewrite zfill_string_neg. nb.
  match goal with |- context [Z.geb ?a ?b] => destruct (Z.geb_spec a b) as [G|G] end; nb.
  - assert (k = O) by lia. subst k. rewrite E. reflexivity.
  - transitivity (45 :: repeat_bytes [48] k ++ itoa v); [|f_equal; symmetry; exact E].
    f_equal. f_equal. f_equal. lia.
Qed.

Lemma zfill_int_reconstruct : forall t v, numeral t -> atoi_big t = Some v ->
  (forall ds, t = 45 :: ds -> dval ds 0 <> 0%Z) ->
  zfill_int v (Z.of_nat (List.length t)) = t.
Proof.
  intros t v N A NZ. destruct (numeral_inv t N) as [[ds [-> [B C]]]|[B [C D]]].
  - rewrite atoi_big_neg in A by assumption. injection A as <-.
    apply zfill_int_neg_digits; try assumption. apply NZ. reflexivity.
  - rewrite atoi_big_digits in A by assumption. injection A as <-.
    apply zfill_int_digits; assumption.
Qed.

(** the side condition is necessary: a negative zero is never reproduced *)
Lemma zfill_int_reconstruct_iff : forall t v, numeral t -> atoi_big t = Some v ->
  (zfill_int v (Z.of_nat (List.length t)) = t <->
   (forall ds, t = 45 :: ds -> dval ds 0 <> 0%Z)).
Proof.
  intros t v N A. split; [|apply zfill_int_reconstruct; assumption].
  intros R ds -> Z0.
  destruct N as [B C]. rewrite atoi_big_neg in A by assumption. injection A as <-.
  rewrite Z0 in R. change (- 0)%Z with 0%Z in R.
  assert (X : (0 < 0)%Z); [|lia].
  apply itoa_neg_head. 
  pose proof (zfill_int_value 0 (Z.of_nat (List.length (45 :: ds)))) as V.
  unfold zfill_int in R. destruct (_ <? 2)%Z.
  - exists ds. exact R.
  - rewrite itoa_zero in R. rewrite zfill_string_other in R.
    + destruct (_ >=? _)%Z; [discriminate|].
      destruct (Z.to_nat _) in R; discriminate.
    + intros ds'. discriminate.
Qed.
