(** End-to-end composition for the model of [seqls -r] (Model/Seqls.v):
    the sequences printed for a directory tree expand to exactly the files
    the flags select.

    Composed from
      - C06  [DiskProofs.on_disk_is_in_list]      scan of a directory = list API over its non-directories
      - C05  [ListingProofs4.listing_exact_cover] the list API covers every (visible) path exactly once
             [ListingProofs5.no_single_is_filter] without SingleFiles: the numbered ones only
      - C17  [WalkProofs.walk_visits_exactly]     which directories become jobs

    Two forms of the per-directory statement are given:
      - [dir_job_covers_directory] / [dir_job_covers_numbered]: literally C06 then C05, hence with
        their hypotheses (names without backslash, cleaned directory <> ".") and with [path_clean];
      - [dir_job_covers_any] / [dir_job_numbered_any]: from the item-level theorems underneath C05
        ([collect_spec], [emit_all_spec]); no [path_clean], no restriction to directories other
        than "." and no restriction on backslashes in file names (the scan, unlike the list API,
        never re-splits a joined path).  For a directory that does not clean to "." both forms
        coincide ([dir_files_clean]).
    The capstone [seqls_recursive_cover] uses the second form, so that the root "." (the default
    argument of seqls) is covered; [seqls_recursive_cover_clean] is the form with [path_clean],
    [seqls_recursive_cover_nodup] adds that no path string is reported by two jobs,
    [seqls_lines_are_the_jobs_lines] / [seqls_r_end_to_end] tie the sequences to the printed lines,
    [CoverExample] instantiates every hypothesis on a concrete tree. *)
From Coq Require Import Permutation.
From GFS Require Import Base Dec Regex GenRegex GenPadTables Ranges Pad FrameSet Compress Path Seq
  Listing Seqls SpecSeq SpecListing SplitProofs CompressProofs DiskProofs
  ListingProofs1 ListingProofs2 ListingProofs4 ListingProofs5 WalkProofs.
Local Open Scope nat_scope.

(* ------------------------------------------------------------------ *)
(** * small list facts *)

Lemma Permutation_flat_map_pointwise : forall (A B : Type) (f g : A -> list B) (l : list A),
  (forall x, In x l -> Permutation (f x) (g x)) ->
  Permutation (flat_map f l) (flat_map g l).
Proof.
  intros A B f g l. induction l as [|a l IH]; intros H; [apply perm_nil|].
  cbn [flat_map]. apply Permutation_app.
  - apply H. left. reflexivity.
  - apply IH. intros x Hx. apply H. right. exact Hx.
Qed.

Lemma flat_map_flat_map : forall (A B C : Type) (g : A -> list B) (h : B -> list C) (l : list A),
  flat_map h (flat_map g l) = flat_map (fun a => flat_map h (g a)) l.
Proof.
  intros A B C g h l. induction l as [|a l IH]; [reflexivity|].
  cbn [flat_map]. rewrite flat_map_app, IH. reflexivity.
Qed.

Lemma NoDup_map_prefix : forall (p : bytes) (l : list bytes), NoDup l -> NoDup (map (fun n => p ++ n) l).
Proof.
  intros p l H. induction H as [|a l Hin Hnd IH]; [constructor|].
  cbn [map]. constructor; [|exact IH].
  intros Hm. apply in_map_iff in Hm. destruct Hm as (b & Hb & Hbl).
  apply app_inv_head in Hb. subst b. exact (Hin Hbl).
Qed.

Lemma non_dirs_Forall : forall (P : bytes -> Prop) ents,
  Forall (fun e => P (fst e)) ents -> Forall P (non_dirs ents).
Proof.
  intros P ents H. apply Forall_forall. intros n Hn.
  destruct (non_dirs_in _ _ Hn) as [k Hk]. rewrite Forall_forall in H. exact (H _ Hk).
Qed.

(* ------------------------------------------------------------------ *)
(** * the options seqls hands to the scan *)

Lemma file_opts_hidden : forall f, existsb (Z.eqb K_HiddenFiles) (file_opts f) = sf_all f.
Proof. intros [r a s h b]. destruct a, s, h; reflexivity. Qed.

Lemma file_opts_single : forall f, existsb (Z.eqb K_SingleFiles) (file_opts f) = negb (sf_seqs f).
Proof. intros [r a s h b]. destruct a, s, h; reflexivity. Qed.

(** the flags with [-s] taken away *)
Definition with_singles (f : sflags) : sflags :=
  mkSF (sf_recurse f) (sf_all f) false (sf_hash1 f) (sf_abs f).

Lemma file_opts_without_single : forall f, sf_seqs f = true ->
  file_opts f = filter (fun z => negb (Z.eqb K_SingleFiles z)) (file_opts (with_singles f)).
Proof. intros [r a s h b] H. cbn [sf_seqs] in H. subst s. destruct a, h; reflexivity. Qed.

(* ------------------------------------------------------------------ *)
(** * what one job prints, as sequences *)

Definition dir_job_seqs (f : sflags) (t : tree) (spelled real : bytes) : list fileseq :=
  match find_on_disk spelled (Some (entries t real)) (file_opts f) None with
  | Ok qs => qs
  | _ => []
  end.

Lemma dir_job_lines_are_strings : forall f t spelled real,
  dir_job_lines f t spelled real = map q_string (dir_job_seqs f t spelled real).
Proof.
  intros f t spelled real. unfold dir_job_lines, dir_job_seqs.
  destruct (find_on_disk spelled (Some (entries t real)) (file_opts f) None); reflexivity.
Qed.

(** the visible non-directory entries of the directory [real], spelled under [spelled] *)
Definition dir_files (hidden : bool) (t : tree) (spelled real : bytes) : list bytes :=
  filter (visible hidden) (map (fun n => dir_prefix spelled ++ n) (non_dirs (entries t real))).

(* ------------------------------------------------------------------ *)
(** * one job, by C06 then C05 *)

Section ByComposition.
Variables (f : sflags) (t : tree) (spelled real : bytes).
Let ents := entries t real.
Let paths := map (fun n => dir_prefix spelled ++ n) (non_dirs ents).

Hypothesis Hnames : Forall (fun e => entry_name_ok (fst e)) ents.
Hypothesis Hnobs  : Forall (fun e => ~ In c_bslash (fst e)) ents.
Hypothesis Hdang  : forall n, ~ In (n, KLinkDangling) ents.
Hypothesis Hsp    : ~ In c_bslash (path_clean spelled).
Hypothesis Hdot   : path_clean spelled <> [c_dot].
Hypothesis Hnd    : NoDup (non_dirs ents).
Hypothesis Hok    : Forall (fun n => name_ok (dir_prefix spelled ++ n)) (non_dirs ents).

(** law (ii) of filepath.Clean on every joined path of the directory *)
Lemma joined_is_clean : map path_clean paths = paths.
Proof.
  unfold paths. rewrite map_map. apply map_ext_in. intros n Hn.
  apply clean_child; auto.
  destruct (non_dirs_in _ _ Hn) as [k Hk]. rewrite Forall_forall in Hnames. exact (Hnames _ Hk).
Qed.

Lemma joined_nodup : NoDup (map path_clean paths).
Proof. rewrite joined_is_clean. unfold paths. apply NoDup_map_prefix. exact Hnd. Qed.

Lemma joined_name_ok : Forall (fun p => name_ok (path_clean p)) paths.
Proof.
  apply Forall_forall. intros p Hp.
  assert (E : path_clean p = p).
  { pose proof joined_is_clean as J. clear - J Hp. induction paths as [|q l IH]; [contradiction|].
    cbn [map] in J. injection J as J1 J2. destruct Hp as [<-|Hp]; auto. }
  rewrite E. unfold paths in Hp. apply in_map_iff in Hp. destruct Hp as (n & <- & Hn).
  rewrite Forall_forall in Hok. exact (Hok n Hn).
Qed.

Lemma scan_is_list_api :
  find_on_disk spelled (Some ents) (file_opts f) None = find_in_list paths (file_opts f).
Proof. unfold paths. apply on_disk_is_in_list; assumption. Qed.

(** without [-s]: the printed sequences of the directory expand to exactly its visible
    non-directory entries, each once, nothing invented *)
Theorem dir_job_covers_directory_sec : sf_seqs f = false ->
  find_on_disk spelled (Some ents) (file_opts f) None = Ok (dir_job_seqs f t spelled real) /\
  Permutation (flat_map q_paths (dir_job_seqs f t spelled real))
              (filter (visible (sf_all f))
                      (map (fun n => path_clean (dir_prefix spelled ++ n)) (non_dirs ents))).
Proof.
  intros Hs.
  destruct (listing_exact_cover paths (file_opts f) joined_nodup joined_name_ok) as (seqs & Hr & Hp).
  { rewrite file_opts_single, Hs. reflexivity. }
  rewrite file_opts_hidden in Hp.
  unfold dir_job_seqs. fold ents. rewrite scan_is_list_api, Hr.
  split; [reflexivity|]. unfold paths in Hp. rewrite map_map in Hp. exact Hp.
Qed.

(** with [-s]: only the members of numbered sequences; and these are the same sequences
    that are printed without [-s] *)
Theorem dir_job_covers_numbered_sec : sf_seqs f = true ->
  find_on_disk spelled (Some ents) (file_opts f) None = Ok (dir_job_seqs f t spelled real) /\
  Permutation (flat_map q_paths (dir_job_seqs f t spelled real))
              (filter (fun p => visible (sf_all f) p && numbered p)
                      (map (fun n => path_clean (dir_prefix spelled ++ n)) (non_dirs ents))) /\
  exists files,
    dir_job_seqs (with_singles f) t spelled real = dir_job_seqs f t spelled real ++ files /\
    flat_map q_paths files =
      filter (fun p => visible (sf_all f) p && negb (numbered p))
             (map (fun n => path_clean (dir_prefix spelled ++ n)) (non_dirs ents)).
Proof.
  intros Hs.
  destruct (no_single_is_filter paths (file_opts (with_singles f)) joined_nodup joined_name_ok)
    as (fseqs & files & Hr1 & Hr0 & Hp & Hf).
  { rewrite file_opts_single. reflexivity. }
  rewrite file_opts_hidden in Hp, Hf. cbn [with_singles sf_all] in Hp, Hf.
  rewrite <- (file_opts_without_single f Hs) in Hr0.
  unfold paths in Hp, Hf. rewrite map_map in Hp, Hf.
  assert (E0 : dir_job_seqs f t spelled real = fseqs).
  { unfold dir_job_seqs. fold ents. rewrite scan_is_list_api, Hr0. reflexivity. }
  split; [|split].
  - rewrite E0, scan_is_list_api. exact Hr0.
  - rewrite E0. exact Hp.
  - exists files. split; [|exact Hf]. rewrite E0.
    unfold dir_job_seqs. fold ents.
    rewrite (on_disk_is_in_list spelled ents (file_opts (with_singles f))) by assumption.
    fold paths. rewrite Hr1. reflexivity.
Qed.
End ByComposition.

(** the two theorems, closed *)
Theorem dir_job_covers_directory : forall f t spelled real,
  sf_seqs f = false ->
  Forall (fun e => entry_name_ok (fst e)) (entries t real) ->
  Forall (fun e => ~ In c_bslash (fst e)) (entries t real) ->
  (forall n, ~ In (n, KLinkDangling) (entries t real)) ->
  ~ In c_bslash (path_clean spelled) ->
  path_clean spelled <> [c_dot] ->
  NoDup (non_dirs (entries t real)) ->
  Forall (fun n => name_ok (dir_prefix spelled ++ n)) (non_dirs (entries t real)) ->
  find_on_disk spelled (Some (entries t real)) (file_opts f) None = Ok (dir_job_seqs f t spelled real) /\
  Permutation (flat_map q_paths (dir_job_seqs f t spelled real))
              (filter (visible (sf_all f))
                      (map (fun n => path_clean (dir_prefix spelled ++ n)) (non_dirs (entries t real)))).
Proof. intros. apply dir_job_covers_directory_sec; assumption. Qed.

Theorem dir_job_covers_numbered : forall f t spelled real,
  sf_seqs f = true ->
  Forall (fun e => entry_name_ok (fst e)) (entries t real) ->
  Forall (fun e => ~ In c_bslash (fst e)) (entries t real) ->
  (forall n, ~ In (n, KLinkDangling) (entries t real)) ->
  ~ In c_bslash (path_clean spelled) ->
  path_clean spelled <> [c_dot] ->
  NoDup (non_dirs (entries t real)) ->
  Forall (fun n => name_ok (dir_prefix spelled ++ n)) (non_dirs (entries t real)) ->
  find_on_disk spelled (Some (entries t real)) (file_opts f) None = Ok (dir_job_seqs f t spelled real) /\
  Permutation (flat_map q_paths (dir_job_seqs f t spelled real))
              (filter (fun p => visible (sf_all f) p && numbered p)
                      (map (fun n => path_clean (dir_prefix spelled ++ n)) (non_dirs (entries t real)))) /\
  exists files,
    dir_job_seqs (with_singles f) t spelled real = dir_job_seqs f t spelled real ++ files /\
    flat_map q_paths files =
      filter (fun p => visible (sf_all f) p && negb (numbered p))
             (map (fun n => path_clean (dir_prefix spelled ++ n)) (non_dirs (entries t real))).
Proof. intros. apply dir_job_covers_numbered_sec; assumption. Qed.

(* ------------------------------------------------------------------ *)
(** * one job, from the item-level theorems: every directory, "." included *)

(** the exact cover of [find_items] on any list of well-formed items ([find_in_list_decomp]
    without the detour through [item_of_path]) *)
Theorem find_items_cover : forall items opts,
  Forall (fun it => exists d x, item_ok d x it) items -> NoDup (map ipath items) ->
  let o := parse_opts opts (mkLO false false default_style) in
  exists fseqs singles,
    find_items items opts None = Ok (if o_single o then fseqs ++ singles else fseqs) /\
    Permutation (flat_map q_paths fseqs) (map ipath (filter (is_frame o) items)) /\
    (o_single o = true -> flat_map q_paths singles = map ipath (filter (is_single o) items)).
Proof.
  intros items opts HI HN o.
  destruct (collect_spec o items [] [] HI (Forall_nil _) HN) as (seqs & singles & Hcol & Hbk & Hperm & H1 & _).
  destruct (emit_all_spec o seqs Hbk) as (fseqs & Hemit & Hpf).
  cbn [app] in Hcol. exists fseqs, singles. split; [|split].
  - unfold find_items. fold o. rewrite Hcol. cbn [bind]. rewrite Hemit. reflexivity.
  - eapply Permutation_trans; [exact Hpf|]. exact Hperm.
  - intros Hs. rewrite flat_map_concat_map, (H1 Hs). apply concat_singletons.
Qed.

(** classification of an item whose directory holds no stray backslash, on its path *)
Lemma item_class : forall o d it, item_ok d [] it ->
  ipath it = d ++ fi_name it /\
  ivisible o it = visible (o_hidden o) (ipath it) /\
  is_frame o it = visible (o_hidden o) (ipath it) && numbered (ipath it) /\
  is_single o it = visible (o_hidden o) (ipath it) && negb (numbered (ipath it)).
Proof.
  intros o d it IO.
  assert (Ep : ipath it = d ++ fi_name it).
  { unfold ipath. f_equal. rewrite (io_dir _ _ _ IO). apply real_dir_eq; [exact (io_dok _ _ _ IO)|exact (io_x _ _ _ IO)]. }
  assert (Es : snd (path_split (ipath it)) = fi_name it).
  { rewrite Ep, (path_split_dir_base d (fi_name it) (io_dok _ _ _ IO) (io_n47 _ _ _ IO)). reflexivity. }
  split; [exact Ep|].
  destruct (classify_cases o d [] it IO) as (b & tx & e & Ho & _ & _ & _ & Hc).
  unfold is_frame, is_single, numbered. rewrite Hc, Es, Ho.
  unfold ivisible, visible. rewrite Es.
  destruct (o_hidden o || negb (has_prefix (fi_name it) [c_dot])); cbn [negb andb].
  - split; [reflexivity|]. destruct tx as [|c0 t']; [split; reflexivity|]. destruct b, e; split; reflexivity.
  - repeat split; reflexivity.
Qed.

Lemma dir_prefix_dir_ok : forall path, ~ In c_bslash (path_clean path) -> dir_ok (dir_prefix path) = true.
Proof.
  intros path Hb. destruct (dir_prefix_ends path Hb) as [d ->].
  unfold dir_ok. rewrite rev_app_distr. reflexivity.
Qed.

Lemma not_In_no_byte : forall c (s : bytes), ~ In c s -> no_byte c s = true.
Proof.
  intros c s H. unfold no_byte. apply negb_true_iff.
  destruct (existsb (Nat.eqb c) s) eqn:E; [|reflexivity].
  apply existsb_exists in E. destruct E as (x & Hx & Hcx). apply Nat.eqb_eq in Hcx. subst x. contradiction.
Qed.

(** the item the scan builds for the entry [n] of the directory spelled [path] *)
Lemma scan_item_ok : forall path n,
  ~ In c_bslash (path_clean path) -> ~ In c_slash n -> name_ok (dir_prefix path ++ n) ->
  item_ok (dir_prefix path) [] (mkItem (dir_prefix path) n).
Proof.
  intros path n Hb Hn (Hby & Hnl & Htk & Hfr).
  pose proof (dir_prefix_dir_ok path Hb) as Hd.
  pose proof (not_In_no_byte c_slash n Hn) as Hn47.
  constructor; cbn [fi_dir fi_name app].
  - rewrite app_nil_r. reflexivity.
  - exact Hd.
  - left. reflexivity.
  - exact Hn47.
  - apply is_bytes_app in Hby. apply Hby.
  - exact Hnl.
  - exact Htk.
  - intros b fr e Ho Hne. apply (Hfr b fr e); [|exact Hne].
    rewrite (path_split_dir_base _ _ Hd Hn47). exact Ho.
Qed.

Section AnyDirectory.
Variables (f : sflags) (t : tree) (spelled real : bytes).
Let ents := entries t real.
Let names := non_dirs ents.
Let items := map (mkItem (dir_prefix spelled)) names.

Hypothesis Hdang  : forall n, ~ In (n, KLinkDangling) ents.
Hypothesis Hsp    : ~ In c_bslash (path_clean spelled).
Hypothesis Hslash : Forall (fun n => ~ In c_slash n) names.
Hypothesis Hnd    : NoDup names.
Hypothesis Hok    : Forall (fun n => name_ok (dir_prefix spelled ++ n)) names.

Lemma scan_items_ok : Forall (fun it => item_ok (dir_prefix spelled) [] it) items.
Proof.
  unfold items. apply Forall_map. apply Forall_forall. intros n Hn.
  rewrite Forall_forall in Hslash, Hok. apply scan_item_ok; auto.
Qed.

Lemma scan_items_paths : forall (g : fitem -> bool) (g' : bytes -> bool),
  (forall it, In it items -> g it = g' (ipath it)) ->
  map ipath (filter g items) = filter g' (map (fun n => dir_prefix spelled ++ n) names).
Proof.
  intros g g' E. pose proof scan_items_ok as HI. unfold items in *. clear Hnd Hok Hslash.
  induction names as [|n l IH]; [reflexivity|]. cbn [map filter].
  assert (IO : item_ok (dir_prefix spelled) [] (mkItem (dir_prefix spelled) n)).
  { inversion HI; assumption. }
  assert (Ep : ipath (mkItem (dir_prefix spelled) n) = dir_prefix spelled ++ n).
  { destruct (item_class (mkLO false false default_style) _ _ IO) as [Ep _]. exact Ep. }
  rewrite (E _ (or_introl eq_refl)), Ep.
  assert (IH' : map ipath (filter g (map (mkItem (dir_prefix spelled)) l)) =
                filter g' (map (fun n0 => dir_prefix spelled ++ n0) l)).
  { apply IH; [intros it Hit; apply E; right; exact Hit | inversion HI; assumption]. }
  destruct (g' (dir_prefix spelled ++ n)); cbn [map]; rewrite ?Ep, IH'; reflexivity.
Qed.

Lemma scan_items_nodup : NoDup (map ipath items).
Proof.
  assert (E : map ipath items = map (fun n => dir_prefix spelled ++ n) names).
  { unfold items. rewrite map_map. apply map_ext_in. intros n Hn.
    rewrite Forall_forall in Hslash, Hok.
    destruct (item_class (mkLO false false default_style) _ _
                (scan_item_ok spelled n Hsp (Hslash n Hn) (Hok n Hn))) as [Ep _]. exact Ep. }
  rewrite E. apply NoDup_map_prefix. exact Hnd.
Qed.

Let o := parse_opts (file_opts f) (mkLO false false default_style).

Lemma o_hidden_flags : o_hidden o = sf_all f.
Proof. unfold o. rewrite parse_opts_hidden, file_opts_hidden. reflexivity. Qed.

Lemma o_single_flags : o_single o = negb (sf_seqs f).
Proof. unfold o. rewrite parse_opts_single, file_opts_single. reflexivity. Qed.

(** both halves of what the job reports, for either setting of [-s] *)
Theorem dir_job_halves_sec :
  exists fseqs singles,
    find_on_disk spelled (Some ents) (file_opts f) None = Ok (if sf_seqs f then fseqs else fseqs ++ singles) /\
    Permutation (flat_map q_paths fseqs)
                (filter (fun p => visible (sf_all f) p && numbered p)
                        (map (fun n => dir_prefix spelled ++ n) names)) /\
    (sf_seqs f = false ->
     flat_map q_paths singles =
       filter (fun p => visible (sf_all f) p && negb (numbered p))
              (map (fun n => dir_prefix spelled ++ n) names)).
Proof.
  pose proof scan_items_ok as HI.
  assert (HI' : Forall (fun it => exists d x, item_ok d x it) items).
  { eapply Forall_impl; [|exact HI]. intros it IO. exists (dir_prefix spelled), []. exact IO. }
  destruct (find_items_cover items (file_opts f) HI' scan_items_nodup) as (fseqs & singles & Hr & Hp & H1).
  fold o in Hr, Hp, H1. rewrite o_single_flags in Hr, H1.
  assert (C : forall it, In it items -> _) by
    (intros it Hit; rewrite Forall_forall in HI; exact (item_class o _ it (HI it Hit))).
  rewrite o_hidden_flags in C.
  exists fseqs, singles. split; [|split].
  - rewrite (on_disk_is_find_items spelled ents (file_opts f) None Hdang). fold names. fold items.
    rewrite Hr. destruct (sf_seqs f); reflexivity.
  - eapply Permutation_trans; [exact Hp|]. apply Permutation_refl'.
    apply scan_items_paths. intros it Hit. destruct (C it Hit) as (_ & _ & B & _). exact B.
  - intros Hs. rewrite H1 by (rewrite Hs; reflexivity).
    apply scan_items_paths. intros it Hit. destruct (C it Hit) as (_ & _ & _ & B). exact B.
Qed.
End AnyDirectory.

Lemma filter_visible_split : forall hidden (l : list bytes),
  Permutation (filter (visible hidden) l)
              (filter (fun p => visible hidden p && numbered p) l ++
               filter (fun p => visible hidden p && negb (numbered p)) l).
Proof.
  intros hidden l. apply filter_split_perm. intros p _.
  destruct (visible hidden p), (numbered p); split; reflexivity.
Qed.

(** without [-s], any directory (the root "." included): the printed sequences expand to
    exactly the visible non-directory entries, as the scan spells them *)
Theorem dir_job_covers_any : forall f t spelled real,
  sf_seqs f = false ->
  (forall n, ~ In (n, KLinkDangling) (entries t real)) ->
  ~ In c_bslash (path_clean spelled) ->
  Forall (fun n => ~ In c_slash n) (non_dirs (entries t real)) ->
  NoDup (non_dirs (entries t real)) ->
  Forall (fun n => name_ok (dir_prefix spelled ++ n)) (non_dirs (entries t real)) ->
  find_on_disk spelled (Some (entries t real)) (file_opts f) None = Ok (dir_job_seqs f t spelled real) /\
  Permutation (flat_map q_paths (dir_job_seqs f t spelled real)) (dir_files (sf_all f) t spelled real).
Proof.
  intros f t spelled real Hs Hdang Hsp Hslash Hnd Hok.
  destruct (dir_job_halves_sec f t spelled real Hdang Hsp Hslash Hnd Hok) as (fseqs & singles & Hr & Hp & H1).
  rewrite Hs in Hr. unfold dir_job_seqs. rewrite Hr. split; [reflexivity|].
  rewrite flat_map_app, (H1 Hs). unfold dir_files.
  eapply Permutation_trans; [apply Permutation_app_tail; exact Hp|].
  apply Permutation_sym. apply filter_visible_split.
Qed.

(** with [-s], any directory: the members of numbered sequences only; the sequences are the
    ones printed without [-s], which adds the single files after them *)
Theorem dir_job_numbered_any : forall f t spelled real,
  sf_seqs f = true ->
  (forall n, ~ In (n, KLinkDangling) (entries t real)) ->
  ~ In c_bslash (path_clean spelled) ->
  Forall (fun n => ~ In c_slash n) (non_dirs (entries t real)) ->
  NoDup (non_dirs (entries t real)) ->
  Forall (fun n => name_ok (dir_prefix spelled ++ n)) (non_dirs (entries t real)) ->
  find_on_disk spelled (Some (entries t real)) (file_opts f) None = Ok (dir_job_seqs f t spelled real) /\
  Permutation (flat_map q_paths (dir_job_seqs f t spelled real))
              (filter (fun p => visible (sf_all f) p && numbered p)
                      (map (fun n => dir_prefix spelled ++ n) (non_dirs (entries t real)))).
Proof.
  intros f t spelled real Hs Hdang Hsp Hslash Hnd Hok.
  destruct (dir_job_halves_sec f t spelled real Hdang Hsp Hslash Hnd Hok) as (fseqs & singles & Hr & Hp & _).
  rewrite Hs in Hr. unfold dir_job_seqs. rewrite Hr. split; [reflexivity|exact Hp].
Qed.

(** for a directory that does not clean to "." the two forms say the same thing *)
Lemma dir_files_clean : forall hidden t spelled real,
  Forall (fun e => entry_name_ok (fst e)) (entries t real) ->
  ~ In c_bslash (path_clean spelled) -> path_clean spelled <> [c_dot] ->
  dir_files hidden t spelled real =
  filter (visible hidden) (map (fun n => path_clean (dir_prefix spelled ++ n)) (non_dirs (entries t real))).
Proof.
  intros hidden t spelled real Hn Hb Hd. unfold dir_files. f_equal. symmetry.
  rewrite <- map_map. apply joined_is_clean; assumption.
Qed.

(* ------------------------------------------------------------------ *)
(** * the whole tree *)

(** what is asked of one listed directory: [real] listed under the spelling [spelled] *)
Record dir_names_ok (t : tree) (spelled real : bytes) : Prop := mkDN {
  dn_dangling : forall n, ~ In (n, KLinkDangling) (entries t real);
  dn_spelled  : ~ In c_bslash (path_clean spelled);
  dn_slash    : Forall (fun n => ~ In c_slash n) (non_dirs (entries t real));
  dn_nodup    : NoDup (non_dirs (entries t real));
  dn_names    : Forall (fun n => name_ok (dir_prefix spelled ++ n)) (non_dirs (entries t real)) }.

(** ... of every directory the walk reaches from the root *)
Definition tree_names_ok (all : bool) (t : tree) (root real : bytes) : Prop :=
  forall s r, reach t all root real s r -> dir_names_ok t s r.

(** The capstone.  On a well-formed tree without links, from a root that is not skipped,
    without [-s]:
    - the jobs are exactly the directories reachable from the root through entries that are
      not skipped, each real directory once, spelled as the root re-rooted (C17);
    - every job's scan succeeds, and its sequences expand to exactly the visible
      non-directory entries of its directory (C06, C05);
    - hence the sequences of all jobs together expand to exactly the visible non-directory
      entries of exactly the reachable directories: each (directory, entry) once, nothing else. *)
Theorem seqls_recursive_cover : forall f t root real,
  wf_tree t -> no_links t -> ~ (sf_all f = false /\ hidden_dir root = true) ->
  sf_seqs f = false ->
  tree_names_ok (sf_all f) t root real ->
  let jobs := fst (walk_root t (sf_all f) root real []) in
  NoDup (map snd jobs) /\
  (forall s r, In (s, r) jobs <-> reach t (sf_all f) root real s r) /\
  (forall s r, In (s, r) jobs -> s = spelled_of root real r) /\
  (forall s r, In (s, r) jobs ->
     find_on_disk s (Some (entries t r)) (file_opts f) None = Ok (dir_job_seqs f t s r) /\
     Permutation (flat_map q_paths (dir_job_seqs f t s r)) (dir_files (sf_all f) t s r)) /\
  Permutation
    (flat_map (fun sr => flat_map q_paths (dir_job_seqs f t (fst sr) (snd sr))) jobs)
    (flat_map (fun sr => filter (visible (sf_all f))
                           (map (fun n => dir_prefix (fst sr) ++ n) (non_dirs (entries t (snd sr))))) jobs).
Proof.
  intros f t root real Hwf Hnl Hroot Hs Hok jobs.
  destruct (walk_visits_exactly t (sf_all f) root real [] Hwf Hnl Hroot) as (Hnd & Hchar & _ & Hsp & _).
  fold jobs in Hnd, Hchar, Hsp.
  assert (Hjob : forall s r, In (s, r) jobs ->
            find_on_disk s (Some (entries t r)) (file_opts f) None = Ok (dir_job_seqs f t s r) /\
            Permutation (flat_map q_paths (dir_job_seqs f t s r)) (dir_files (sf_all f) t s r)).
  { intros s r Hin. destruct (Hok s r (proj1 (Hchar s r) Hin)) as [H1 H2 H3 H4 H5].
    apply dir_job_covers_any; assumption. }
  split; [exact Hnd|]. split; [exact Hchar|]. split; [exact Hsp|]. split; [exact Hjob|].
  apply Permutation_flat_map_pointwise. intros [s r] Hin. cbn [fst snd].
  exact (proj2 (Hjob s r Hin)).
Qed.

(** the same with [-s]: the members of numbered sequences only *)
Theorem seqls_recursive_cover_numbered : forall f t root real,
  wf_tree t -> no_links t -> ~ (sf_all f = false /\ hidden_dir root = true) ->
  sf_seqs f = true ->
  tree_names_ok (sf_all f) t root real ->
  let jobs := fst (walk_root t (sf_all f) root real []) in
  (forall s r, In (s, r) jobs ->
     find_on_disk s (Some (entries t r)) (file_opts f) None = Ok (dir_job_seqs f t s r)) /\
  Permutation
    (flat_map (fun sr => flat_map q_paths (dir_job_seqs f t (fst sr) (snd sr))) jobs)
    (flat_map (fun sr => filter (fun p => visible (sf_all f) p && numbered p)
                           (map (fun n => dir_prefix (fst sr) ++ n) (non_dirs (entries t (snd sr))))) jobs).
Proof.
  intros f t root real Hwf Hnl Hroot Hs Hok jobs.
  destruct (walk_visits_exactly t (sf_all f) root real [] Hwf Hnl Hroot) as (_ & Hchar & _).
  fold jobs in Hchar.
  assert (Hjob : forall s r, In (s, r) jobs -> _ /\ _) by
    (intros s r Hin; destruct (Hok s r (proj1 (Hchar s r) Hin)) as [H1 H2 H3 H4 H5];
     apply (dir_job_numbered_any f t s r); assumption).
  split; [intros s r Hin; exact (proj1 (Hjob s r Hin))|].
  apply Permutation_flat_map_pointwise. intros [s r] Hin. cbn [fst snd].
  exact (proj2 (Hjob s r Hin)).
Qed.

(** the form with [path_clean], for trees in which no listed directory cleans to "."
    (any root other than ".", "", "./", "x/.." ...) and entry names are the ones Readdir reports *)
Corollary seqls_recursive_cover_clean : forall f t root real,
  wf_tree t -> no_links t -> ~ (sf_all f = false /\ hidden_dir root = true) ->
  sf_seqs f = false ->
  tree_names_ok (sf_all f) t root real ->
  (forall s r, reach t (sf_all f) root real s r ->
     path_clean s <> [c_dot] /\ Forall (fun e => entry_name_ok (fst e)) (entries t r)) ->
  let jobs := fst (walk_root t (sf_all f) root real []) in
  Permutation
    (flat_map (fun sr => flat_map q_paths (dir_job_seqs f t (fst sr) (snd sr))) jobs)
    (flat_map (fun sr => filter (visible (sf_all f))
                           (map (fun n => path_clean (dir_prefix (fst sr) ++ n)) (non_dirs (entries t (snd sr))))) jobs).
Proof.
  intros f t root real Hwf Hnl Hroot Hs Hok Hcl jobs.
  destruct (seqls_recursive_cover f t root real Hwf Hnl Hroot Hs Hok) as (_ & Hchar & _ & Hjob & _).
  fold jobs in Hchar, Hjob.
  apply Permutation_flat_map_pointwise. intros [s r] Hin. cbn [fst snd].
  destruct (Hcl s r (proj1 (Hchar s r) Hin)) as [Hd Hn].
  rewrite <- (dir_files_clean (sf_all f) t s r Hn (dn_spelled _ _ _ (Hok s r (proj1 (Hchar s r) Hin))) Hd).
  exact (proj2 (Hjob s r Hin)).
Qed.

(** no path is reported by two jobs (nor twice by one), provided distinct directories are
    spelled distinctly once cleaned - which is what tells "exactly one job" apart from a
    mere equality of multisets *)
Lemma NoDup_flat_map : forall (A B : Type) (g : A -> list B) (l : list A),
  NoDup l -> (forall x, In x l -> NoDup (g x)) ->
  (forall x y z, In x l -> In y l -> In z (g x) -> In z (g y) -> x = y) ->
  NoDup (flat_map g l).
Proof.
  intros A B g l Hl. induction Hl as [|a l Hin Hnd IH]; intros Hg Hd; [constructor|].
  cbn [flat_map]. apply NoDup_app_intro.
  - apply Hg. left. reflexivity.
  - apply IH.
    + intros x Hx. apply Hg. right. exact Hx.
    + intros x y z Hx Hy. apply Hd; right; assumption.
  - intros z Hz Hz'. apply in_flat_map in Hz'. destruct Hz' as (y & Hy & Hzy).
    assert (E : a = y) by (apply (Hd a y z); [left; reflexivity|right; exact Hy|exact Hz|exact Hzy]).
    subst y. exact (Hin Hy).
Qed.

Theorem seqls_recursive_cover_nodup : forall f t root real,
  wf_tree t -> no_links t -> ~ (sf_all f = false /\ hidden_dir root = true) ->
  tree_names_ok (sf_all f) t root real ->
  (forall s1 r1 s2 r2, reach t (sf_all f) root real s1 r1 -> reach t (sf_all f) root real s2 r2 ->
     dir_prefix s1 = dir_prefix s2 -> r1 = r2) ->
  let jobs := fst (walk_root t (sf_all f) root real []) in
  NoDup (flat_map (fun sr => dir_files (sf_all f) t (fst sr) (snd sr)) jobs).
Proof.
  intros f t root real Hwf Hnl Hroot Hok Hinj jobs.
  destruct (walk_visits_exactly t (sf_all f) root real [] Hwf Hnl Hroot) as (Hnd & Hchar & _ & Hsp & _).
  fold jobs in Hnd, Hchar, Hsp.
  apply NoDup_flat_map.
  - exact (NoDup_map_inv _ _ Hnd).
  - intros [s r] Hin. cbn [fst snd]. unfold dir_files. apply NoDup_filter. apply NoDup_map_prefix.
    exact (dn_nodup _ _ _ (Hok s r (proj1 (Hchar s r) Hin))).
  - intros [s1 r1] [s2 r2] z H1 H2 Hz1 Hz2. cbn [fst snd] in Hz1, Hz2.
    pose proof (Hok s1 r1 (proj1 (Hchar _ _) H1)) as O1.
    pose proof (Hok s2 r2 (proj1 (Hchar _ _) H2)) as O2.
    unfold dir_files in Hz1, Hz2. apply filter_In in Hz1, Hz2.
    destruct Hz1 as [Hz1 _]. destruct Hz2 as [Hz2 _].
    apply in_map_iff in Hz1, Hz2. destruct Hz1 as (n1 & E1 & Hn1). destruct Hz2 as (n2 & E2 & Hn2).
    pose proof (dn_slash _ _ _ O1) as S1. pose proof (dn_slash _ _ _ O2) as S2.
    rewrite Forall_forall in S1, S2.
    pose proof (path_split_dir_base _ _ (dir_prefix_dir_ok s1 (dn_spelled _ _ _ O1))
                  (not_In_no_byte c_slash n1 (S1 n1 Hn1))) as P1.
    pose proof (path_split_dir_base _ _ (dir_prefix_dir_ok s2 (dn_spelled _ _ _ O2))
                  (not_In_no_byte c_slash n2 (S2 n2 Hn2))) as P2.
    rewrite E1 in P1. rewrite E2 in P2. rewrite P1 in P2. injection P2 as Ed _.
    assert (Er : r1 = r2) by (apply (Hinj s1 r1 s2 r2); [apply Hchar; exact H1|apply Hchar; exact H2|exact Ed]).
    subst r2. rewrite (Hsp s1 r1 H1), (Hsp s2 r1 H2). reflexivity.
Qed.

(* ------------------------------------------------------------------ *)
(** * the printed lines *)

(** [seqls_lines] without [-a]bsolute: the pattern jobs' lines, then the strings of the
    directory jobs' sequences *)
Theorem seqls_lines_are_the_jobs_lines : forall f cwd t args,
  sf_abs f = false ->
  let args' := match args with [] => [[c_dot]] | _ => args end in
  seqls_lines f cwd t args =
    flat_map (pattern_job_lines f t) (fst (jobs_of f t args')) ++
    flat_map (fun sr => map q_string (dir_job_seqs f t (fst sr) (snd sr))) (snd (jobs_of f t args')).
Proof.
  intros f cwd t args Ha args'. unfold seqls_lines. rewrite Ha. subst args'.
  destruct args as [|a0 args0]; cbv iota;
    match goal with |- context [jobs_of f t ?x] => destruct (jobs_of f t x) as [pats dirs] end; cbn [fst snd];
    (f_equal; apply flat_map_ext; intros [s r]; apply dir_job_lines_are_strings).
Qed.

(** one argument that is a directory, [-r]: the jobs are the walk from it *)
Lemma jobs_of_one_directory : forall f t a s r,
  sf_recurse f = true -> classify_arg t (path_clean a) = ADir s r ->
  jobs_of f t [a] = ([], fst (walk_root t (sf_all f) s r [])).
Proof.
  intros f t a s r Hr Hc. unfold jobs_of. cbn [map dedup_bytes existsb flat_map app].
  rewrite Hc, Hr. cbn [flat_map app fold_left fst snd].
  destruct (walk_root t (sf_all f) s r []) as [j c]. reflexivity.
Qed.

(** directory arguments only: no pattern job *)
Lemma jobs_of_directories_only : forall f t args,
  (forall c, In c (dedup_bytes (map path_clean args) []) -> exists s r, classify_arg t c = ADir s r) ->
  fst (jobs_of f t args) = [].
Proof.
  intros f t args H. unfold jobs_of.
  assert (E : flat_map (fun k => match k with APattern p => [p] | _ => [] end)
                (map (classify_arg t) (dedup_bytes (map path_clean args) [])) = []).
  { induction (dedup_bytes (map path_clean args) []) as [|c l IH]; [reflexivity|].
    cbn [map flat_map]. destruct (H c (or_introl eq_refl)) as (s & r & ->). cbn [app].
    apply IH. intros c' Hc'. apply H. right. exact Hc'. }
  destruct (sf_recurse f); cbn [fst]; exact E.
Qed.

(** end to end for [seqls -r dir]: the printed lines are the strings of sequences that
    expand to exactly the visible files of exactly the reachable directories *)
Theorem seqls_r_end_to_end : forall f cwd t a root real,
  sf_recurse f = true -> sf_seqs f = false -> sf_abs f = false ->
  classify_arg t (path_clean a) = ADir root real ->
  wf_tree t -> no_links t -> ~ (sf_all f = false /\ hidden_dir root = true) ->
  tree_names_ok (sf_all f) t root real ->
  let jobs := fst (walk_root t (sf_all f) root real []) in
  let seqs := flat_map (fun sr => dir_job_seqs f t (fst sr) (snd sr)) jobs in
  seqls_lines f cwd t [a] = map q_string seqs /\
  NoDup (map snd jobs) /\
  (forall s r, In (s, r) jobs <-> reach t (sf_all f) root real s r) /\
  Permutation (flat_map q_paths seqs)
              (flat_map (fun sr => dir_files (sf_all f) t (fst sr) (snd sr)) jobs).
Proof.
  intros f cwd t a root real Hr Hs Ha Hc Hwf Hnl Hroot Hok jobs seqs.
  destruct (seqls_recursive_cover f t root real Hwf Hnl Hroot Hs Hok) as (Hnd & Hchar & _ & _ & Hp).
  fold jobs in Hnd, Hchar, Hp.
  split; [|split; [exact Hnd|split; [exact Hchar|]]].
  - rewrite (seqls_lines_are_the_jobs_lines f cwd t [a] Ha).
    rewrite (jobs_of_one_directory f t a root real Hr Hc). cbn [fst snd flat_map app]. fold jobs.
    unfold seqs. clear. induction jobs as [|sr l IH]; [reflexivity|].
    cbn [flat_map]. rewrite map_app, IH. reflexivity.
  - unfold seqs. rewrite flat_map_flat_map. exact Hp.
Qed.

(* ------------------------------------------------------------------ *)
(** * non-vacuity: a concrete tree meets every hypothesis *)

Module CoverExample.
Import WalkExamples.

(** [seqls -r .] in a directory holding a sequence, a single file and a hidden file, a
    sub-directory [a] (a two-frame sequence and a single file) and a hidden sub-directory [.h] *)
Definition ex_tree : tree :=
  [D "." "a"; D "." ".h";
   F "." "foo.0001.exr"; F "." "foo.0002.exr"; F "." "foo.0003.exr"; F "." "notes.txt"; F "." ".hidden";
   F "a" "bar.1.exr"; F "a" "bar.2.exr"; F "a" "readme";
   F ".h" "x.txt"].
Definition ex_flags : sflags := mkSF true false false false false.      (* -r *)
Definition ex_root : bytes := s2b ".".

Lemma ex_wf : wf_tree ex_tree.
Proof.
  split.
  - apply no_dot_acyclic. intros n Hn K. unfold ex_tree in Hn. cbn [In] in Hn.
    repeat (destruct Hn as [<-|Hn]; [try discriminate; vm_compute; discriminate|]). contradiction.
  - unfold dirs_unique. apply nodupb_NoDup. vm_compute. reflexivity.
Qed.

Lemma ex_no_links : no_links ex_tree.
Proof.
  intros n Hn. unfold ex_tree in Hn. cbn [In] in Hn.
  repeat (destruct Hn as [<-|Hn]; [discriminate|]). contradiction.
Qed.

Lemma ex_root_listed : ~ (sf_all ex_flags = false /\ hidden_dir ex_root = true).
Proof. intros [_ H]. vm_compute in H. discriminate. Qed.

Example ex_jobs :
  fst (walk_root ex_tree (sf_all ex_flags) ex_root ex_root []) = [P "." "."; P "./a" "a"].
Proof. vm_compute. reflexivity. Qed.

Ltac ex_name_ok v :=
  eapply (name_ok_example _ _ _ _ v); try (vm_compute; reflexivity);
  [ apply is_bytes_b; vm_compute; reflexivity
  | intros ds; vm_compute; discriminate
  | first [ left; reflexivity | right; split; [vm_compute; reflexivity | unfold small; lia] ] ].

Lemma ex_names_ok : tree_names_ok (sf_all ex_flags) ex_tree ex_root ex_root.
Proof.
  intros s r Hreach.
  destruct (walk_visits_exactly ex_tree (sf_all ex_flags) ex_root ex_root [] ex_wf ex_no_links ex_root_listed)
    as (_ & Hchar & _).
  apply Hchar in Hreach. rewrite ex_jobs in Hreach. cbn [In] in Hreach.
  destruct Hreach as [E|[E|[]]]; injection E as <- <-.
  - assert (En : non_dirs (entries ex_tree (s2b ".")) =
                 [s2b "foo.0001.exr"; s2b "foo.0002.exr"; s2b "foo.0003.exr"; s2b "notes.txt"; s2b ".hidden"])
      by (vm_compute; reflexivity).
    constructor; rewrite ?En.
    + intros n Hn. vm_compute in Hn. repeat (destruct Hn as [Hn|Hn]; [discriminate|]). contradiction.
    + vm_compute. intros H. repeat (destruct H as [H|H]; [discriminate|]). contradiction.
    + repeat apply Forall_cons; try apply Forall_nil; apply no_byte_In; vm_compute; reflexivity.
    + apply nodupb_NoDup. vm_compute. reflexivity.
    + repeat apply Forall_cons; try apply Forall_nil.
      * ex_name_ok 1%Z.
      * ex_name_ok 2%Z.
      * ex_name_ok 3%Z.
      * ex_name_ok 0%Z.
      * ex_name_ok 0%Z.
  - assert (En : non_dirs (entries ex_tree (s2b "a")) = [s2b "bar.1.exr"; s2b "bar.2.exr"; s2b "readme"])
      by (vm_compute; reflexivity).
    constructor; rewrite ?En.
    + intros n Hn. vm_compute in Hn. repeat (destruct Hn as [Hn|Hn]; [discriminate|]). contradiction.
    + vm_compute. intros H. repeat (destruct H as [H|H]; [discriminate|]). contradiction.
    + repeat apply Forall_cons; try apply Forall_nil; apply no_byte_In; vm_compute; reflexivity.
    + apply nodupb_NoDup. vm_compute. reflexivity.
    + repeat apply Forall_cons; try apply Forall_nil.
      * ex_name_ok 1%Z.
      * ex_name_ok 2%Z.
      * ex_name_ok 0%Z.
Qed.

(** the argument "." is a directory of the tree *)
Example ex_arg : classify_arg ex_tree (path_clean (s2b ".")) = ADir ex_root ex_root.
Proof. vm_compute. reflexivity. Qed.

(** what the theorem then says of this tree, computed: the lines, and both sides of the cover *)
Example ex_lines :
  seqls_lines ex_flags (s2b "/w") ex_tree [s2b "."] =
  [s2b "./foo.1-3#.exr"; s2b "./notes.txt"; s2b "a/bar.1,2@.exr"; s2b "a/readme"].
Proof. vm_compute. reflexivity. Qed.

Example ex_expanded :
  let jobs := fst (walk_root ex_tree (sf_all ex_flags) ex_root ex_root []) in
  flat_map (fun sr => flat_map q_paths (dir_job_seqs ex_flags ex_tree (fst sr) (snd sr))) jobs =
    [s2b "./foo.0001.exr"; s2b "./foo.0002.exr"; s2b "./foo.0003.exr"; s2b "./notes.txt";
     s2b "a/bar.1.exr"; s2b "a/bar.2.exr"; s2b "a/readme"] /\
  flat_map (fun sr => dir_files (sf_all ex_flags) ex_tree (fst sr) (snd sr)) jobs =
    [s2b "./foo.0001.exr"; s2b "./foo.0002.exr"; s2b "./foo.0003.exr"; s2b "./notes.txt";
     s2b "a/bar.1.exr"; s2b "a/bar.2.exr"; s2b "a/readme"].
Proof. vm_compute. split; reflexivity. Qed.

(** the end-to-end theorem instantiated: no hypothesis left *)
Example ex_end_to_end :
  let jobs := fst (walk_root ex_tree (sf_all ex_flags) ex_root ex_root []) in
  let seqs := flat_map (fun sr => dir_job_seqs ex_flags ex_tree (fst sr) (snd sr)) jobs in
  seqls_lines ex_flags (s2b "/w") ex_tree [s2b "."] = map q_string seqs /\
  NoDup (map snd jobs) /\
  (forall s r, In (s, r) jobs <-> reach ex_tree (sf_all ex_flags) ex_root ex_root s r) /\
  Permutation (flat_map q_paths seqs)
              (flat_map (fun sr => dir_files (sf_all ex_flags) ex_tree (fst sr) (snd sr)) jobs).
Proof.
  exact (seqls_r_end_to_end ex_flags (s2b "/w") ex_tree (s2b ".") ex_root ex_root
           eq_refl eq_refl eq_refl ex_arg ex_wf ex_no_links ex_root_listed ex_names_ok).
Qed.

Lemma ex_spelled_distinct : forall s1 r1 s2 r2,
  reach ex_tree (sf_all ex_flags) ex_root ex_root s1 r1 ->
  reach ex_tree (sf_all ex_flags) ex_root ex_root s2 r2 ->
  dir_prefix s1 = dir_prefix s2 -> r1 = r2.
Proof.
  intros s1 r1 s2 r2 H1 H2 E.
  destruct (walk_visits_exactly ex_tree (sf_all ex_flags) ex_root ex_root [] ex_wf ex_no_links ex_root_listed)
    as (_ & Hchar & _).
  apply Hchar in H1, H2. rewrite ex_jobs in H1, H2. cbn [In] in H1, H2.
  destruct H1 as [X|[X|[]]]; injection X as <- <-;
    destruct H2 as [Y|[Y|[]]]; injection Y as <- <-;
    try reflexivity; vm_compute in E; discriminate.
Qed.

Example ex_no_path_twice :
  NoDup (flat_map (fun sr => dir_files (sf_all ex_flags) ex_tree (fst sr) (snd sr))
                  (fst (walk_root ex_tree (sf_all ex_flags) ex_root ex_root []))).
Proof.
  exact (seqls_recursive_cover_nodup ex_flags ex_tree ex_root ex_root
           ex_wf ex_no_links ex_root_listed ex_names_ok ex_spelled_distinct).
Qed.
End CoverExample.

Print Assumptions dir_job_lines_are_strings.
Print Assumptions dir_job_covers_directory.
Print Assumptions dir_job_covers_numbered.
Print Assumptions dir_job_covers_any.
Print Assumptions dir_job_numbered_any.
Print Assumptions seqls_recursive_cover.
Print Assumptions seqls_recursive_cover_numbered.
Print Assumptions seqls_recursive_cover_clean.
Print Assumptions seqls_recursive_cover_nodup.
Print Assumptions seqls_lines_are_the_jobs_lines.
Print Assumptions seqls_r_end_to_end.
Print Assumptions CoverExample.ex_end_to_end.
