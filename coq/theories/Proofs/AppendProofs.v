(** AppendUnique and the expansion of frame-range components.

    [append_unique bl a b s] adds, after the blocks of [bl], exactly the
    values of [walk a b |s|] that are new, in walk order, and keeps the block
    list well formed.  On top of that: histories of appends, the three
    modifiers of [handle_match] against [SpecRange.expand], and the
    well-formedness of every frame set the model builds. *)
From GFS Require Import Base Dec Ranges FrameSet SpecRanges SpecRange RangeBasics.
Local Open Scope Z_scope.

(** * [dedup_first] *)

Lemma existsb_eqb_In : forall x l, existsb (Z.eqb x) l = true <-> In x l.
Proof.
  intros x l. rewrite existsb_exists. split.
  - intros [y [H1 H2]]. apply Z.eqb_eq in H2. subst y. exact H1.
  - intros H. exists x. split; [exact H | apply Z.eqb_refl].
Qed.

Lemma existsb_eqb_not_In : forall x l, existsb (Z.eqb x) l = false <-> ~ In x l.
Proof.
  intros x l. rewrite <- existsb_eqb_In.
  destruct (existsb (Z.eqb x) l); split; intros H; try reflexivity; try discriminate.
  - exfalso. apply H. reflexivity.
Qed.

Lemma existsb_ext_mem : forall x s1 s2,
  (forall v, In v s1 <-> In v s2) ->
  existsb (Z.eqb x) s1 = existsb (Z.eqb x) s2.
Proof.
  intros x s1 s2 H.
  destruct (existsb (Z.eqb x) s1) eqn:E1; destruct (existsb (Z.eqb x) s2) eqn:E2; try reflexivity.
  - apply existsb_eqb_In in E1. apply H in E1. apply existsb_eqb_In in E1. congruence.
  - apply existsb_eqb_In in E2. apply H in E2. apply existsb_eqb_In in E2. congruence.
Qed.

(** the [seen] argument matters only through its members *)
Lemma dedup_first_ext : forall l s1 s2,
  (forall v, In v s1 <-> In v s2) -> dedup_first l s1 = dedup_first l s2.
Proof.
  induction l as [|a l IH]; intros s1 s2 H; simpl.
  - reflexivity.
  - rewrite (existsb_ext_mem a s1 s2 H).
    destruct (existsb (Z.eqb a) s2).
    + apply IH. exact H.
    + f_equal. apply IH. intros v. simpl. rewrite (H v). tauto.
Qed.

Lemma dedup_first_In : forall l seen v,
  In v (dedup_first l seen) <-> In v l /\ ~ In v seen.
Proof.
  induction l as [|a l IH]; intros seen v; simpl.
  - tauto.
  - destruct (existsb (Z.eqb a) seen) eqn:E.
    + apply existsb_eqb_In in E. rewrite IH. split.
      * tauto.
      * intros [[H|H] H2].
        -- subst a. contradiction.
        -- tauto.
    + apply existsb_eqb_not_In in E. simpl. rewrite IH. simpl. split.
      * intros [H1|[H1 H2]].
        -- subst a. tauto.
        -- tauto.
      * intros [[H1|H1] H2].
        -- tauto.
        -- destruct (Z.eq_dec a v) as [Heq|Hne]; [tauto|]. right. tauto.
Qed.

Lemma dedup_first_app : forall l1 l2 seen,
  dedup_first (l1 ++ l2) seen = dedup_first l1 seen ++ dedup_first l2 (l1 ++ seen).
Proof.
  induction l1 as [|a l1 IH]; intros l2 seen; simpl.
  - reflexivity.
  - destruct (existsb (Z.eqb a) seen) eqn:E.
    + rewrite IH. f_equal. apply dedup_first_ext. intros v. simpl.
      rewrite !in_app_iff. apply existsb_eqb_In in E. split.
      * tauto.
      * intros [H|[H|H]]; [subst a; tauto | tauto | tauto].
    + simpl. rewrite IH. f_equal. f_equal. apply dedup_first_ext. intros v. simpl.
      rewrite !in_app_iff. simpl. tauto.
Qed.

Lemma dedup_first_NoDup_id : forall l seen,
  NoDup l -> (forall v, In v l -> ~ In v seen) -> dedup_first l seen = l.
Proof.
  induction l as [|a l IH]; intros seen Hnd Hdis; simpl.
  - reflexivity.
  - inversion Hnd as [|x l' Hnotin Hnd']; subst.
    destruct (existsb (Z.eqb a) seen) eqn:E.
    + apply existsb_eqb_In in E. exfalso. apply (Hdis a); [left; reflexivity | exact E].
    + f_equal. apply IH.
      * exact Hnd'.
      * intros v Hv [Hs|Hs].
        -- subst v. contradiction.
        -- apply (Hdis v); [right; exact Hv | exact Hs].
Qed.

Lemma dedup_first_NoDup : forall l seen, NoDup (dedup_first l seen).
Proof.
  induction l as [|a l IH]; intros seen; simpl.
  - constructor.
  - destruct (existsb (Z.eqb a) seen).
    + apply IH.
    + constructor.
      * rewrite dedup_first_In. simpl. tauto.
      * apply IH.
Qed.

(** two successive "append what is new" steps are one step on the
    concatenation *)
Lemma dedup_chain : forall e e1 e2 l1 l2 : list Z,
  e1 = e ++ dedup_first l1 e ->
  e2 = e1 ++ dedup_first l2 e1 ->
  e2 = e ++ dedup_first (l1 ++ l2) e.
Proof.
  intros e e1 e2 l1 l2 H1 H2. subst e1. subst e2.
  rewrite dedup_first_app. rewrite <- app_assoc. f_equal. f_equal.
  apply dedup_first_ext. intros v. rewrite !in_app_iff. rewrite dedup_first_In.
  destruct (in_dec Z.eq_dec v e) as [Hin|Hnin]; tauto.
Qed.

Lemma NoDup_app_intro : forall (l1 l2 : list Z),
  NoDup l1 -> NoDup l2 -> (forall v, In v l2 -> ~ In v l1) -> NoDup (l1 ++ l2).
Proof.
  induction l1 as [|a l1 IH]; intros l2 H1 H2 Hdis; simpl.
  - exact H2.
  - inversion H1 as [|x l' Hnotin Hnd']; subst. constructor.
    + rewrite in_app_iff. intros [H|H].
      * contradiction.
      * apply (Hdis a H). left. reflexivity.
    + apply IH; [exact Hnd' | exact H2 |].
      intros v Hv Hin. apply (Hdis v Hv). right. exact Hin.
Qed.

(** * Arithmetic runs [s, s+d, ..., s+(n-1)d] *)

Definition run (s d : Z) (n : nat) : list Z :=
  map (fun i => s + d * Z.of_nat i) (seq 0 n).

Lemma run_In : forall s d n v,
  In v (run s d n) <-> exists i, (i < n)%nat /\ v = s + d * Z.of_nat i.
Proof.
  intros s d n v. unfold run. rewrite in_map_iff. split.
  - intros [i [H1 H2]]. apply in_seq in H2. exists i. split; [lia | congruence].
  - intros [i [H1 H2]]. exists i. split; [congruence | apply in_seq; lia].
Qed.

Lemma run_snoc : forall s d n, run s d (S n) = run s d n ++ [s + d * Z.of_nat n].
Proof.
  intros s d n. unfold run. rewrite seq_S. rewrite map_app. reflexivity.
Qed.

Lemma run_cons : forall s d n, run s d (S n) = s :: run (s + d) d n.
Proof.
  intros s d n. unfold run. simpl seq. simpl map. f_equal.
  - lia.
  - rewrite <- seq_shift. rewrite map_map. apply map_ext. intros i. lia.
Qed.

Lemma run_NoDup : forall n s d, d <> 0 -> NoDup (run s d n).
Proof.
  induction n as [|n IH]; intros s d Hd.
  - constructor.
  - rewrite run_cons. constructor.
    + rewrite run_In. intros [i [H1 H2]]. nia.
    + apply IH. exact Hd.
Qed.

(** the block [new_range s (s + d*j) d] enumerates the run of [j+1] values *)
Lemma enum_new_range_run : forall s d j, d <> 0 ->
  enum (new_range s (s + d * Z.of_nat j) d) = run s d (S j).
Proof.
  intros s d j Hd. unfold new_range.
  destruct (Z.eqb_spec d 0) as [H0|H0]; [contradiction|].
  unfold enum, enum_count, run. simpl r_start. simpl r_end. simpl r_step.
  replace (s + d * Z.of_nat j - s) with (Z.of_nat j * d) by ring.
  rewrite Z.abs_mul. rewrite (Z.abs_eq (Z.of_nat j)) by lia.
  rewrite Z.div_mul by lia.
  replace (Z.to_nat (Z.of_nat j + 1)) with (S j) by lia.
  reflexivity.
Qed.

Lemma wf_new_range_run : forall s d j, d <> 0 ->
  wf (new_range s (s + d * Z.of_nat j) d).
Proof.
  intros s d j Hd. unfold new_range.
  destruct (Z.eqb_spec d 0) as [H0|H0]; [contradiction|].
  unfold wf. simpl.
  destruct j as [|j].
  - right. right. simpl. lia.
  - assert (Hj : 0 < Z.of_nat (S j)) by lia.
    destruct (Z_lt_ge_dec 0 d) as [Hp|Hn].
    + left. split; [nia | lia].
    + right. left. split; [nia | lia].
Qed.

Lemma enum_all_app1 : forall bl r, enum_all (bl ++ [r]) = enum_all bl ++ enum r.
Proof.
  intros bl r. unfold enum_all. rewrite flat_map_app. simpl. rewrite app_nil_r. reflexivity.
Qed.

Lemma WF_nil : WF [].
Proof. split; [constructor | simpl; constructor]. Qed.

(** appending a run of new values as one block *)
Lemma WF_append_run : forall bl s d j, d <> 0 -> WF bl ->
  (forall v, In v (run s d (S j)) -> ~ In v (enum_all bl)) ->
  WF (rs_append bl s (s + d * Z.of_nat j) d) /\
  enum_all (rs_append bl s (s + d * Z.of_nat j) d) = enum_all bl ++ run s d (S j).
Proof.
  intros bl s d j Hd [Hwf Hnd] Hdis. unfold rs_append.
  assert (He : enum_all (bl ++ [new_range s (s + d * Z.of_nat j) d]) = enum_all bl ++ run s d (S j)).
  { rewrite enum_all_app1. rewrite enum_new_range_run by exact Hd. reflexivity. }
  split; [|exact He]. split.
  - apply Forall_app. split; [exact Hwf|]. constructor; [|constructor].
    apply wf_new_range_run. exact Hd.
  - rewrite He. apply NoDup_app_intro.
    + exact Hnd.
    + apply run_NoDup. exact Hd.
    + exact Hdis.
Qed.

(** * [walk] as a run *)

Lemma walk_run : forall a b k,
  walk a b k = run a (if a <=? b then k else - k) (Z.to_nat (Z.abs (b - a) / k + 1)).
Proof.
  intros a b k. unfold walk, run. apply map_ext. intros i.
  destruct (a <=? b); lia.
Qed.

Lemma walk_NoDup : forall a b k, 0 < k -> NoDup (walk a b k).
Proof.
  intros a b k Hk. rewrite walk_run. apply run_NoDup. destruct (a <=? b); lia.
Qed.

Lemma walk_same : forall a k, 0 < k -> walk a a k = [a].
Proof.
  intros a k Hk. unfold walk. replace (a - a) with 0 by lia. simpl Z.abs.
  rewrite Z.div_0_l by lia. simpl. rewrite Z.leb_refl. f_equal. lia.
Qed.

(** [walk] is the enumeration of the block [new_range] builds (also for a = b) *)
Lemma walk_enum : forall a b k, 0 < k ->
  walk a b k = enum (new_range a b (if a <=? b then k else - k)).
Proof.
  intros a b k Hk. rewrite walk_run. unfold new_range.
  set (d := if a <=? b then k else - k).
  assert (Hd : d <> 0) by (unfold d; destruct (a <=? b); lia).
  assert (Ha : Z.abs d = k) by (unfold d; destruct (a <=? b); lia).
  destruct (Z.eqb_spec d 0) as [H0|H0]; [contradiction|].
  unfold enum, enum_count, run. simpl r_start. simpl r_end. simpl r_step.
  rewrite Ha. reflexivity.
Qed.

(** * The loop of AppendUnique *)

Lemma au_loop_O : forall step subEnd subStart last pending bl,
  au_loop O step subEnd subStart last pending bl =
  if pending then rs_append bl subStart last step else bl.
Proof. reflexivity. Qed.

Lemma au_loop_S : forall n step subEnd subStart last pending bl,
  au_loop (S n) step subEnd subStart last pending bl =
  if negb (rs_contains bl subEnd) then
    au_loop n step (subEnd + step) (if pending then subStart else subEnd) subEnd true bl
  else if negb pending then
    au_loop n step (subEnd + step) subStart last false bl
  else
    au_loop n step (subEnd + step) (subEnd + step) last false
            (rs_append bl subStart last step).
Proof. reflexivity. Qed.

(** The invariant.  [c] is the next candidate, [n] candidates remain.  When
    [pending], the values [subStart, ..., last] (a run of [j+1] values ending
    just before [c]) have been found new but are not yet stored.  The result
    stores them, then whatever is new among the remaining candidates. *)
Lemma au_loop_spec : forall n d c subStart last pending bl (j : nat),
  d <> 0 -> WF bl ->
  (pending = true ->
     last = subStart + d * Z.of_nat j /\ c = last + d /\
     (forall v, In v (run subStart d (S j)) -> ~ In v (enum_all bl))) ->
  WF (au_loop n d c subStart last pending bl) /\
  enum_all (au_loop n d c subStart last pending bl) =
    (enum_all bl ++ (if pending then run subStart d (S j) else [])) ++
    dedup_first (run c d n) (enum_all bl ++ (if pending then run subStart d (S j) else [])).
Proof.
  induction n as [|n IH]; intros d c subStart last pending bl j Hd HWF Hp.
  - rewrite au_loop_O. change (run c d 0) with (@nil Z). simpl dedup_first.
    rewrite app_nil_r.
    destruct pending.
    + destruct (Hp eq_refl) as [Hlast [Hc Hdis]]. subst last.
      apply WF_append_run; assumption.
    + rewrite app_nil_r. split; [exact HWF | reflexivity].
  - rewrite au_loop_S. rewrite (run_cons c d n). cbn [dedup_first].
    destruct (rs_contains bl c) eqn:RC.
    + (* the candidate is already there *)
      assert (Hin : In c (enum_all bl)).
      { apply rs_contains_In; [exact (proj1 HWF) | exact RC]. }
      simpl negb. cbv iota.
      destruct pending.
      * simpl negb. cbv iota.
        destruct (Hp eq_refl) as [Hlast [Hc Hdis]]. subst last.
        destruct (WF_append_run bl subStart d j Hd HWF Hdis) as [HWF' He'].
        assert (Hex : existsb (Z.eqb c) (enum_all bl ++ run subStart d (S j)) = true).
        { apply existsb_eqb_In. apply in_app_iff. left. exact Hin. }
        rewrite Hex.
        specialize (IH d (c + d) (c + d) (subStart + d * Z.of_nat j) false
                       (rs_append bl subStart (subStart + d * Z.of_nat j) d) O Hd HWF').
        destruct IH as [IH1 IH2]; [intros Hf; discriminate Hf|].
        split; [exact IH1|]. rewrite IH2. rewrite He'. rewrite !app_nil_r. reflexivity.
      * simpl negb. cbv iota.
        assert (Hex : existsb (Z.eqb c) (enum_all bl ++ []) = true).
        { apply existsb_eqb_In. apply in_app_iff. left. exact Hin. }
        rewrite Hex.
        specialize (IH d (c + d) subStart last false bl O Hd HWF).
        destruct IH as [IH1 IH2]; [intros Hf; discriminate Hf|].
        split; [exact IH1 | exact IH2].
    + (* a new value *)
      assert (Hnin : ~ In c (enum_all bl)).
      { intros Hin. apply rs_contains_In in Hin; [congruence | exact (proj1 HWF)]. }
      simpl negb. cbv iota.
      destruct pending.
      * destruct (Hp eq_refl) as [Hlast [Hc Hdis]].
        assert (Hc' : c = subStart + d * Z.of_nat (S j)) by lia.
        assert (Hnr : ~ In c (run subStart d (S j))).
        { rewrite run_In. intros [i [Hi1 Hi2]]. nia. }
        assert (Hex : existsb (Z.eqb c) (enum_all bl ++ run subStart d (S j)) = false).
        { apply existsb_eqb_not_In. rewrite in_app_iff. tauto. }
        rewrite Hex.
        specialize (IH d (c + d) subStart c true bl (S j) Hd HWF).
        destruct IH as [IH1 IH2].
        { intros _. split; [exact Hc'|]. split; [reflexivity|].
          intros v Hv. rewrite run_snoc in Hv. apply in_app_iff in Hv.
          destruct Hv as [Hv|[Hv|[]]].
          - apply Hdis. exact Hv.
          - rewrite <- Hc' in Hv. subst v. exact Hnin. }
        split; [exact IH1|]. rewrite IH2.
        rewrite (run_snoc subStart d (S j)). rewrite <- Hc'.
        rewrite <- !app_assoc. f_equal. f_equal. cbn [app]. f_equal.
        apply dedup_first_ext. intros v. cbn [In]. rewrite !in_app_iff. cbn [In]. tauto.
      * assert (Hex : existsb (Z.eqb c) (enum_all bl ++ []) = false).
        { apply existsb_eqb_not_In. rewrite app_nil_r. exact Hnin. }
        rewrite Hex.
        specialize (IH d (c + d) c c true bl O Hd HWF).
        destruct IH as [IH1 IH2].
        { intros _. split; [simpl; lia|]. split; [reflexivity|].
          intros v Hv. rewrite run_cons in Hv. destruct Hv as [Hv|[]].
          subst v. exact Hnin. }
        split; [exact IH1|]. rewrite IH2.
        change (run c d 1) with [c + d * Z.of_nat 0]. replace (c + d * Z.of_nat 0) with c by (simpl; lia).
        rewrite !app_nil_r. rewrite <- app_assoc. f_equal. cbn [app]. f_equal.
        apply dedup_first_ext. intros v. cbn [In]. rewrite !in_app_iff. cbn [In]. tauto.
Qed.

(** * AppendUnique *)

Theorem append_unique_zero : forall bl a b, append_unique bl a b 0 = bl.
Proof. intros bl a b. reflexivity. Qed.

Theorem append_unique_spec : forall bl a b s, WF bl -> s <> 0 ->
  WF (append_unique bl a b s) /\
  enum_all (append_unique bl a b s) =
    enum_all bl ++ dedup_first (walk a b (Z.abs s)) (enum_all bl).
Proof.
  intros bl a b s HWF Hs. unfold append_unique.
  destruct (Z.eqb_spec s 0) as [H0|H0]; [contradiction|].
  set (d := if a <=? b then Z.abs s else - Z.abs s).
  assert (Hd : d <> 0) by (unfold d; destruct (a <=? b); lia).
  assert (Ha : Z.abs d = Z.abs s) by (unfold d; destruct (a <=? b); lia).
  assert (Hw : walk a b (Z.abs s) = run a d (au_count a b d)).
  { rewrite walk_run. unfold au_count. rewrite Ha. reflexivity. }
  destruct bl as [|b0 bl0].
  - unfold rs_append. simpl app. unfold new_range.
    destruct (Z.eqb_spec d 0) as [Hd0|Hd0]; [contradiction|].
    assert (He : enum_all [mkR a b d] = walk a b (Z.abs s)).
    { unfold enum_all. simpl flat_map. rewrite app_nil_r. rewrite Hw.
      unfold enum, enum_count, run, au_count. reflexivity. }
    assert (Hnd : NoDup (walk a b (Z.abs s))) by (apply walk_NoDup; lia).
    split.
    + split.
      * constructor; [|constructor]. unfold wf. simpl. unfold d.
        destruct (Z.leb_spec a b); lia.
      * rewrite He. exact Hnd.
    + rewrite He. simpl enum_all. simpl app.
      rewrite dedup_first_NoDup_id; [reflexivity | exact Hnd | intros v _ []].
  - pose proof (au_loop_spec (au_count a b d) d a a a false (b0 :: bl0) O Hd HWF) as H.
    destruct H as [H1 H2]; [intros Hf; discriminate Hf|].
    split; [exact H1|]. rewrite H2. rewrite !app_nil_r. rewrite Hw. reflexivity.
Qed.

Corollary append_unique_WF : forall bl a b s, WF bl -> WF (append_unique bl a b s).
Proof.
  intros bl a b s HWF. destruct (Z.eq_dec s 0) as [H0|H0].
  - subst s. rewrite append_unique_zero. exact HWF.
  - apply append_unique_spec; assumption.
Qed.

(** * Histories of appends *)

Definition hist_app (bl : iranges) (t : Z * Z * Z) : iranges :=
  let '(a, b, s) := t in append_unique bl a b s.
Definition hist_walk (t : Z * Z * Z) : list Z :=
  let '(a, b, s) := t in if s =? 0 then [] else walk a b (Z.abs s).

Lemma append_history_from : forall ops bl0, WF bl0 ->
  WF (fold_left hist_app ops bl0) /\
  enum_all (fold_left hist_app ops bl0) =
    enum_all bl0 ++ dedup_first (flat_map hist_walk ops) (enum_all bl0).
Proof.
  induction ops as [|t ops IH]; intros bl0 HWF.
  - simpl. rewrite app_nil_r. split; [exact HWF | reflexivity].
  - simpl fold_left. simpl flat_map.
    assert (Hstep : WF (hist_app bl0 t) /\
                    enum_all (hist_app bl0 t) =
                    enum_all bl0 ++ dedup_first (hist_walk t) (enum_all bl0)).
    { destruct t as [[a b] s]. unfold hist_app, hist_walk.
      destruct (Z.eqb_spec s 0) as [H0|H0].
      - subst s. rewrite append_unique_zero. simpl. rewrite app_nil_r.
        split; [exact HWF | reflexivity].
      - apply append_unique_spec; assumption. }
    destruct Hstep as [HWF1 He1].
    destruct (IH (hist_app bl0 t) HWF1) as [HWF2 He2].
    split; [exact HWF2|].
    apply (dedup_chain _ _ _ _ _ He1 He2).
Qed.

Theorem append_history_spec : forall ops : list (Z * Z * Z),
  let app bl (t : Z * Z * Z) := let '(a, b, s) := t in append_unique bl a b s in
  let bl := fold_left app ops [] in
  WF bl /\
  enum_all bl =
    dedup_first (flat_map (fun t : Z * Z * Z =>
                             let '(a, b, s) := t in
                             if s =? 0 then [] else walk a b (Z.abs s)) ops) [].
Proof.
  intros ops app bl.
  exact (append_history_from ops [] WF_nil).
Qed.

(** appending single values one by one *)
Definition app1 (bl : iranges) (v : Z) : iranges := append_unique bl v v 1.

Lemma fold_app1_spec : forall l bl, WF bl ->
  WF (fold_left app1 l bl) /\
  enum_all (fold_left app1 l bl) = enum_all bl ++ dedup_first l (enum_all bl).
Proof.
  induction l as [|v l IH]; intros bl HWF.
  - simpl. rewrite app_nil_r. split; [exact HWF | reflexivity].
  - simpl fold_left.
    assert (H1 : 1 <> 0) by lia.
    destruct (append_unique_spec bl v v 1 HWF H1) as [HWF1 He1].
    simpl Z.abs in He1. rewrite walk_same in He1 by lia.
    destruct (IH (app1 bl v) HWF1) as [HWF2 He2].
    split; [exact HWF2|].
    change (v :: l) with ([v] ++ l).
    apply (dedup_chain _ _ _ _ _ He1 He2).
Qed.

(** * The [y] modifier: [fill_loop] *)

Lemma fill_loop_filter : forall n i0 a inc k m bl (P : Z -> bool),
  (inc = 1 \/ inc = -1) -> 0 < k ->
  Z.of_nat i0 <= m * k < Z.of_nat i0 + k ->
  (forall i, (i0 <= i < i0 + n)%nat ->
             P (a + inc * Z.of_nat i) = negb (Z.of_nat i mod k =? 0)) ->
  fill_loop (map (fun i => a + inc * Z.of_nat i) (seq i0 n)) (a + m * k * inc) k inc bl =
  fold_left app1 (filter P (map (fun i => a + inc * Z.of_nat i) (seq i0 n))) bl.
Proof.
  induction n as [|n IH]; intros i0 a inc k m bl P Hinc Hk Hm HP.
  - reflexivity.
  - simpl seq. simpl map. simpl fill_loop. simpl filter.
    rewrite (HP i0) by lia.
    destruct (Z.eqb_spec (a + inc * Z.of_nat i0) (a + m * k * inc)) as [He|Hne].
    + assert (Hi : Z.of_nat i0 = m * k) by (destruct Hinc; subst inc; lia).
      rewrite Hi. rewrite Z.mod_mul by lia. simpl negb. cbv iota.
      replace (a + m * k * inc + k * inc) with (a + (m + 1) * k * inc) by ring.
      apply IH.
      * exact Hinc.
      * exact Hk.
      * replace ((m + 1) * k) with (m * k + k) by ring. lia.
      * intros i Hi'. apply HP. lia.
    + assert (Hi : Z.of_nat i0 <> m * k) by (destruct Hinc; subst inc; lia).
      assert (Hmod : Z.of_nat i0 mod k <> 0).
      { intros Hz. apply Z.mod_divide in Hz; [|lia]. destruct Hz as [q Hq].
        assert (q < m) by nia. assert (m < q + 1) by nia. lia. }
      destruct (Z.eqb_spec (Z.of_nat i0 mod k) 0) as [Hz|Hz]; [contradiction|].
      simpl negb. cbv iota. simpl fold_left.
      apply IH.
      * exact Hinc.
      * exact Hk.
      * lia.
      * intros i Hi'. apply HP. lia.
Qed.

(** membership in a walk of step [k], for a value of the unit walk *)
Lemma walk_member_mod : forall a b k i, 0 < k ->
  (i < Z.to_nat (Z.abs (b - a) + 1))%nat ->
  existsb (Z.eqb (a + (if a <=? b then 1 else -1) * Z.of_nat i)) (walk a b k) =
  (Z.of_nat i mod k =? 0).
Proof.
  intros a b k i Hk Hi. rewrite walk_run.
  set (inc := if a <=? b then 1 else -1).
  assert (Hinc : inc = 1 \/ inc = -1) by (unfold inc; destruct (a <=? b); lia).
  assert (Hd : (if a <=? b then k else - k) = inc * k) by (unfold inc; destruct (a <=? b); lia).
  rewrite Hd.
  destruct (Z.eqb_spec (Z.of_nat i mod k) 0) as [Hz|Hz].
  - apply existsb_eqb_In. apply run_In.
    apply Z.mod_divide in Hz; [|lia]. destruct Hz as [q Hq].
    assert (Hq0 : 0 <= q) by nia.
    exists (Z.to_nat q). split.
    + assert (Hqk : q <= Z.abs (b - a) / k).
      { apply Z.div_le_lower_bound; [lia|]. nia. }
      lia.
    + rewrite Z2Nat.id by lia. rewrite Hq. ring.
  - apply existsb_eqb_not_In. rewrite run_In. intros [m [Hm1 Hm2]].
    apply Hz.
    assert (Hi' : Z.of_nat i = Z.of_nat m * k).
    { destruct Hinc as [Hi1|Hi1]; rewrite Hi1 in Hm2; lia. }
    rewrite Hi'. apply Z.mod_mul. lia.
Qed.

Lemma walk_unit : forall a b,
  walk a b 1 = map (fun i => a + (if a <=? b then 1 else -1) * Z.of_nat i)
                   (seq 0 (Z.to_nat (Z.abs (b - a) + 1))).
Proof.
  intros a b. rewrite walk_run. unfold run. rewrite Z.div_1_r.
  apply map_ext. intros i. destruct (a <=? b); lia.
Qed.

Lemma fill_loop_spec : forall a b k bl, 0 < k -> WF bl ->
  let inc := if a >? b then -1 else 1 in
  WF (fill_loop (ir_iter (new_range a b inc)) a k inc bl) /\
  enum_all (fill_loop (ir_iter (new_range a b inc)) a k inc bl) =
    enum_all bl ++
    dedup_first (filter (fun v => negb (existsb (Z.eqb v) (walk a b k))) (walk a b 1))
                (enum_all bl).
Proof.
  intros a b k bl Hk HWF inc.
  assert (Hinc : inc = if a <=? b then 1 else -1).
  { unfold inc. destruct (Z.leb_spec a b); destruct (Z.gtb_spec a b); lia. }
  assert (Hinc' : inc = 1 \/ inc = -1) by (rewrite Hinc; destruct (a <=? b); lia).
  assert (Hwf : wf (new_range a b inc)).
  { unfold new_range. destruct (Z.eqb_spec inc 0) as [H0|H0]; [lia|].
    unfold wf. simpl. rewrite Hinc. destruct (Z.leb_spec a b); lia. }
  rewrite (ir_iter_enum _ Hwf).
  assert (Hen : enum (new_range a b inc) = walk a b 1).
  { rewrite (walk_enum a b 1) by lia. rewrite Hinc. reflexivity. }
  rewrite Hen. rewrite walk_unit. rewrite <- Hinc.
  set (P := fun v => negb (existsb (Z.eqb v) (walk a b k))).
  pose proof (fill_loop_filter (Z.to_nat (Z.abs (b - a) + 1)) O a inc k 0 bl P Hinc' Hk) as HF.
  replace (a + 0 * k * inc) with a in HF by ring.
  rewrite HF.
  - apply fold_app1_spec. exact HWF.
  - simpl. lia.
  - intros i Hi. unfold P. f_equal. rewrite Hinc. apply walk_member_mod; [exact Hk | lia].
Qed.

(** [fill_loop] keeps well-formedness whatever it is given *)
Lemma fill_loop_WF : forall vals skip chunk inc bl, WF bl ->
  WF (fill_loop vals skip chunk inc bl).
Proof.
  induction vals as [|v r IH]; intros skip chunk inc bl HWF; simpl.
  - exact HWF.
  - destruct (v =? skip).
    + apply IH. exact HWF.
    + apply IH. apply append_unique_WF. exact HWF.
Qed.

(** * The [:] modifier: [stagger_loop] *)

Lemma stagger_loop_S : forall n a b bl,
  stagger_loop (S n) a b bl = stagger_loop n a b (append_unique bl a b (Z.of_nat (S n))).
Proof. reflexivity. Qed.

Lemma flat_map_seq_shift : forall (f : nat -> list Z) n s,
  flat_map f (seq (S s) n) = flat_map (fun i => f (S i)) (seq s n).
Proof.
  induction n as [|n IH]; intros s.
  - reflexivity.
  - simpl. f_equal. apply IH.
Qed.

Lemma stagger_loop_spec : forall n a b bl, WF bl ->
  WF (stagger_loop n a b bl) /\
  enum_all (stagger_loop n a b bl) =
    enum_all bl ++
    dedup_first (flat_map (fun i => walk a b (Z.of_nat n - Z.of_nat i)) (seq 0 n)) (enum_all bl).
Proof.
  induction n as [|n IH]; intros a b bl HWF.
  - simpl. rewrite app_nil_r. split; [exact HWF | reflexivity].
  - rewrite stagger_loop_S.
    assert (Hn : Z.of_nat (S n) <> 0) by lia.
    destruct (append_unique_spec bl a b (Z.of_nat (S n)) HWF Hn) as [HWF1 He1].
    destruct (IH a b _ HWF1) as [HWF2 He2].
    split; [exact HWF2|].
    change (seq 0 (S n)) with (0%nat :: seq 1 n).
    cbn [flat_map]. rewrite flat_map_seq_shift.
    replace (Z.of_nat (S n) - Z.of_nat 0) with (Z.abs (Z.of_nat (S n))) by lia.
    rewrite (flat_map_ext (fun i => walk a b (Z.of_nat (S n) - Z.of_nat (S i)))
                          (fun i => walk a b (Z.of_nat n - Z.of_nat i))).
    + apply (dedup_chain _ _ _ _ _ He1 He2).
    + intros i. f_equal. lia.
Qed.

Lemma stagger_loop_WF : forall n a b bl, WF bl -> WF (stagger_loop n a b bl).
Proof. intros n a b bl HWF. apply stagger_loop_spec. exact HWF. Qed.

(** * [handle_match] *)

Definition texts_comp (mt : list bytes) : option comp :=
  match mt with
  | [a] => match atoi a with Some za => Some (CSingle za) | None => None end
  | [a; b] => match atoi a, atoi b with Some za, Some zb => Some (CRange za zb) | _, _ => None end
  | [a; b; [md]; n] => match atoi a, atoi b, atoi n with Some za, Some zb, Some zn => Some (CStep za zb md zn) | _, _, _ => None end
  | _ => None
  end.

Lemma parse_int_some : forall s z, atoi s = Some z -> parse_int s = Ok z.
Proof. intros s z H. unfold parse_int. rewrite H. reflexivity. Qed.

Lemma parse_int_none : forall s, atoi s = None -> parse_int s = Err E_INT.
Proof. intros s H. unfold parse_int. rewrite H. reflexivity. Qed.

Theorem handle_match_spec : forall bl mt c, WF bl -> texts_comp mt = Some c ->
  (match c with CStep _ _ md _ => md = 120%nat \/ md = 121%nat \/ md = 58%nat | _ => True end) ->
  if comp_nonzero c then
    exists bl', handle_match bl mt = Ok bl' /\ WF bl' /\
                enum_all bl' = enum_all bl ++ dedup_first (expand c) (enum_all bl)
  else exists e, handle_match bl mt = Err e.
Proof.
  intros bl mt c HWF Ht Hmd.
  destruct mt as [|ta [|tb [|tm [|tn [|tx tr]]]]]; unfold texts_comp in Ht; try discriminate Ht.
  - (* single frame *)
    destruct (atoi ta) as [za|] eqn:Ea; [|discriminate Ht].
    inversion Ht; subst c. cbn [comp_nonzero].
    unfold handle_match. rewrite (parse_int_some _ _ Ea). cbn [bind].
    assert (H1 : 1 <> 0) by lia.
    destruct (append_unique_spec bl za za 1 HWF H1) as [HW He].
    eexists. split; [reflexivity|]. split; [exact HW|].
    rewrite He. simpl Z.abs. rewrite walk_same by lia. reflexivity.
  - (* a-b *)
    destruct (atoi ta) as [za|] eqn:Ea; [|discriminate Ht].
    destruct (atoi tb) as [zb|] eqn:Eb; [|discriminate Ht].
    inversion Ht; subst c. cbn [comp_nonzero].
    unfold handle_match. rewrite (parse_int_some _ _ Ea). cbn [bind].
    rewrite (parse_int_some _ _ Eb). cbn [bind].
    set (st := if za >? zb then -1 else 1).
    assert (Hst : st <> 0) by (unfold st; destruct (za >? zb); lia).
    assert (Hab : Z.abs st = 1) by (unfold st; destruct (za >? zb); lia).
    destruct (append_unique_spec bl za zb st HWF Hst) as [HW He].
    eexists. split; [reflexivity|]. split; [exact HW|].
    rewrite He. rewrite Hab. reflexivity.
  - destruct tm as [|md [|md2 tm']]; discriminate Ht.
  - (* a-b<md>n *)
    destruct tm as [|md [|md2 tm']]; try discriminate Ht.
    destruct (atoi ta) as [za|] eqn:Ea; [|discriminate Ht].
    destruct (atoi tb) as [zb|] eqn:Eb; [|discriminate Ht].
    destruct (atoi tn) as [zn|] eqn:En; [|discriminate Ht].
    inversion Ht; subst c. cbn [comp_nonzero].
    unfold handle_match. rewrite (parse_int_some _ _ En). cbn [bind].
    destruct (Z.eqb_spec zn 0) as [Hz|Hz].
    + simpl negb. cbv iota. eexists. reflexivity.
    + simpl negb. cbv iota.
      rewrite (parse_int_some _ _ Ea). cbn [bind].
      rewrite (parse_int_some _ _ Eb). cbn [bind].
      destruct Hmd as [Hm|[Hm|Hm]]; subst md.
      * (* x *)
        cbv iota.
        destruct (append_unique_spec bl za zb zn HWF Hz) as [HW He].
        eexists. split; [reflexivity|]. split; [exact HW|].
        rewrite He. reflexivity.
      * (* y *)
        cbv iota.
        assert (Hk : 0 < Z.abs zn) by lia.
        destruct (fill_loop_spec za zb (Z.abs zn) bl Hk HWF) as [HW He].
        eexists. split; [reflexivity|]. split; [exact HW|].
        rewrite He. reflexivity.
      * (* : *)
        cbv iota.
        destruct (stagger_loop_spec (Z.to_nat (Z.abs zn)) za zb bl HWF) as [HW He].
        eexists. split; [reflexivity|]. split; [exact HW|].
        rewrite He. unfold expand. simpl Nat.eqb. cbv iota.
        rewrite Z2Nat.id by lia. reflexivity.
  - destruct tm as [|md [|md2 tm']]; discriminate Ht.
Qed.

(** the modifier dispatch of [handle_match], by cases *)
Lemma md_match_ind : forall (A : Type) (P : A -> Prop) (md : bytes) (x y z e : A),
  P x -> P y -> P z -> P e ->
  P (match md with
     | [120%nat] => x
     | [121%nat] => y
     | [58%nat] => z
     | _ => e
     end).
Proof.
  intros A P md x y z e Hx Hy Hz He.
  destruct md as [|m r]; [exact He|].
  do 122 (destruct m as [|m]; [destruct r; assumption|]).
  destruct r; assumption.
Qed.

Lemma handle_match_WF : forall bl mt bl', WF bl -> handle_match bl mt = Ok bl' -> WF bl'.
Proof.
  intros bl mt bl' HWF H.
  destruct mt as [|ta [|tb [|tm [|tn [|tx tr]]]]]; unfold handle_match in H; try discriminate H.
  - destruct (parse_int ta) as [za| | |]; cbn [bind] in H; try discriminate H.
    inversion H. apply append_unique_WF. exact HWF.
  - destruct (parse_int ta) as [za| | |]; cbn [bind] in H; try discriminate H.
    destruct (parse_int tb) as [zb| | |]; cbn [bind] in H; try discriminate H.
    inversion H. apply append_unique_WF. exact HWF.
  - destruct (parse_int tn) as [zn| | |]; cbn [bind] in H; try discriminate H.
    destruct (zn =? 0); [discriminate H|].
    destruct (parse_int ta) as [za| | |]; cbn [bind] in H; try discriminate H.
    destruct (parse_int tb) as [zb| | |]; cbn [bind] in H; try discriminate H.
    revert H.
    apply (md_match_ind (outcome iranges) (fun o => o = Ok bl' -> WF bl')).
    + intros H. inversion H. apply append_unique_WF. exact HWF.
    + intros H. inversion H. apply fill_loop_WF. exact HWF.
    + intros H. inversion H. apply stagger_loop_WF. exact HWF.
    + intros H. discriminate H.
Qed.

(** every text list without a component reading is an error *)
Theorem handle_match_err : forall bl mt, texts_comp mt = None ->
  exists e, handle_match bl mt = Err e.
Proof.
  intros bl mt Ht.
  destruct mt as [|ta [|tb [|tm [|tn [|tx tr]]]]]; unfold texts_comp in Ht; unfold handle_match.
  - eexists. reflexivity.
  - destruct (atoi ta) as [za|] eqn:Ea; [discriminate Ht|].
    rewrite (parse_int_none _ Ea). eexists. reflexivity.
  - destruct (atoi ta) as [za|] eqn:Ea.
    + destruct (atoi tb) as [zb|] eqn:Eb; [discriminate Ht|].
      rewrite (parse_int_some _ _ Ea). rewrite (parse_int_none _ Eb). eexists. reflexivity.
    + rewrite (parse_int_none _ Ea). eexists. reflexivity.
  - eexists. reflexivity.
  - destruct (atoi tn) as [zn|] eqn:En.
    + rewrite (parse_int_some _ _ En). cbn [bind].
      destruct (zn =? 0); [eexists; reflexivity|].
      destruct (atoi ta) as [za|] eqn:Ea.
      * rewrite (parse_int_some _ _ Ea). cbn [bind].
        destruct (atoi tb) as [zb|] eqn:Eb.
        -- rewrite (parse_int_some _ _ Eb). cbn [bind].
           destruct tm as [|md [|md2 tm']].
           ++ eexists. reflexivity.
           ++ discriminate Ht.
           ++ do 122 (destruct md as [|md]; [eexists; reflexivity|]).
              eexists. reflexivity.
        -- rewrite (parse_int_none _ Eb). eexists. reflexivity.
      * rewrite (parse_int_none _ Ea). eexists. reflexivity.
    + rewrite (parse_int_none _ En). eexists. reflexivity.
  - eexists. reflexivity.
Qed.

(** * [handle_matches] and [new_frameset] *)

Theorem handle_matches_spec : forall ms cs bl, WF bl ->
  Forall2 (fun mt c => texts_comp mt = Some c /\ comp_nonzero c = true /\
                       match c with
                       | CStep _ _ md _ => md = 120%nat \/ md = 121%nat \/ md = 58%nat
                       | _ => True
                       end) ms cs ->
  exists bl', handle_matches bl ms = Ok bl' /\ WF bl' /\
              enum_all bl' = enum_all bl ++ dedup_first (flat_map expand cs) (enum_all bl).
Proof.
  intros ms cs bl HWF HF. revert bl HWF.
  induction HF as [|mt c ms cs [Ht [Hnz Hmd]] HF IH]; intros bl HWF.
  - exists bl. split; [reflexivity|]. split; [exact HWF|].
    simpl. rewrite app_nil_r. reflexivity.
  - pose proof (handle_match_spec bl mt c HWF Ht Hmd) as H1. rewrite Hnz in H1.
    destruct H1 as [bl1 [Hm1 [HWF1 He1]]].
    destruct (IH bl1 HWF1) as [bl2 [Hm2 [HWF2 He2]]].
    exists bl2. split.
    + cbn [handle_matches]. rewrite Hm1. cbn [bind]. exact Hm2.
    + split; [exact HWF2|]. cbn [flat_map].
      apply (dedup_chain _ _ _ _ _ He1 He2).
Qed.

Lemma handle_matches_WF : forall ms bl bl', WF bl -> handle_matches bl ms = Ok bl' -> WF bl'.
Proof.
  induction ms as [|mt ms IH]; intros bl bl' HWF H.
  - cbn [handle_matches] in H. inversion H. subst bl'. exact HWF.
  - cbn [handle_matches] in H.
    destruct (handle_match bl mt) as [bl1| | |] eqn:Hm; cbn [bind] in H; try discriminate H.
    apply (IH bl1 bl'); [|exact H].
    apply (handle_match_WF bl mt bl1 HWF Hm).
Qed.

(** every frame set the model builds has a well-formed block list *)
Theorem new_frameset_WF : forall s f, new_frameset s = Ok f -> WF (fs_blocks f).
Proof.
  intros s f H. unfold new_frameset in H.
  destruct (frame_range_matches s) as [ms| | |]; cbn [bind] in H; try discriminate H.
  destruct (handle_matches [] ms) as [bl| | |] eqn:Hm; cbn [bind] in H; try discriminate H.
  inversion H. simpl fs_blocks.
  apply (handle_matches_WF ms [] bl WF_nil Hm).
Qed.

(** the frames of an accepted frame set are listed without repetition *)
Corollary new_frameset_frames_NoDup : forall s f, new_frameset s = Ok f -> NoDup (fs_frames f).
Proof.
  intros s f H. destruct (new_frameset_WF s f H) as [Hwf Hnd].
  unfold fs_frames. rewrite (rs_iter_enum_all _ Hwf). exact Hnd.
Qed.
