From GFS Require Import Base Ranges SpecRanges.
(** Basic facts relating the executable range model (Model/Ranges.v) to the
    declarative vocabulary (Spec/SpecRanges.v).  Everything is proved; no
    axioms. *)
From Coq Require Import Lia ZArith List.
From Coq Require FinFun.
Local Open Scope Z_scope.

(** ** Arithmetic helpers *)

(** the number of steps that fit between start and end *)
Definition cnt (r : irange) : Z := Z.abs (r_end r - r_start r) / Z.abs (r_step r).

Lemma wf_step_nz : forall r, wf r -> r_step r <> 0.
Proof. intros [s e st]; unfold wf; cbn; lia. Qed.

Lemma cnt_nonneg : forall r, wf r -> 0 <= cnt r.
Proof.
  intros r H. pose proof (wf_step_nz r H). unfold cnt.
  apply Z.div_pos; lia.
Qed.

Lemma enum_count_cnt : forall r, wf r -> Z.of_nat (enum_count r) = cnt r + 1.
Proof.
  intros r H. pose proof (cnt_nonneg r H). unfold enum_count. fold (cnt r).
  rewrite Z2Nat.id; lia.
Qed.

Lemma cdiv_succ : forall d k, 0 <= d -> 0 < k -> cdiv (d + 1) k = d / k + 1.
Proof.
  intros d k Hd Hk. unfold cdiv.
  replace (d + 1 + k - 1) with (d + 1 * k) by lia.
  rewrite Z.div_add by lia. reflexivity.
Qed.

(** bounds that pin down [cnt] *)
Lemma cnt_pos_bounds : forall s e st, s <= e -> 0 < st ->
  let n := (e - s) / st in 0 <= n /\ s + st * n <= e < s + st * (n + 1).
Proof.
  intros s e st Hse Hst n. subst n.
  pose proof (Z.div_mod (e - s) st ltac:(lia)) as Hdm.
  pose proof (Z.mod_pos_bound (e - s) st Hst) as Hm.
  assert (0 <= (e - s) / st) by (apply Z.div_pos; lia).
  split; [assumption|]. nia.
Qed.

Lemma cnt_bounds_pos : forall r, wf r -> 0 < r_step r ->
  r_start r + r_step r * cnt r <= r_end r < r_start r + r_step r * (cnt r + 1).
Proof.
  intros [s e st] H Hst. unfold wf, cnt in *. cbn [r_start r_end r_step] in *.
  assert (Hse : s <= e) by lia.
  rewrite (Z.abs_eq (e - s)) by lia. rewrite (Z.abs_eq st) by lia.
  apply (cnt_pos_bounds s e st Hse Hst).
Qed.

Lemma cnt_bounds_neg : forall r, wf r -> r_step r < 0 ->
  r_start r + r_step r * (cnt r + 1) < r_end r <= r_start r + r_step r * cnt r.
Proof.
  intros [s e st] H Hst. unfold wf, cnt in *. cbn [r_start r_end r_step] in *.
  assert (Hse : e <= s) by lia.
  replace (Z.abs (e - s)) with (s - e) by lia.
  replace (Z.abs st) with (- st) by lia.
  pose proof (cnt_pos_bounds e s (- st) Hse ltac:(lia)) as [_ Hb].
  cbv zeta in Hb. nia.
Qed.

(** ** [ir_end] in closed form *)

Lemma ir_end_cnt : forall r, wf r -> ir_end r = r_start r + r_step r * cnt r.
Proof.
  intros r H.
  pose proof (cnt_nonneg r H) as Hn.
  destruct (Z.lt_trichotomy (r_step r) 0) as [Hst|[Hst|Hst]];
    [pose proof (cnt_bounds_neg r H Hst) as Hb
    |exfalso; apply (wf_step_nz r H Hst)
    |pose proof (cnt_bounds_pos r H ltac:(lia)) as Hb];
  revert Hn Hb; generalize (cnt r) as n; intros n Hn Hb;
  destruct r as [s e st]; unfold wf, ir_end, closest in *;
  cbn [r_start r_end r_step] in *.
  - (* negative step *)
    destruct (Z.eqb_spec st 1) as [E1|E1]; [lia|].
    destruct (Z.eqb_spec st (-1)) as [E2|E2]; cbn [orb].
    { subst st. lia. }
    destruct (Z.eqb_spec s e) as [E3|E3]; cbn [orb].
    { subst e. assert (n = 0) by nia. subst n. lia. }
    destruct (Z.ltb_spec e s) as [L1|L1]; [|lia].
    destruct (Z.ltb_spec st (e - s)) as [L2|L2]; cbn [andb].
    { assert (n = 0) by nia. subst n. lia. }
    destruct (Z.gtb_spec e s) as [L3|L3]; [lia|]. cbn [andb].
    destruct (Z.geb_spec e s) as [L4|L4]; [lia|].
    destruct (Z.gtb_spec e s) as [L5|L5]; [lia|].
    destruct (Z.ltb_spec e e) as [L6|L6]; [lia|].
    unfold go_div.
    assert (Hq : Z.quot (e - s) st = n).
    { rewrite <- (Z.opp_involutive (e - s)), <- (Z.opp_involutive st) at 1.
      rewrite Z.quot_opp_opp by lia.
      rewrite Z.quot_div_nonneg by lia.
      symmetry. apply (Z.div_unique_pos (- (e - s)) (- st) n (- (e - s) - (- st) * n)); nia. }
    rewrite Hq. lia.
  - (* positive step *)
    destruct (Z.eqb_spec st 1) as [E1|E1]; cbn [orb].
    { subst st. lia. }
    destruct (Z.eqb_spec st (-1)) as [E2|E2]; [lia|]. cbn [orb].
    destruct (Z.eqb_spec s e) as [E3|E3]; cbn [orb].
    { subst e. assert (n = 0) by nia. subst n. lia. }
    destruct (Z.ltb_spec e s) as [L1|L1]; [lia|]. cbn [andb].
    destruct (Z.gtb_spec e s) as [L3|L3]; [|lia].
    destruct (Z.gtb_spec st (e - s)) as [L2|L2]; cbn [andb].
    { assert (n = 0) by nia. subst n. lia. }
    destruct (Z.geb_spec e s) as [L4|L4]; [|lia].
    destruct (Z.ltb_spec e s) as [L5|L5]; [lia|].
    destruct (Z.gtb_spec e e) as [L6|L6]; [lia|].
    unfold go_div.
    assert (Hq : Z.quot (e - s) st = n).
    { rewrite Z.quot_div_nonneg by lia.
      symmetry. apply (Z.div_unique_pos (e - s) st n ((e - s) - st * n)); nia. }
    rewrite Hq. lia.
Qed.

(** ** Generic list helpers *)

Lemma map_seq_snoc : forall (f : nat -> Z) m,
  map f (seq 0 (S m)) = map f (seq 0 m) ++ [f m].
Proof. intros f m. rewrite seq_S, map_app. reflexivity. Qed.

Lemma nth_map_seq : forall (f : nat -> Z) m i d, (i < m)%nat ->
  nth i (map f (seq 0 m)) d = f i.
Proof.
  intros f m i d Hi.
  rewrite (nth_indep _ d (f 0%nat)) by (rewrite map_length, seq_length; exact Hi).
  rewrite map_nth, seq_nth by exact Hi. reflexivity.
Qed.

Theorem position_spec : forall v l,
  (In v l -> 0 <= position v l < Z.of_nat (List.length l) /\
             nth (Z.to_nat (position v l)) l 0 = v) /\
  (~ In v l -> position v l = -1).
Proof.
  intros v l. induction l as [|x l [IHin IHout]].
  - split; [intros []|reflexivity].
  - cbn [position]. destruct (Z.eqb_spec x v) as [E|E].
    + split.
      * intros _. cbn [List.length nth]. rewrite Nat2Z.inj_succ. cbn. split; [lia|exact E].
      * intros Hn. exfalso. apply Hn. left. exact E.
    + split.
      * intros [Hx|Hin]; [contradiction|].
        destruct (IHin Hin) as [Hr Hnth].
        destruct (Z.ltb_spec (position v l) 0) as [L|L]; [lia|].
        cbn [List.length]. rewrite Nat2Z.inj_succ. split; [lia|].
        replace (position v l + 1) with (Z.succ (position v l)) by lia.
        rewrite Z2Nat.inj_succ by lia. cbn [nth]. exact Hnth.
      * intros Hn. rewrite IHout by (intros Hin; apply Hn; right; exact Hin).
        reflexivity.
Qed.

Lemma position_In_nonneg : forall v l, In v l -> 0 <= position v l.
Proof. intros v l H. apply (proj1 (position_spec v l)) in H. lia. Qed.

Lemma position_notin : forall v l, ~ In v l -> position v l = -1.
Proof. intros v l. apply (proj2 (position_spec v l)). Qed.

Lemma position_nonneg_In : forall v l, 0 <= position v l -> In v l.
Proof.
  intros v l H. destruct (in_dec Z.eq_dec v l) as [Hin|Hn]; [exact Hin|].
  rewrite (position_notin v l Hn) in H. lia.
Qed.

Lemma position_NoDup_nth : forall l i, NoDup l -> (i < List.length l)%nat ->
  position (nth i l 0) l = Z.of_nat i.
Proof.
  intros l i Hnd Hi.
  assert (Hin : In (nth i l 0) l) by (apply nth_In; exact Hi).
  destruct (proj1 (position_spec _ _) Hin) as [Hr Hnth].
  assert (Z.to_nat (position (nth i l 0) l) = i).
  { apply (proj1 (NoDup_nth l 0) Hnd); [lia|exact Hi|exact Hnth]. }
  lia.
Qed.

Lemma position_app_in : forall v l1 l2, In v l1 ->
  position v (l1 ++ l2) = position v l1.
Proof.
  intros v l1 l2. induction l1 as [|x l1 IH]; [intros []|].
  intros Hin. cbn [app position]. destruct (Z.eqb_spec x v) as [E|E]; [reflexivity|].
  destruct Hin as [Hx|Hin]; [contradiction|]. rewrite (IH Hin). reflexivity.
Qed.

Lemma position_app_notin : forall v l1 l2, ~ In v l1 ->
  position v (l1 ++ l2) =
  if position v l2 <? 0 then -1 else position v l2 + Z.of_nat (List.length l1).
Proof.
  intros v l1 l2. induction l1 as [|x l1 IH]; intros Hn.
  - cbn [app List.length]. destruct (Z.ltb_spec (position v l2) 0) as [L|L].
    + destruct (in_dec Z.eq_dec v l2) as [Hin|Hn2].
      * pose proof (position_In_nonneg v l2 Hin). lia.
      * apply position_notin. exact Hn2.
    + cbn. lia.
  - cbn [app position]. destruct (Z.eqb_spec x v) as [E|E].
    { exfalso. apply Hn. left. exact E. }
    rewrite IH by (intros Hin; apply Hn; right; exact Hin).
    cbn [List.length]. rewrite Nat2Z.inj_succ.
    destruct (Z.ltb_spec (position v l2) 0) as [L|L]; cbn.
    + reflexivity.
    + destruct (Z.ltb_spec (position v l2 + Z.of_nat (List.length l1)) 0) as [L'|L']; lia.
Qed.

(** characterisation of the folds *)
Lemma lmin_char : forall l d m, (m = d \/ In m l) -> m <= d ->
  (forall x, In x l -> m <= x) -> lmin l d = m.
Proof.
  unfold lmin. induction l as [|x l IH]; intros d m Hm Hd Hall.
  - destruct Hm as [Hm|[]]. cbn. congruence.
  - cbn [fold_left]. apply IH.
    + destruct Hm as [Hm|[Hm|Hm]].
      * left. pose proof (Hall x (or_introl eq_refl)). lia.
      * left. lia.
      * right. exact Hm.
    + pose proof (Hall x (or_introl eq_refl)). lia.
    + intros y Hy. apply Hall. right. exact Hy.
Qed.

Lemma lmax_char : forall l d m, (m = d \/ In m l) -> d <= m ->
  (forall x, In x l -> x <= m) -> lmax l d = m.
Proof.
  unfold lmax. induction l as [|x l IH]; intros d m Hm Hd Hall.
  - destruct Hm as [Hm|[]]. cbn. congruence.
  - cbn [fold_left]. apply IH.
    + destruct Hm as [Hm|[Hm|Hm]].
      * left. pose proof (Hall x (or_introl eq_refl)). lia.
      * left. lia.
      * right. exact Hm.
    + pose proof (Hall x (or_introl eq_refl)). lia.
    + intros y Hy. apply Hall. right. exact Hy.
Qed.

Lemma lmax_is_max : forall l d,
  (lmax l d = d \/ In (lmax l d) l) /\ d <= lmax l d /\
  (forall x, In x l -> x <= lmax l d).
Proof.
  unfold lmax. induction l as [|x l IH]; intros d.
  - cbn. split; [left; reflexivity|]. split; [lia|intros x []].
  - cbn [fold_left]. destruct (IH (Z.max d x)) as [Hm [Hd Hall]].
    split; [|split].
    + destruct Hm as [Hm|Hm].
      * rewrite Hm. destruct (Z.max_spec d x) as [[_ E]|[_ E]]; rewrite E.
        { right. left. reflexivity. }
        { left. reflexivity. }
      * right. right. exact Hm.
    + lia.
    + intros y [Hy|Hy]; [subst y; lia|apply Hall; exact Hy].
Qed.

Lemma lmax_default : forall l d d', In d l -> In d' l -> lmax l d = lmax l d'.
Proof.
  intros l d d' Hd Hd'. symmetry.
  destruct (lmax_is_max l d) as [Hm [Hle Hall]].
  apply lmax_char.
  - right. destruct Hm as [Hm|Hm]; [rewrite Hm; exact Hd|exact Hm].
  - apply Hall. exact Hd'.
  - exact Hall.
Qed.

(** ** Single range *)

Theorem ir_len_count : forall r, wf r -> ir_len r = Z.of_nat (enum_count r).
Proof.
  intros r H. rewrite (enum_count_cnt r H). pose proof (wf_step_nz r H).
  unfold ir_len, cnt. apply cdiv_succ; lia.
Qed.

Theorem enum_length : forall r, List.length (enum r) = enum_count r.
Proof. intros r. unfold enum. rewrite map_length, seq_length. reflexivity. Qed.

Theorem enum_count_pos : forall r, wf r -> (0 < enum_count r)%nat.
Proof.
  intros r H. pose proof (enum_count_cnt r H). pose proof (cnt_nonneg r H). lia.
Qed.

Lemma enum_count_S : forall r, wf r -> enum_count r = S (Z.to_nat (cnt r)).
Proof.
  intros r H. pose proof (enum_count_cnt r H). pose proof (cnt_nonneg r H). lia.
Qed.

Lemma enum_snoc : forall r, wf r -> exists l, enum r = l ++ [ir_end r].
Proof.
  intros r H. unfold enum. rewrite (enum_count_S r H), map_seq_snoc.
  eexists. f_equal. rewrite (ir_end_cnt r H), Z2Nat.id by (apply cnt_nonneg; exact H).
  reflexivity.
Qed.

Lemma enum_cons : forall r, wf r -> exists l, enum r = r_start r :: l.
Proof.
  intros r H. unfold enum. rewrite (enum_count_S r H). cbn [seq map].
  eexists. f_equal. cbn. lia.
Qed.

Theorem ir_end_last : forall r, wf r -> ir_end r = last (enum r) (r_start r).
Proof.
  intros r H. destruct (enum_snoc r H) as [l E]. rewrite E, last_last. reflexivity.
Qed.

Theorem ir_end_closed : forall r, wf r ->
  ir_end r = r_start r + r_step r * (Z.of_nat (enum_count r) - 1).
Proof.
  intros r H. rewrite (ir_end_cnt r H), (enum_count_cnt r H). f_equal. f_equal. lia.
Qed.

(** membership in [enum] in terms of an index *)
Lemma enum_In_iff : forall r v, wf r ->
  (In v (enum r) <-> exists k, 0 <= k <= cnt r /\ v = r_start r + r_step r * k).
Proof.
  intros r v H. pose proof (cnt_nonneg r H) as Hn. unfold enum.
  rewrite (enum_count_S r H), in_map_iff. split.
  - intros [i [E Hi]]. apply in_seq in Hi. exists (Z.of_nat i). split; [lia|].
    symmetry. exact E.
  - intros [k [Hk E]]. exists (Z.to_nat k). split.
    + rewrite Z2Nat.id by lia. symmetry. exact E.
    + apply in_seq. lia.
Qed.

Lemma enum_nth : forall r i, wf r -> 0 <= i <= cnt r ->
  nth (Z.to_nat i) (enum r) 0 = r_start r + r_step r * i.
Proof.
  intros r i H Hi. unfold enum. rewrite nth_map_seq.
  - rewrite Z2Nat.id by lia. reflexivity.
  - rewrite (enum_count_S r H). lia.
Qed.

Theorem enum_on_grid : forall r v, wf r -> (In v (enum r) <-> on_grid r v).
Proof.
  intros r v H. rewrite (enum_In_iff r v H). unfold on_grid.
  pose proof (cnt_nonneg r H) as Hn.
  destruct (Z.lt_trichotomy (r_step r) 0) as [Hst|[Hst|Hst]].
  - pose proof (cnt_bounds_neg r H Hst) as Hb.
    assert (Hse : r_end r <= r_start r).
    { destruct r as [s e st]; unfold wf in H; cbn [r_start r_end r_step] in *; lia. }
    revert Hn Hb. generalize (cnt r) as n. intros n Hn Hb. split.
    + intros [k [Hk E]]. exists k. split; [lia|]. split; [exact E|]. right. nia.
    + intros [k [Hk [E Hr]]]. exists k. split; [|exact E]. split; [lia|]. nia.
  - exfalso. apply (wf_step_nz r H Hst).
  - pose proof (cnt_bounds_pos r H Hst) as Hb.
    assert (Hse : r_start r <= r_end r).
    { destruct r as [s e st]; unfold wf in H; cbn [r_start r_end r_step] in *; lia. }
    revert Hn Hb. generalize (cnt r) as n. intros n Hn Hb. split.
    + intros [k [Hk E]]. exists k. split; [lia|]. split; [exact E|]. left. nia.
    + intros [k [Hk [E Hr]]]. exists k. split; [|exact E]. split; [lia|]. nia.
Qed.

Theorem enum_NoDup : forall r, wf r -> NoDup (enum r).
Proof.
  intros r H. unfold enum. apply FinFun.Injective_map_NoDup; [|apply seq_NoDup].
  intros a b E. pose proof (wf_step_nz r H) as Hnz.
  assert (r_step r * Z.of_nat a = r_step r * Z.of_nat b) as E' by lia.
  apply Z.mul_reg_l in E'; [lia|exact Hnz].
Qed.

(** [ir_value] *)
Lemma ir_value_in : forall r i, wf r -> 0 <= i <= cnt r ->
  ir_value r i = Some (r_start r + r_step r * i).
Proof.
  intros r i H Hi. unfold ir_value. rewrite (ir_end_cnt r H).
  pose proof (wf_step_nz r H) as Hnz.
  revert Hi. generalize (cnt r) as n. intros n Hi.
  destruct r as [s e st]; cbn [r_start r_end r_step] in *. clear H.
  destruct (Z.ltb_spec i 0) as [L0|L0]; [lia|].
  destruct (Z.leb_spec s (s + st * n)) as [L1|L1]; cbn [andb].
  - assert (0 <= st * i <= st * n) by nia.
    destruct (Z.ltb_spec (s + st * i) s) as [L2|L2]; [lia|].
    destruct (Z.gtb_spec (s + st * i) (s + st * n)) as [L3|L3]; [lia|]. cbn [orb].
    destruct (Z.ltb_spec (s + st * n) s) as [L4|L4]; [lia|]. reflexivity.
  - assert (st * n <= st * i <= 0) by nia.
    destruct (Z.ltb_spec (s + st * n) s) as [L4|L4]; [|lia]. cbn [andb].
    destruct (Z.gtb_spec (s + st * i) s) as [L2|L2]; [lia|].
    destruct (Z.ltb_spec (s + st * i) (s + st * n)) as [L3|L3]; [lia|]. reflexivity.
Qed.

Lemma ir_value_out_cnt : forall r i, wf r -> (i < 0 \/ cnt r < i) -> ir_value r i = None.
Proof.
  intros r i H Hi. unfold ir_value. rewrite (ir_end_cnt r H).
  pose proof (wf_step_nz r H) as Hnz. pose proof (cnt_nonneg r H) as Hn.
  revert Hi Hn. generalize (cnt r) as n. intros n Hi Hn.
  destruct r as [s e st]; cbn [r_start r_end r_step] in *. clear H.
  destruct (Z.ltb_spec i 0) as [L0|L0]; [reflexivity|].
  destruct Hi as [Hi|Hi]; [lia|].
  destruct (Z.leb_spec s (s + st * n)) as [L1|L1]; cbn [andb].
  - destruct (Z.ltb_spec (s + st * i) s) as [L2|L2]; [reflexivity|].
    assert (0 < st) by nia. assert (st * n < st * i) by nia.
    destruct (Z.gtb_spec (s + st * i) (s + st * n)) as [L3|L3]; [reflexivity|lia].
  - assert (st < 0) by nia. assert (st * i < st * n) by nia.
    destruct (Z.ltb_spec (s + st * n) s) as [L4|L4]; [|lia]. cbn [andb].
    destruct (Z.gtb_spec (s + st * i) s) as [L2|L2]; [reflexivity|].
    destruct (Z.ltb_spec (s + st * i) (s + st * n)) as [L3|L3]; [reflexivity|lia].
Qed.

Theorem ir_value_nth : forall r i, wf r -> 0 <= i < Z.of_nat (enum_count r) ->
  ir_value r i = Some (nth (Z.to_nat i) (enum r) 0).
Proof.
  intros r i H Hi. rewrite (enum_count_cnt r H) in Hi.
  rewrite ir_value_in, enum_nth by (try exact H; lia). reflexivity.
Qed.

Theorem ir_value_out : forall r i, wf r ->
  (i < 0 \/ Z.of_nat (enum_count r) <= i) -> ir_value r i = None.
Proof.
  intros r i H Hi. rewrite (enum_count_cnt r H) in Hi.
  apply ir_value_out_cnt; [exact H|lia].
Qed.

Theorem ir_iter_enum : forall r, wf r -> ir_iter r = enum r.
Proof.
  intros r H. unfold ir_iter, enum. rewrite (ir_len_count r H), Nat2Z.id.
  apply map_ext_in. intros i Hi. apply in_seq in Hi.
  pose proof (enum_count_cnt r H) as Hc.
  unfold ir_next. rewrite ir_value_in by (try exact H; lia). reflexivity.
Qed.

(** [closest] against an exact end [s + st * n] decides grid membership *)
Lemma quot_mul_exact : forall st k, st <> 0 -> Z.quot (st * k) st = k.
Proof. intros st k H. rewrite Z.mul_comm. apply Z.quot_mul. exact H. Qed.

Lemma stepped_exact : forall s st v, st <> 0 ->
  (go_div (v - s) st * st + s = v <-> exists k, v = s + st * k).
Proof.
  intros s st v Hnz. unfold go_div. split.
  - intros E. exists (Z.quot (v - s) st). lia.
  - intros [k E]. replace (v - s) with (st * k) by lia.
    rewrite quot_mul_exact by exact Hnz. lia.
Qed.

Lemma closest_grid : forall s st n v, st <> 0 -> 0 <= n ->
  ((closest v s (s + st * n) st =? v) = true <->
   exists k, 0 <= k <= n /\ v = s + st * k).
Proof.
  intros s st n v Hnz Hn. rewrite Z.eqb_eq. unfold closest.
  assert (Hstep : (if (st =? 1) || (st =? -1) then v
                   else go_div (v - s) st * st + s) = v <-> exists k, v = s + st * k).
  { destruct (Z.eqb_spec st 1) as [E1|E1]; cbn [orb].
    { subst st. split; [intros _; exists (v - s); lia|reflexivity]. }
    destruct (Z.eqb_spec st (-1)) as [E2|E2]; cbn [orb].
    { subst st. split; [intros _; exists (s - v); lia|reflexivity]. }
    apply stepped_exact. exact Hnz. }
  destruct (Z.geb_spec (s + st * n) s) as [G|G].
  - destruct (Z.ltb_spec v s) as [L1|L1].
    { split; [lia|]. intros [k [Hk E]]. nia. }
    destruct (Z.gtb_spec v (s + st * n)) as [L2|L2].
    { split; [lia|]. intros [k [Hk E]]. nia. }
    rewrite Hstep. split.
    + intros [k E]. exists k. split; [nia|exact E].
    + intros [k [_ E]]. exists k. exact E.
  - assert (st < 0) by nia.
    destruct (Z.gtb_spec v s) as [L1|L1].
    { split; [lia|]. intros [k [Hk E]]. nia. }
    destruct (Z.ltb_spec v (s + st * n)) as [L2|L2].
    { split; [lia|]. intros [k [Hk E]]. nia. }
    rewrite Hstep. split.
    + intros [k E]. exists k. split; [nia|exact E].
    + intros [k [_ E]]. exists k. exact E.
Qed.

Lemma ir_contains_grid : forall r v, wf r ->
  (ir_contains r v = true <-> exists k, 0 <= k <= cnt r /\ v = r_start r + r_step r * k).
Proof.
  intros r v H. unfold ir_contains. rewrite (ir_end_cnt r H).
  apply closest_grid; [apply wf_step_nz; exact H|apply cnt_nonneg; exact H].
Qed.

Theorem ir_contains_In : forall r v, wf r -> (ir_contains r v = true <-> In v (enum r)).
Proof.
  intros r v H. rewrite (enum_In_iff r v H). apply ir_contains_grid. exact H.
Qed.

Theorem ir_index_position : forall r v, wf r -> ir_index r v = position v (enum r).
Proof.
  intros r v H. unfold ir_index. fold (ir_contains r v).
  destruct (ir_contains r v) eqn:C; cbn [negb].
  - apply (ir_contains_grid r v H) in C. destruct C as [k [Hk E]].
    pose proof (wf_step_nz r H) as Hnz.
    replace (v - r_start r) with (r_step r * k) by lia.
    unfold go_div. rewrite quot_mul_exact by exact Hnz.
    destruct (Z.ltb_spec k 0) as [L|L]; [lia|].
    rewrite <- (enum_nth r k H Hk) in E. rewrite E.
    rewrite position_NoDup_nth.
    + lia.
    + apply enum_NoDup. exact H.
    + rewrite enum_length, (enum_count_S r H). lia.
  - symmetry. apply position_notin. intros Hin.
    apply (ir_contains_In r v H) in Hin. congruence.
Qed.

(** minimum and maximum *)
Lemma ir_min_In : forall r, wf r -> In (ir_min r) (enum r).
Proof.
  intros r H. unfold ir_min. destruct (r_start r <? ir_end r).
  - destruct (enum_cons r H) as [l E]. rewrite E. left. reflexivity.
  - destruct (enum_snoc r H) as [l E]. rewrite E. apply in_or_app. right. left. reflexivity.
Qed.

Lemma ir_max_In : forall r, wf r -> In (ir_max r) (enum r).
Proof.
  intros r H. unfold ir_max. destruct (r_start r >? ir_end r).
  - destruct (enum_cons r H) as [l E]. rewrite E. left. reflexivity.
  - destruct (enum_snoc r H) as [l E]. rewrite E. apply in_or_app. right. left. reflexivity.
Qed.

Lemma ir_min_le : forall r x, wf r -> In x (enum r) -> ir_min r <= x.
Proof.
  intros r x H Hx. apply (enum_In_iff r x H) in Hx. destruct Hx as [k [Hk E]].
  unfold ir_min. rewrite (ir_end_cnt r H). subst x.
  revert Hk. generalize (cnt r) as n, (r_start r) as s, (r_step r) as st. intros n s st Hk.
  destruct (Z.ltb_spec s (s + st * n)) as [L|L];
    (destruct (Z.lt_trichotomy st 0) as [Hst|[Hst|Hst]]; [nia|subst st; lia|nia]).
Qed.

Lemma ir_max_ge : forall r x, wf r -> In x (enum r) -> x <= ir_max r.
Proof.
  intros r x H Hx. apply (enum_In_iff r x H) in Hx. destruct Hx as [k [Hk E]].
  unfold ir_max. rewrite (ir_end_cnt r H). subst x.
  revert Hk. generalize (cnt r) as n, (r_start r) as s, (r_step r) as st. intros n s st Hk.
  destruct (Z.gtb_spec s (s + st * n)) as [L|L];
    (destruct (Z.lt_trichotomy st 0) as [Hst|[Hst|Hst]]; [nia|subst st; lia|nia]).
Qed.

Lemma lmin_enum : forall r a, wf r -> lmin (enum r) a = Z.min a (ir_min r).
Proof.
  intros r a H. apply lmin_char.
  - destruct (Z.min_spec a (ir_min r)) as [[_ E]|[_ E]]; rewrite E.
    + left. reflexivity.
    + right. apply ir_min_In. exact H.
  - lia.
  - intros x Hx. pose proof (ir_min_le r x H Hx). lia.
Qed.

Lemma lmax_enum : forall r a, wf r -> lmax (enum r) a = Z.max a (ir_max r).
Proof.
  intros r a H. apply lmax_char.
  - destruct (Z.max_spec a (ir_max r)) as [[_ E]|[_ E]]; rewrite E.
    + right. apply ir_max_In. exact H.
    + left. reflexivity.
  - lia.
  - intros x Hx. pose proof (ir_max_ge r x H Hx). lia.
Qed.

Lemma start_In_enum : forall r, wf r -> In (r_start r) (enum r).
Proof. intros r H. destruct (enum_cons r H) as [l E]. rewrite E. left. reflexivity. Qed.

Theorem ir_min_spec : forall r, wf r -> ir_min r = lmin (enum r) (r_start r).
Proof.
  intros r H. rewrite (lmin_enum r _ H).
  pose proof (ir_min_le r _ H (start_In_enum r H)). lia.
Qed.

Theorem ir_max_spec : forall r, wf r -> ir_max r = lmax (enum r) (r_start r).
Proof.
  intros r H. rewrite (lmax_enum r _ H).
  pose proof (ir_max_ge r _ H (start_In_enum r H)). lia.
Qed.

Theorem new_range_wf : forall s e st,
  (st = 0 \/ (s < e /\ 0 < st) \/ (s > e /\ st < 0) \/ (s = e /\ st <> 0)) ->
  wf (new_range s e st).
Proof.
  intros s e st H. unfold new_range, wf.
  destruct (Z.eqb_spec st 0) as [E|E].
  - destruct (Z.leb_spec s e) as [L|L]; cbn [r_start r_end r_step]; lia.
  - cbn [r_start r_end r_step]. lia.
Qed.

(** ** Block lists *)

Lemma enum_all_cons : forall b bl, enum_all (b :: bl) = enum b ++ enum_all bl.
Proof. reflexivity. Qed.

Theorem rs_iter_enum_all : forall bl, Forall wf bl -> rs_iter bl = enum_all bl.
Proof.
  intros bl H. unfold rs_iter, enum_all. induction H as [|b bl Hb _ IH].
  - reflexivity.
  - cbn [flat_map]. rewrite (ir_iter_enum b Hb), IH. reflexivity.
Qed.

Lemma rs_len_acc : forall bl a, Forall wf bl ->
  fold_left (fun a b => a + ir_len b) bl a = a + Z.of_nat (List.length (enum_all bl)).
Proof.
  intros bl a H. revert a. induction H as [|b bl Hb _ IH]; intros a.
  - cbn. lia.
  - cbn [fold_left]. rewrite IH, enum_all_cons, app_length, enum_length, Nat2Z.inj_add.
    rewrite (ir_len_count b Hb). lia.
Qed.

Theorem rs_len_length : forall bl, Forall wf bl ->
  rs_len bl = Z.of_nat (List.length (enum_all bl)).
Proof. intros bl H. unfold rs_len. rewrite (rs_len_acc bl 0 H). lia. Qed.

Theorem rs_contains_In : forall bl v, Forall wf bl ->
  (rs_contains bl v = true <-> In v (enum_all bl)).
Proof.
  intros bl v H. unfold rs_contains, enum_all. rewrite existsb_exists, in_flat_map.
  rewrite Forall_forall in H.
  split; intros [b [Hb C]]; exists b; (split; [exact Hb|]);
    apply (ir_contains_In b v (H b Hb)); exact C.
Qed.

Lemma rs_value_from_in : forall bl idx n, Forall wf bl ->
  n <= idx < n + Z.of_nat (List.length (enum_all bl)) ->
  rs_value_from bl idx n = Some (nth (Z.to_nat (idx - n)) (enum_all bl) 0).
Proof.
  intros bl idx n H. revert n. induction H as [|b bl Hb _ IH]; intros n Hi.
  - cbn in Hi. lia.
  - rewrite enum_all_cons in *. rewrite app_length, enum_length, Nat2Z.inj_add in Hi.
    cbn [rs_value_from]. rewrite (ir_len_count b Hb).
    destruct (Z.ltb_spec (idx - n) (Z.of_nat (enum_count b))) as [L|L].
    + rewrite (ir_value_nth b (idx - n) Hb) by lia.
      rewrite app_nth1 by (rewrite enum_length; lia). reflexivity.
    + rewrite IH by lia.
      rewrite app_nth2 by (rewrite enum_length; lia).
      rewrite enum_length. do 2 f_equal. lia.
Qed.

Lemma rs_value_from_out : forall bl idx n, Forall wf bl ->
  (idx < n \/ n + Z.of_nat (List.length (enum_all bl)) <= idx) ->
  rs_value_from bl idx n = None.
Proof.
  intros bl idx n H. revert n. induction H as [|b bl Hb _ IH]; intros n Hi.
  - reflexivity.
  - rewrite enum_all_cons, app_length, enum_length, Nat2Z.inj_add in Hi.
    cbn [rs_value_from]. rewrite (ir_len_count b Hb).
    destruct (Z.ltb_spec (idx - n) (Z.of_nat (enum_count b))) as [L|L].
    + rewrite (ir_value_out b (idx - n) Hb) by lia. apply IH. lia.
    + apply IH. lia.
Qed.

Theorem rs_value_nth : forall bl i, Forall wf bl ->
  0 <= i < Z.of_nat (List.length (enum_all bl)) ->
  rs_value bl i = Some (nth (Z.to_nat i) (enum_all bl) 0).
Proof.
  intros bl i H Hi. unfold rs_value.
  destruct (Z.ltb_spec i 0) as [L|L]; [lia|].
  rewrite rs_value_from_in by (try exact H; lia). do 2 f_equal. lia.
Qed.

Theorem rs_value_out : forall bl i, Forall wf bl ->
  (i < 0 \/ Z.of_nat (List.length (enum_all bl)) <= i) -> rs_value bl i = None.
Proof.
  intros bl i H Hi. unfold rs_value.
  destruct (Z.ltb_spec i 0) as [L|L]; [reflexivity|].
  apply rs_value_from_out; [exact H|lia].
Qed.

Lemma rs_index_from_position : forall bl v n, Forall wf bl ->
  rs_index_from bl v n =
  if position v (enum_all bl) <? 0 then -1 else position v (enum_all bl) + n.
Proof.
  intros bl v n H. revert n. induction H as [|b bl Hb _ IH]; intros n.
  - reflexivity.
  - cbn [rs_index_from]. rewrite enum_all_cons, (ir_index_position b v Hb).
    destruct (Z.geb_spec (position v (enum b)) 0) as [G|G].
    + assert (Hin : In v (enum b)) by (apply position_nonneg_In; lia).
      rewrite (position_app_in v _ _ Hin).
      destruct (Z.ltb_spec (position v (enum b)) 0) as [L|L]; [lia|reflexivity].
    + assert (Hn : ~ In v (enum b)).
      { intros Hin. pose proof (position_In_nonneg v _ Hin). lia. }
      rewrite (position_app_notin v _ _ Hn), IH, enum_length, (ir_len_count b Hb).
      destruct (Z.ltb_spec (position v (enum_all bl)) 0) as [L|L]; [reflexivity|].
      destruct (Z.ltb_spec (position v (enum_all bl) + Z.of_nat (enum_count b)) 0) as [L'|L']; lia.
Qed.

Theorem rs_index_position : forall bl v, Forall wf bl ->
  rs_index bl v = position v (enum_all bl).
Proof.
  intros bl v H. unfold rs_index. rewrite (rs_index_from_position bl v 0 H).
  destruct (Z.ltb_spec (position v (enum_all bl)) 0) as [L|L]; [|lia].
  destruct (in_dec Z.eq_dec v (enum_all bl)) as [Hin|Hn].
  - pose proof (position_In_nonneg v _ Hin). lia.
  - symmetry. apply position_notin. exact Hn.
Qed.

Theorem rs_start_hd : forall bl, Forall wf bl -> rs_start bl = hd 0 (enum_all bl).
Proof.
  intros bl H. destruct H as [|b bl Hb _]; [reflexivity|].
  rewrite enum_all_cons. destruct (enum_cons b Hb) as [l E]. rewrite E. reflexivity.
Qed.

Lemma enum_all_snoc : forall bl b, Forall wf (bl ++ [b]) ->
  exists l, enum_all (bl ++ [b]) = l ++ [ir_end b].
Proof.
  intros bl b H. apply Forall_app in H. destruct H as [_ Hb].
  apply Forall_inv in Hb. destruct (enum_snoc b Hb) as [l E].
  exists (enum_all bl ++ l). unfold enum_all. rewrite flat_map_app. cbn [flat_map].
  fold (enum_all bl). rewrite E, app_nil_r, app_assoc. reflexivity.
Qed.

Lemma rs_end_snoc : forall bl b, rs_end (bl ++ [b]) = ir_end b.
Proof.
  intros bl b. unfold rs_end.
  pose proof (last_last bl b (mkR 0 0 1)) as HL.
  destruct (bl ++ [b]) as [|x l] eqn:E.
  - destruct bl; discriminate E.
  - rewrite HL. reflexivity.
Qed.

Lemma enum_all_nonempty : forall bl, Forall wf bl -> bl <> [] -> enum_all bl <> [].
Proof.
  intros bl H Hne. destruct H as [|b bl Hb _]; [congruence|].
  rewrite enum_all_cons. destruct (enum_cons b Hb) as [l E]. rewrite E. discriminate.
Qed.

Theorem rs_end_last : forall bl, Forall wf bl -> rs_end bl = last (enum_all bl) 0.
Proof.
  intros bl H. destruct bl as [|b0 bl0]; [reflexivity|].
  destruct (exists_last (l := b0 :: bl0)) as [bl' [b E]]; [discriminate|].
  rewrite E in *. rewrite rs_end_snoc.
  destruct (enum_all_snoc bl' b H) as [l El]. rewrite El, last_last. reflexivity.
Qed.

Lemma rs_min_fold : forall bl a, Forall wf bl ->
  fold_left (fun v b => if ir_min b <? v then ir_min b else v) bl a = lmin (enum_all bl) a.
Proof.
  intros bl a H. revert a. induction H as [|b bl Hb _ IH]; intros a.
  - reflexivity.
  - cbn [fold_left]. rewrite IH, enum_all_cons. unfold lmin at 2.
    rewrite fold_left_app. fold (lmin (enum b) a). rewrite (lmin_enum b a Hb).
    fold (lmin (enum_all bl) (Z.min a (ir_min b))). f_equal.
    destruct (Z.ltb_spec (ir_min b) a) as [L|L]; lia.
Qed.

Lemma rs_max_fold : forall bl a, Forall wf bl ->
  fold_left (fun v b => if ir_max b >? v then ir_max b else v) bl a = lmax (enum_all bl) a.
Proof.
  intros bl a H. revert a. induction H as [|b bl Hb _ IH]; intros a.
  - reflexivity.
  - cbn [fold_left]. rewrite IH, enum_all_cons. unfold lmax at 2.
    rewrite fold_left_app. fold (lmax (enum b) a). rewrite (lmax_enum b a Hb).
    fold (lmax (enum_all bl) (Z.max a (ir_max b))). f_equal.
    destruct (Z.gtb_spec (ir_max b) a) as [L|L]; lia.
Qed.

(** the hypothesis [bl <> []] is not needed for the minimum *)
Lemma rs_min_spec_gen : forall bl, Forall wf bl ->
  rs_min bl = lmin (enum_all bl) (hd 0 (enum_all bl)).
Proof.
  intros bl H. unfold rs_min. rewrite (rs_min_fold bl _ H), (rs_start_hd bl H). reflexivity.
Qed.

Theorem rs_min_spec : forall bl, Forall wf bl -> bl <> [] ->
  rs_min bl = lmin (enum_all bl) (hd 0 (enum_all bl)).
Proof. intros bl H _. apply rs_min_spec_gen. exact H. Qed.

Lemma hd_In : forall (l : list Z) d, l <> [] -> In (hd d l) l.
Proof. intros [|x l] d H; [congruence|left; reflexivity]. Qed.

Lemma last_In : forall (l : list Z) d, l <> [] -> In (last l d) l.
Proof.
  intros l d H. destruct (exists_last H) as [l' [a E]]. rewrite E, last_last.
  apply in_or_app. right. left. reflexivity.
Qed.

Theorem rs_max_spec : forall bl, Forall wf bl -> bl <> [] ->
  rs_max bl = lmax (enum_all bl) (hd 0 (enum_all bl)).
Proof.
  intros bl H Hne. unfold rs_max. rewrite (rs_max_fold bl _ H), (rs_end_last bl H).
  pose proof (enum_all_nonempty bl H Hne) as Hl.
  apply lmax_default; [apply last_In|apply hd_In]; exact Hl.
Qed.

(** the same with the default the model actually uses; holds for [[]] too *)
Lemma rs_max_spec_last : forall bl, Forall wf bl ->
  rs_max bl = lmax (enum_all bl) (last (enum_all bl) 0).
Proof.
  intros bl H. unfold rs_max. rewrite (rs_max_fold bl _ H), (rs_end_last bl H). reflexivity.
Qed.
