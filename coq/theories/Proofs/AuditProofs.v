(** Audit round: statements a reviewer found weaker than the property they serve, proved in
    their stronger form.  One section per item (A..H); every main theorem is printed with
    its assumptions at the end of the file. *)
From Coq Require Import Permutation.
From GFS Require Import Base Dec Pipeline PipelineProofs.
From GFS Require Import Pad Seq Path Listing Seqls.

(** * A. (C17) the worker pipeline instantiated with the jobs of seqls: whatever the scheduling
      of the workers, the tool prints exactly the lines of [seqls_lines] *)

Inductive sjob : Type := JPat (p : bytes) | JDir (s r : bytes).

(** the "no argument means ." normalisation that [seqls_lines] performs *)
Definition norm_args (args : list bytes) : list bytes := match args with [] => [[c_dot]] | _ => args end.

(** the loader's job list: patterns first, then directories *)
Definition sjobs (f : sflags) (t : tree) (args : list bytes) : list sjob :=
  map JPat (fst (jobs_of f t args)) ++ map (fun sr => JDir (fst sr) (snd sr)) (snd (jobs_of f t args)).

Definition sjob_lines (f : sflags) (t : tree) (j : sjob) : list bytes :=
  match j with
  | JPat p => pattern_job_lines f t p
  | JDir s r => dir_job_lines f t s r
  end.

(** what a worker computes for a job: always a batch, absolute when asked *)
Definition srun (f : sflags) (cwd : bytes) (t : tree) (j : sjob) : option (list bytes) :=
  Some (if sf_abs f then map (absolute cwd) (sjob_lines f t j) else sjob_lines f t j).

Lemma concat_results_srun : forall f cwd t js,
  List.concat (results (srun f cwd t) js) =
  if sf_abs f then map (absolute cwd) (flat_map (sjob_lines f t) js) else flat_map (sjob_lines f t) js.
Proof.
  intros f cwd t js. unfold results, srun. induction js as [|j js IH]; simpl.
  - destruct (sf_abs f); reflexivity.
  - rewrite IH. destruct (sf_abs f); [rewrite map_app|]; reflexivity.
Qed.

Lemma sjobs_lines : forall f t args,
  flat_map (sjob_lines f t) (sjobs f t args) =
  flat_map (pattern_job_lines f t) (fst (jobs_of f t args)) ++
  flat_map (fun sr => dir_job_lines f t (fst sr) (snd sr)) (snd (jobs_of f t args)).
Proof.
  intros f t args. unfold sjobs. rewrite flat_map_app. f_equal.
  - induction (fst (jobs_of f t args)); simpl; congruence.
  - induction (snd (jobs_of f t args)); simpl; congruence.
Qed.

Lemma seqls_lines_as_results : forall f cwd t args,
  seqls_lines f cwd t args = List.concat (results (srun f cwd t) (sjobs f t (norm_args args))).
Proof.
  intros f cwd t args. rewrite concat_results_srun, sjobs_lines. unfold seqls_lines.
  change (match args with [] => [[c_dot]] | _ :: _ => args end) with (norm_args args).
  destruct (jobs_of f t (norm_args args)) as [pats dirs]. reflexivity.
Qed.

Theorem pipeline_prints_seqls_lines : forall n f cwd t args s, 1 <= n ->
  steps (srun f cwd t) (init n (sjobs f t (norm_args args))) s -> final s ->
  Permutation (List.concat (printed s)) (seqls_lines f cwd t args).
Proof.
  intros n f cwd t args s Hn Hs Hf. rewrite seqls_lines_as_results.
  exact (pipeline_lines_conserved sjob (srun f cwd t) n _ s Hn Hs Hf).
Qed.

(** the batches themselves (not only their lines): one batch per job, none lost, none doubled *)
Theorem pipeline_prints_one_batch_per_job : forall n f cwd t args s, 1 <= n ->
  steps (srun f cwd t) (init n (sjobs f t (norm_args args))) s -> final s ->
  Permutation (printed s)
              (map (fun j => if sf_abs f then map (absolute cwd) (sjob_lines f t j) else sjob_lines f t j)
                   (sjobs f t (norm_args args))).
Proof.
  intros n f cwd t args s Hn Hs Hf.
  eapply Permutation_trans. { exact (pipeline_conserves sjob (srun f cwd t) n _ s Hn Hs Hf). }
  unfold results, srun. induction (sjobs f t (norm_args args)); simpl; auto.
Qed.

(** and such a complete run exists from every start (non-vacuity of the hypotheses) *)
Theorem pipeline_seqls_can_complete : forall n f cwd t args,
  exists s, steps (srun f cwd t) (init n (sjobs f t (norm_args args))) s /\ final s.
Proof. intros. apply pipeline_can_complete. Qed.

(* ------------------------------------------------------------------ *)
(** * B. (C17, links) the depth-first walk lists exactly the pairs reachable through at most
      one link, each spelling once *)
From GFS Require Import WalkLts WalkProofs WalkSched.

(** membership: the model's own job list, by [dfs_is_a_schedule] + [any_schedule_jobs_exactly] *)
Theorem dfs_lists_exactly_the_reachable_pairs : forall t all root real,
  wf_tree t -> flat_links t -> skipped all root = false ->
  forall s r, In (s, r) (fst (walk_root t all root real [])) <-> lreach t all root real s r.
Proof.
  intros t all root real Hwf Hflat S s r.
  destruct (walk_root t all root real []) as [jobs c'] eqn:E.
  destruct (dfs_is_a_schedule t all root real [] jobs c' (proj1 Hwf) E) as [st [H [F [J _]]]].
  simpl. rewrite <- J. apply (any_schedule_jobs_exactly t all root real [] st); auto.
Qed.

(** a skipped root lists nothing *)
Theorem dfs_skipped_root_lists_nothing : forall t all root real c,
  skipped all root = true -> walk_root t all root real c = ([], c).
Proof. intros t all root real c S. unfold walk_root. fold (skipped all root). rewrite S. reflexivity. Qed.

(** spelled out: a listed pair is reached through no link, or through exactly one *)
Theorem dfs_pairs_go_through_at_most_one_link : forall t all root real,
  wf_tree t -> flat_links t -> skipped all root = false ->
  forall s r, In (s, r) (fst (walk_root t all root real [])) <->
    (reach t all root real s r \/
     exists s1 r1 n, reach t all root real s1 r1 /\ In n t /\ tn_kind n = KLinkDir /\ tn_parent n = r1 /\
                     skipped all (join_path s1 (tn_name n)) = false /\
                     reach t all (join_path s1 (tn_name n)) (tn_target n) s r).
Proof.
  intros t all root real Hwf Hflat S s r.
  rewrite (dfs_lists_exactly_the_reachable_pairs t all root real Hwf Hflat S). split.
  - apply lreach_flat. exact Hflat.
  - assert (Tr : forall a b c d e f, lreach t all a b c d -> lreach t all c d e f -> lreach t all a b e f).
    { intros a b c d e f H. induction H; auto. intros H'. eapply lreach_step; eauto. }
    intros [R | [s1 [r1 [n [R [Hn [K [P [Sk R2]]]]]]]]]; [apply reach_lreach; exact R|].
    apply (Tr _ _ s1 r1); [apply reach_lreach; exact R|].
    apply (lreach_step t all s1 r1 n (tn_target n)); auto; [right; auto | apply reach_lreach; exact R2].
Qed.

(** ** multiplicity.  With nothing said about entry NAMES the pair can be listed twice: a
    directory [a] and a link named [a] to it, in the same directory (no file system has that,
    [wf_tree] and [flat_links] allow it) *)
Module DupName.
Import WalkExamples.
Definition t2 : tree := [D "." "a"; L "." "a" "a"].
Lemma t2_ok : wf_tree t2 /\ flat_links t2.
Proof.
  split; [split|].
  - apply no_dot_acyclic. intros n H K E. simpl in H.
    repeat (destruct H as [<-|H]; [vm_compute in E; discriminate|]). contradiction.
  - apply dirs_uniqueb_sound. vm_compute. reflexivity.
  - apply flat_linksb_sound. vm_compute. reflexivity.
Qed.
Example t2_lists_a_pair_twice :
  fst (walk_root t2 false (s2b ".") (s2b ".") []) = [P "." "."; P "./a" "a"; P "./a" "a"].
Proof. vm_compute. reflexivity. Qed.
End DupName.

Theorem exactly_once_needs_distinct_names_refuted :
  exists t all root real s r, wf_tree t /\ flat_links t /\ skipped all root = false /\
    count_occ job_dec (fst (walk_root t all root real [])) (s, r) = 2.
Proof.
  exists DupName.t2, false, (s2b "."), (s2b "."), (s2b "./a"), (s2b "a").
  destruct DupName.t2_ok as [W F]. split; [exact W|]. split; [exact F|]. split; [reflexivity|].
  rewrite DupName.t2_lists_a_pair_twice. vm_compute.
  repeat match goal with |- context [job_dec ?a ?b] => destruct (job_dec a b); try congruence end.
Qed.

(** and the same REAL directory is listed under two spellings on a tree with honest names
    ([SchedExamples.flat2]: [b/c] as [./a/x/c] and as [./b/c]) *)
Theorem real_directories_may_be_listed_twice :
  exists t all root real, wf_tree t /\ flat_links t /\ skipped all root = false /\
    ~ NoDup (map snd (fst (walk_root t all root real []))).
Proof.
  exists SchedExamples.flat2, false, SchedExamples.dot, SchedExamples.dot.
  destruct SchedExamples.flat2_ok as [W [F _]]. split; [exact W|]. split; [exact F|]. split; [reflexivity|].
  rewrite SchedExamples.flat2_model. intros N.
  vm_compute in N. inversion N as [|? ? _ N1]. inversion N1 as [|? ? _ N2]. inversion N2 as [|? ? X _].
  apply X. simpl. tauto.
Qed.

(** what is right: entry names are distinct within a directory and hold no slash (every file
    system); then every SPELLED path is listed once, so every pair is *)
Definition names_ok (t : tree) : Prop :=
  (forall n, In n t -> ~ In c_slash (tn_name n)) /\ (forall r, NoDup (map tn_name (children t r))).

Definition tailok (x : bytes) : Prop := x = [] \/ exists x', x = c_slash :: x'.

Lemma slashfree_prefix_unique : forall a b x y,
  ~ In c_slash a -> ~ In c_slash b -> tailok x -> tailok y -> a ++ x = b ++ y -> a = b.
Proof.
  induction a as [|c a IH]; intros [|d b] x y Ha Hb Hx Hy E; simpl in *; auto.
  - exfalso. destruct Hx as [->|[x' ->]]; [discriminate|]. injection E as E1 _. apply Hb. left. auto.
  - exfalso. destruct Hy as [->|[y' ->]]; [discriminate|]. injection E as E1 _. apply Ha. left. auto.
  - injection E as -> E. f_equal. apply (IH b x y); auto.
Qed.

Lemma join_path_inj : forall sp a b, join_path sp a = join_path sp b -> a = b.
Proof. intros sp a b E. unfold join_path in E. apply app_inv_head in E. injection E; auto. Qed.

Lemma join_join : forall sp a b, join_path (join_path sp a) b = join_path sp (a ++ c_slash :: b).
Proof. intros. unfold join_path. rewrite <- app_assoc. reflexivity. Qed.

Lemma combine_spellings : forall sp (n : tnode) (rest : list tnode) (J1 J2 : list bytes),
  ~ In c_slash (tn_name n) -> (forall m, In m rest -> ~ In c_slash (tn_name m)) ->
  ~ In (tn_name n) (map tn_name rest) ->
  NoDup J1 -> (forall s, In s J1 -> exists x, s = join_path (join_path sp (tn_name n)) x) ->
  NoDup J2 -> (forall s, In s J2 -> exists m x, In m rest /\ s = join_path sp (tn_name m ++ x) /\ tailok x) ->
  NoDup (join_path sp (tn_name n) :: J1 ++ J2) /\
  forall s, In s (join_path sp (tn_name n) :: J1 ++ J2) ->
            exists m x, In m (n :: rest) /\ s = join_path sp (tn_name m ++ x) /\ tailok x.
Proof.
  intros sp n rest J1 J2 Sn Sr Nn N1 P1 N2 P2.
  assert (Diff : forall m x y, In m rest -> tailok x -> tailok y ->
                 join_path sp (tn_name n ++ x) <> join_path sp (tn_name m ++ y)).
  { intros m x y Hm Hx Hy E. apply join_path_inj in E.
    apply slashfree_prefix_unique in E; auto. apply Nn. rewrite E. apply in_map. exact Hm. }
  split.
  - constructor.
    + rewrite in_app_iff. intros [X|X].
      * destruct (P1 _ X) as [x E]. rewrite join_join in E. apply join_path_inj in E.
        apply (f_equal (@List.length _)) in E. rewrite app_length in E. simpl in E. lia.
      * destruct (P2 _ X) as [m [x [Hm [E Hx]]]].
        apply (Diff m [] x Hm); auto; [left; auto|]. rewrite app_nil_r. exact E.
    + apply NoDup_app_intro; auto. intros s X1 X2.
      destruct (P1 _ X1) as [x E1]. destruct (P2 _ X2) as [m [y [Hm [E2 Hy]]]].
      rewrite join_join in E1. apply (Diff m (c_slash :: x) y Hm); auto; [right; eauto|]. congruence.
  - intros s [<-|X].
    + exists n, []. split; [left; auto|]. rewrite app_nil_r. split; auto. left. auto.
    + apply in_app_or in X. destruct X as [X|X].
      * destruct (P1 _ X) as [x E]. exists n, (c_slash :: x). split; [left; auto|].
        rewrite <- join_join. split; auto. right. eauto.
      * destruct (P2 _ X) as [m [x [Hm [E Hx]]]]. exists m, x. split; [right; auto|]. auto.
Qed.

Lemma full_spellings : forall t all sp ents J T, Full t all sp ents J T ->
  names_ok t -> incl ents t -> NoDup (map tn_name ents) ->
  NoDup (map fst J) /\
  forall s, In s (map fst J) -> exists m x, In m ents /\ s = join_path sp (tn_name m ++ x) /\ tailok x.
Proof.
  intros t all sp ents J T H [Sl Nm].
  assert (Sub : forall sp n rest J1 J2 (r : bytes) (b : bytes),
     incl (n :: rest) t -> NoDup (map tn_name (n :: rest)) ->
     (NoDup (map fst J1) /\ forall s, In s (map fst J1) -> exists m x, In m (children t r) /\
           s = join_path (join_path sp (tn_name n)) (tn_name m ++ x) /\ tailok x) ->
     (NoDup (map fst J2) /\ forall s, In s (map fst J2) -> exists m x, In m rest /\
           s = join_path sp (tn_name m ++ x) /\ tailok x) ->
     NoDup (map fst ((join_path sp (tn_name n), b) :: J1 ++ J2)) /\
     forall s, In s (map fst ((join_path sp (tn_name n), b) :: J1 ++ J2)) ->
               exists m x, In m (n :: rest) /\ s = join_path sp (tn_name m ++ x) /\ tailok x).
  { intros sp0 n rest J1 J2 r b I N [N1 P1] [N2 P2]. simpl. rewrite map_app.
    simpl in N. inversion N; subst.
    apply combine_spellings; auto.
    - apply Sl. apply I. left. auto.
    - intros m Hm. apply Sl. apply I. right. auto.
    - intros s X. destruct (P1 _ X) as [m [x [_ [E _]]]]. eauto. }
  induction H as [sp | sp n rest J T K1 K2 H IH | sp n rest J T K S H IH
                 | sp n rest J1 T1 J2 T2 K S H1 IH1 H2 IH2
                 | sp n rest J T K S H IH
                 | sp n rest J1 T1 J2 T2 K S H1 IH1 H2 IH2]; intros I N.
  - split; [constructor | intros s []].
  - destruct IH as [N' P]; [eapply incl_cons_inv; eauto | simpl in N; inversion N; auto |].
    split; auto. intros s X. destruct (P s X) as [m [x [Hm R]]]. exists m, x. split; [right; auto | exact R].
  - destruct IH as [N' P]; [eapply incl_cons_inv; eauto | simpl in N; inversion N; auto |].
    split; auto. intros s X. destruct (P s X) as [m [x [Hm R]]]. exists m, x. split; [right; auto | exact R].
  - apply (Sub sp n rest J1 J2 (node_real n)); auto.
    + apply IH1; [apply incl_children | apply Nm].
    + apply IH2; [eapply incl_cons_inv; eauto | simpl in N; inversion N; auto].
  - destruct IH as [N' P]; [eapply incl_cons_inv; eauto | simpl in N; inversion N; auto |].
    split; auto. intros s X. destruct (P s X) as [m [x [Hm R]]]. exists m, x. split; [right; auto | exact R].
  - apply (Sub sp n rest J1 J2 (tn_target n)); auto.
    + apply IH1; [apply incl_children | apply Nm].
    + apply IH2; [eapply incl_cons_inv; eauto | simpl in N; inversion N; auto].
Qed.

Theorem dfs_lists_each_spelling_once : forall t all root real,
  wf_tree t -> flat_links t -> names_ok t ->
  NoDup (map fst (fst (walk_root t all root real []))).
Proof.
  intros t all root real [[rank Hrank] Huniq] Hflat Hn.
  destruct (walk_root_fuel_enough t all root real [] (ex_intro _ rank Hrank)) as [_ W].
  destruct (walk_root t all root real []) as [jobs c']. simpl in *.
  inversion W as [X | j c0 _ Wj]; subst; [constructor|].
  destruct (walk_root_full rank t Hrank Huniq Hflat all root real [] j c' (fun _ _ _ => eq_refl) Wj)
    as [T [HF _]].
  destruct (full_spellings _ _ _ _ _ _ HF Hn (incl_children t real) (proj2 Hn real)) as [N P].
  simpl. constructor; auto.
  intros X. destruct (P _ X) as [m [x [_ [E _]]]]. unfold join_path in E.
  apply (f_equal (@List.length _)) in E. rewrite app_length in E. simpl in E. lia.
Qed.

(** each reachable pair is listed exactly once; a spelling names one real directory *)
Theorem dfs_lists_each_reachable_pair_exactly_once : forall t all root real,
  wf_tree t -> flat_links t -> names_ok t -> skipped all root = false ->
  let jobs := fst (walk_root t all root real []) in
  NoDup (map fst jobs) /\ NoDup jobs /\
  (forall s r, lreach t all root real s r -> count_occ job_dec jobs (s, r) = 1) /\
  (forall s r, ~ lreach t all root real s r -> count_occ job_dec jobs (s, r) = 0) /\
  (forall s r r', lreach t all root real s r -> lreach t all root real s r' -> r = r').
Proof.
  intros t all root real Hwf Hflat Hn S jobs.
  pose proof (dfs_lists_each_spelling_once t all root real Hwf Hflat Hn) as N. fold jobs in N.
  assert (N' : NoDup jobs) by (eapply NoDup_map_inv; eauto).
  pose proof (dfs_lists_exactly_the_reachable_pairs t all root real Hwf Hflat S) as M. fold jobs in M.
  split; auto. split; auto. split; [|split].
  - intros s r R. apply (proj1 (NoDup_count_occ' job_dec jobs) N'). apply M. exact R.
  - intros s r R. apply count_occ_not_In. rewrite M. exact R.
  - intros s r r' R R'. apply M in R. apply M in R'.
    clear M N'. induction jobs as [|[a b] l IH]; [destruct R|].
    simpl in N. inversion N as [|? ? Na Nl]; subst.
    destruct R as [R|R], R' as [R'|R'].
    + congruence.
    + inversion R; subst. exfalso. apply Na. change s with (fst (s, r')). apply in_map. exact R'.
    + inversion R'; subst. exfalso. apply Na. change s with (fst (s, r)). apply in_map. exact R.
    + apply IH; auto.
Qed.

(** non-vacuity: [SchedExamples.flat2] (three links, a target also visited as a plain directory)
    has honest names; a checker for concrete trees *)
Fixpoint pair_nodupb (l : list (bytes * bytes)) : bool :=
  match l with [] => true | a :: r => negb (existsb (jobb a) r) && pair_nodupb r end.
Definition names_okb (t : tree) : bool :=
  forallb (fun n => negb (existsb (Nat.eqb c_slash) (tn_name n))) t &&
  pair_nodupb (map (fun n => (tn_parent n, tn_name n)) t).

Lemma jobb_refl : forall a, jobb a a = true.
Proof. intros [a b]. unfold jobb. simpl. rewrite !wbeq_refl. reflexivity. Qed.

Lemma pair_nodupb_sound : forall l, pair_nodupb l = true -> NoDup l.
Proof.
  induction l as [|a r IH]; simpl; intros H; [constructor|].
  apply andb_true_iff in H. destruct H as [H1 H2]. constructor; auto.
  intros X. apply negb_true_iff in H1. assert (E : existsb (jobb a) r = true); [|congruence].
  apply existsb_exists. exists a. split; [exact X | apply jobb_refl].
Qed.

Lemma names_okb_sound : forall t, names_okb t = true -> names_ok t.
Proof.
  intros t H. apply andb_true_iff in H. destruct H as [H1 H2]. split.
  - intros n Hn X. rewrite forallb_forall in H1. specialize (H1 n Hn). apply negb_true_iff in H1.
    assert (E : existsb (Nat.eqb c_slash) (tn_name n) = true); [|congruence].
    apply existsb_exists. exists c_slash. split; [exact X | apply Nat.eqb_refl].
  - intros r. apply pair_nodupb_sound in H2. clear H1.
    induction t as [|n t IH]; [constructor|]. simpl in H2. inversion H2 as [|? ? Hn Ht]; subst.
    unfold children. cbn [filter]. fold (children t r).
    destruct (beq (tn_parent n) r) eqn:B; [|apply IH; exact Ht].
    cbn [map]. constructor; [|apply IH; exact Ht].
    intros X. apply in_map_iff in X. destruct X as [m [E Hm]]. apply children_In in Hm. destruct Hm as [Hm P].
    apply Hn. apply in_map_iff. exists m. split; [|exact Hm]. apply wbeq_eq in B. congruence.
Qed.

Example flat2_has_honest_names : names_ok SchedExamples.flat2 /\
  NoDup (fst (walk_root SchedExamples.flat2 false SchedExamples.dot SchedExamples.dot [])).
Proof.
  assert (N : names_ok SchedExamples.flat2) by (apply names_okb_sound; vm_compute; reflexivity).
  split; [exact N|]. destruct SchedExamples.flat2_ok as [W [F _]].
  exact (proj1 (proj2 (dfs_lists_each_reachable_pair_exactly_once _ false SchedExamples.dot SchedExamples.dot
                          W F N eq_refl))).
Qed.

(* ------------------------------------------------------------------ *)
(** * C. (C10) the size of a mixed pad string is the sum of its characters' sizes; what
      [set_padding_style] does, exactly *)
From GFS Require Import GenPadTables PadProofs.
Local Open Scope Z_scope.

(** a string over the two pad characters *)
Definition pad_string (cs : bytes) : Prop := Forall (fun c => c = c_hash \/ c = c_at) cs.

(** the size of one pad character under a style *)
Definition pad_char_size (st : pstyle) (c : byte) : Z :=
  if Nat.eqb c c_hash then match st with Hash4 => 4 | Hash1 => 1 end
  else if Nat.eqb c c_at then 1 else 0.

Lemma pad_char_size_is_the_size_of_the_character : forall st c, c = c_hash \/ c = c_at ->
  padding_chars_size st [c] = pad_char_size st c.
Proof. intros st c [->| ->]; destruct st; vm_compute; reflexivity. Qed.

Lemma fold_left_sum_shift : forall (f : byte -> Z) l acc,
  fold_left (fun a x => a + f x) l acc = acc + fold_right (fun x a => f x + a) 0 l.
Proof.
  intros f l. induction l as [|x l IH]; intros acc; simpl; [lia|]. rewrite IH. lia.
Qed.

Theorem pad_size_is_additive : forall st cs, pad_string cs ->
  padding_chars_size st cs = fold_right (fun c acc => pad_char_size st c + acc) 0 cs.
Proof.
  intros st cs H. destruct cs as [|c s]; [reflexivity|].
  rewrite (size_is_sum st c s H), fold_left_sum_shift, Z.add_0_l.
  unfold pad_string in H. induction H as [|x l Hx Hl IH]; [reflexivity|].
  cbn [fold_right]. rewrite IH. f_equal. destruct Hx as [->| ->]; destruct st; reflexivity.
Qed.

(** the same, with the sizes of the one-character strings *)
Corollary pad_size_is_the_sum_of_the_characters : forall st cs, pad_string cs ->
  padding_chars_size st cs = fold_right (fun c acc => padding_chars_size st [c] + acc) 0 cs.
Proof.
  intros st cs H. rewrite (pad_size_is_additive st cs H).
  unfold pad_string in H. induction H as [|x l Hx Hl IH]; simpl; [reflexivity|].
  rewrite IH. f_equal. symmetry. apply pad_char_size_is_the_size_of_the_character. exact Hx.
Qed.

Corollary pad_size_app : forall st a b, pad_string a -> pad_string b ->
  padding_chars_size st (a ++ b) = padding_chars_size st a + padding_chars_size st b.
Proof.
  intros st a b Ha Hb.
  rewrite (pad_size_is_additive st (a ++ b)), (pad_size_is_additive st a Ha), (pad_size_is_additive st b Hb).
  - induction a as [|x a IH]; simpl; [reflexivity|]. inversion Ha; subst. rewrite IH; auto. lia.
  - apply Forall_app. split; assumption.
Qed.

(** closed form: 4 (or 1) per '#', 1 per '@' *)
Corollary pad_size_counts : forall st cs, pad_string cs ->
  padding_chars_size st cs =
  (match st with Hash4 => 4 | Hash1 => 1 end) * Z.of_nat (count_occ Nat.eq_dec cs c_hash)
  + Z.of_nat (count_occ Nat.eq_dec cs c_at).
Proof.
  intros st cs H. rewrite (pad_size_is_additive st cs H).
  unfold pad_string in H. induction H as [|x l Hx Hl IH]; [destruct st; reflexivity|].
  cbn [fold_right]. rewrite IH. destruct Hx as [->| ->].
  - rewrite count_occ_cons_eq by reflexivity. rewrite count_occ_cons_neq by discriminate.
    change (pad_char_size st c_hash) with (match st with Hash4 => 4 | Hash1 => 1 end).
    unfold byte in *. destruct st; lia.
  - rewrite count_occ_cons_neq by discriminate. rewrite count_occ_cons_eq by reflexivity.
    change (pad_char_size st c_at) with 1. unfold byte in *. destruct st; lia.
Qed.

Example mixed_pad_string : padding_chars_size Hash4 (s2b "#@#@@") = 11 /\ padding_chars_size Hash1 (s2b "#@#@@") = 5.
Proof. split; vm_compute; reflexivity. Qed.

(** the style an integer selects: an unknown style is the default style *)
Theorem style_of_int_exact : forall z,
  style_of_int z = (if z =? K_PadStyleHash1 then Hash1 else if z =? K_PadStyleHash4 then Hash4 else default_style)
  /\ default_style = Hash4 /\ style_of_int K_PadStyleHash1 = Hash1 /\ style_of_int K_PadStyleHash4 = Hash4.
Proof.
  intros z. split; [|repeat split; reflexivity].
  unfold style_of_int. destruct (z =? K_PadStyleHash1); [reflexivity|].
  destruct (z =? K_PadStyleHash4); reflexivity.
Qed.

(** width -> characters -> width for EVERY width: a width below 1 gives the one default
    character, whose size is 1 in both styles *)
Lemma pad_roundtrip_any : forall st n, padding_chars_size st (padding_chars st n) = Z.max 1 n.
Proof.
  intros st n. destruct (Z.le_gt_cases 1 n) as [H|H].
  - rewrite pad_roundtrip_proof by exact H. lia.
  - replace (Z.max 1 n) with 1 by lia. unfold padding_chars.
    assert (E : (n <=? 0) = true) by (apply Z.leb_le; lia).
    destruct st; rewrite E; vm_compute; reflexivity.
Qed.

(** SetPaddingStyle, field by field: the pad characters are those of the new style for the OLD
    width; the width is kept (1 when it was below 1); nothing else moves *)
Theorem set_padding_style_exact : forall q z,
  set_padding_style q z =
  mkQ (q_dir q) (q_base q) (q_ext q)
      (padding_chars (style_of_int z) (q_zfill q)) (Z.max 1 (q_zfill q)) (q_fs q) (style_of_int z).
Proof.
  intros q z. unfold set_padding_style, set_padding. cbn [q_dir q_base q_ext q_pad q_zfill q_fs q_style].
  rewrite pad_roundtrip_any. reflexivity.
Qed.

Corollary set_padding_style_pad : forall q z,
  q_pad (set_padding_style q z) = padding_chars (style_of_int z) (q_zfill q) /\
  q_zfill (set_padding_style q z) = Z.max 1 (q_zfill q) /\
  q_style (set_padding_style q z) = style_of_int z /\
  padding_chars_size (style_of_int z) (q_pad (set_padding_style q z)) = q_zfill (set_padding_style q z).
Proof.
  intros q z. rewrite set_padding_style_exact. cbn [q_pad q_zfill q_style].
  repeat split. apply pad_roundtrip_any.
Qed.

(** an unknown style number behaves as the default style *)
Corollary set_padding_style_unknown : forall q z, z <> K_PadStyleHash1 -> z <> K_PadStyleHash4 ->
  set_padding_style q z = set_padding_style q K_PadStyleDefault.
Proof.
  intros q z H1 H4. rewrite !set_padding_style_exact.
  replace (style_of_int z) with (style_of_int K_PadStyleDefault); [reflexivity|].
  unfold style_of_int at 2. apply Z.eqb_neq in H1, H4. rewrite H1, H4. reflexivity.
Qed.

(* ------------------------------------------------------------------ *)
(** * D. (C07) every hypothesis of [find_one_sound] and of [find_one_complete_uniform], proved
      on one directory: two target frames (one behind a link), adversarial siblings (same prefix
      and suffix but no frame, a non-numeric middle, a range, a signed number, another basename,
      a hidden look-alike) and a DIRECTORY that carries a frame name *)
From GFS Require Import Regex GenRegex Ranges FrameSet Compress CompressProofs FramePathProofs DiskProofs
  ListingProofs5 LookupProofs.

Module LookupInstance.
Definition pat : bytes := s2b "d/foo.#.exr".
Definition opts : list Z := [K_StrictPadding].
Definition ents : list (bytes * ekind) :=
  [(s2b "foo.0003.exr", KFile); (s2b "foo.exr", KFile); (s2b "foo.bar.exr", KFile);
   (s2b "foo.0001.exr", KLinkFile); (s2b "foo.1-5.exr", KFile); (s2b "foo.+5.exr", KFile);
   (s2b "bar.0001.exr", KFile); (s2b ".foo.0004.exr", KFile); (s2b "foo.0002.exr", KDir)].
Definition rd (d : bytes) : option (list (bytes * ekind)) := if beq d (s2b "d/") then Some ents else None.
Definition targets : list bytes := [s2b "foo.0003.exr"; s2b "foo.0001.exr"].

Section Instance.
Variable t : fileseq.
Hypothesis Ht : new_fileseq pat (style_of_int (eff_style K_PadStyleHash4 opts)) = Ok t.

Lemma fields : (q_dir t, q_base t, q_ext t, q_pad t, q_zfill t) = (s2b "d/", s2b "foo.", s2b ".exr", s2b "#", 4).
Proof. vm_compute in Ht. injection Ht as <-. reflexivity. Qed.

(** hypothesis [tmpl_ok] *)
Lemma H_tmpl_ok : tmpl_ok t.
Proof.
  pose proof fields as E. injection E as Ed Eb Ee Ep Ez.
  unfold tmpl_ok. rewrite Ed, Eb, Ee. repeat split; try (vm_compute; reflexivity).
  right. eexists. reflexivity.
Qed.

(** hypothesis: the directory read is the one that holds [ents] *)
Lemma H_rd : rd (lookup_dir t) = Some ents.
Proof. pose proof fields as E. injection E as Ed _ _ _ _. unfold lookup_dir. rewrite Ed. reflexivity. Qed.

(** hypothesis: no dangling link *)
Lemma H_no_dangling : forall n, ~ In (n, KLinkDangling) ents.
Proof.
  intros n Hin. unfold ents in Hin. cbn [In] in Hin.
  repeat (destruct Hin as [Hin|Hin]; [discriminate Hin|]). exact Hin.
Qed.

(** which names the pattern takes: the two targets, none of the siblings, not the directory *)
Lemma taken_names : tnames (lookup_hidden opts) t (non_dirs ents) = targets.
Proof. vm_compute in Ht. injection Ht as <-. vm_compute. reflexivity. Qed.

Lemma target_frames : forall n, In n targets -> frame_text t n = s2b "0003" \/ frame_text t n = s2b "0001".
Proof.
  pose proof fields as E. injection E as _ Eb Ee _ _.
  intros n [<-|[<-|[]]]; unfold frame_text; rewrite Eb, Ee; [left|right]; reflexivity.
Qed.

(** hypothesis [frames_ok] *)
Lemma H_frames_ok : frames_ok (lookup_hidden opts) t (non_dirs ents).
Proof.
  pose proof fields as E. injection E as _ Eb _ _ _.
  split; [|split].
  - apply nodupb_NoDup. vm_compute. reflexivity.
  - intros n Hin Htk.
    assert (Hin' : In n (tnames (lookup_hidden opts) t (non_dirs ents)))
      by (unfold tnames; apply filter_In; split; assumption).
    rewrite taken_names in Hin'.
    destruct (target_frames n Hin') as [F|F]; rewrite F; (split; [intros ds D; discriminate D|]).
    + exists 3. split; [vm_compute; reflexivity|unfold small; lia].
    + exists 1. split; [vm_compute; reflexivity|unfold small; lia].
  - intros n _ Hdig. rewrite Eb in Hdig. vm_compute in Hdig. discriminate Hdig.
Qed.

(** hypothesis of [find_one_sound]: [frames_ok] for whatever the oracle returns *)
Lemma H_frames_ok_rd : forall ents', rd (lookup_dir t) = Some ents' -> frames_ok (lookup_hidden opts) t (non_dirs ents').
Proof. intros ents' H. rewrite H_rd in H. injection H as <-. exact H_frames_ok. Qed.

(** hypotheses: something is taken; one digit width; StrictPadding accepts it *)
Lemma H_nonempty : tnames (lookup_hidden opts) t (non_dirs ents) <> [].
Proof. rewrite taken_names. discriminate. Qed.
Lemma H_uniform : forall n, In n (tnames (lookup_hidden opts) t (non_dirs ents)) -> blen (frame_text t n) = 4.
Proof. intros n Hin. rewrite taken_names in Hin. destruct (target_frames n Hin) as [F|F]; rewrite F; reflexivity. Qed.
Lemma H_strict : lookup_strict opts = false \/ q_pad t = [] \/ q_zfill t = 4.
Proof. pose proof fields as E. injection E as _ _ _ _ Ez. right. right. exact Ez. Qed.
End Instance.

(** the pattern parses (the remaining hypothesis) *)
Lemma H_parses : exists t, new_fileseq pat (style_of_int (eff_style K_PadStyleHash4 opts)) = Ok t.
Proof. vm_compute. eexists. reflexivity. Qed.
End LookupInstance.

(** the two theorems applied: the lookup answers, with exactly the two target paths; and
    whatever it answers holds only paths of taken non-directory entries *)
Example find_one_theorems_instantiated :
  (exists q, find_seq_on_disk LookupInstance.pat K_PadStyleHash4 LookupInstance.opts LookupInstance.rd = Ok (Some q) /\
     q_dir q = s2b "d/" /\ q_base q = s2b "foo." /\ q_ext q = s2b ".exr" /\ q_zfill q = 4 /\
     Permutation (q_paths q) [s2b "d/foo.0003.exr"; s2b "d/foo.0001.exr"]) /\
  (forall q, find_seq_on_disk LookupInstance.pat K_PadStyleHash4 LookupInstance.opts LookupInstance.rd = Ok (Some q) ->
     (1 <= q_zfill q) /\ (exists f, q_fs q = Some f) /\
     forall p, In p (q_paths q) -> p = s2b "d/foo.0003.exr" \/ p = s2b "d/foo.0001.exr").
Proof.
  destruct LookupInstance.H_parses as [t Ht].
  pose proof (LookupInstance.fields t Ht) as E. injection E as Ed Eb Ee Ep Ez.
  split.
  - destruct (LookupProofs.find_one_complete_uniform LookupInstance.pat K_PadStyleHash4 LookupInstance.opts
                LookupInstance.rd t LookupInstance.ents 4 Ht
                (LookupInstance.H_tmpl_ok t Ht) (LookupInstance.H_rd t Ht) LookupInstance.H_no_dangling
                (LookupInstance.H_frames_ok t Ht) (LookupInstance.H_nonempty t Ht)
                (LookupInstance.H_uniform t Ht) (LookupInstance.H_strict t Ht))
      as (q & Hq & Hd & Hb & He & Hz & Hp).
    exists q. rewrite Hd, Hb, He, Ed, Eb, Ee. repeat (split; [first [exact Hq | reflexivity | exact Hz]|]).
    rewrite (LookupInstance.taken_names t Ht), Ed in Hp. exact Hp.
  - intros q Hq.
    destruct (LookupProofs.find_one_sound LookupInstance.pat K_PadStyleHash4 LookupInstance.opts
                LookupInstance.rd q t Hq Ht (LookupInstance.H_tmpl_ok t Ht) (LookupInstance.H_frames_ok_rd t Ht))
      as (ents' & Hrd & _ & _ & _ & Hz & Hfs & Hp).
    rewrite (LookupInstance.H_rd t Ht) in Hrd. injection Hrd as <-.
    split; [exact Hz|]. split; [exact Hfs|].
    intros p Hin. destruct (Hp p Hin) as (n & Hn & Htk & ->).
    assert (Hin' : In n (tnames (lookup_hidden LookupInstance.opts) t (non_dirs LookupInstance.ents)))
      by (unfold tnames; apply filter_In; split; assumption).
    rewrite (LookupInstance.taken_names t Ht) in Hin'. rewrite Ed.
    destruct Hin' as [<-|[<-|[]]]; [left|right]; reflexivity.
Qed.

(* ------------------------------------------------------------------ *)
(** * E. (C09) EVERY comma part of the compressed range parses under the specification's component
      parser, and its numbers are at least [z] characters wide - unconditionally for a non-empty
      frame list (no [NoDup], no bound on the values, no bound on [z] needed) *)
From GFS Require Import SpecRange RangeRegex Glue.

Definition part_padded (z : Z) (part : bytes) (c : comp) : Prop :=
  match c with
  | CSingle _ => z <= Z.of_nat (num_len part)
  | CRange _ _ | CStep _ _ _ _ =>
      z <= Z.of_nat (num_len part) /\
      z <= Z.of_nat (num_len (skipn (S (num_len part)) part))
  end.

Theorem f2r_every_part_parses_padded : forall l sorted z s,
  l <> [] -> frames_to_frame_range l sorted z = Ok s ->
  Forall (fun part => exists c, parse_comp part = Some c /\ part_padded z part c) (split_commas s []).
Proof.
  intros l sorted z s Hl E.
  destruct (f2r_shape l sorted z Hl) as [c [cs [D E']]].
  rewrite E' in E. injection E as <-.
  pose proof (decomp_mod _ _ D) as M.
  rewrite CompressProofs.split_join by (apply (texts_no_comma z (c :: cs)); exact M).
  change (comp_text z c :: map (comp_text z) cs) with (map (comp_text z) (c :: cs)).
  apply Forall_map. eapply Forall_impl; [|exact M].
  intros c0 M0. exists c0. split.
  - apply parse_comp_text. apply mod_ok_is_mod. exact M0.
  - pose proof (comp_text_padded z c0 M0) as P. destruct c0; exact P.
Qed.

(** the empty list is the one exception: its string is empty, and the empty part is no component *)
Example f2r_empty_list_has_no_component : forall sorted z,
  frames_to_frame_range [] sorted z = Ok [] /\ split_commas [] [] = [[]] /\ parse_comp [] = None.
Proof. intros. repeat split. Qed.

(** under the hypotheses of the right-inverse theorem: the string exists, all its parts are
    components of the grammar with padded numbers, and together they denote the frames *)
Theorem f2r_total_parses_padded : forall l sorted z, NoDup l -> Forall small l -> l <> [] ->
  exists s cs, frames_to_frame_range l sorted z = Ok s /\
    Forall2 (fun part c => parse_comp part = Some c /\ part_padded z part c) (split_commas s []) cs /\
    spec_frames s = Some (if sorted then zsort l else l).
Proof.
  intros l sorted z ND SM Hl.
  destruct (f2r_spec l sorted z ND SM) as [s [E [_ Sp]]].
  pose proof (f2r_every_part_parses_padded l sorted z s Hl E) as F.
  assert (X : exists cs, Forall2 (fun part c => parse_comp part = Some c /\ part_padded z part c) (split_commas s []) cs).
  { induction F as [|p ps [c Hc] _ [cs IH]]; [exists []; constructor|]. exists (c :: cs). constructor; auto. }
  destruct X as [cs X]. exists s, cs. split; [exact E|].
  split; [exact X | exact (Sp Hl)].
Qed.

(* ------------------------------------------------------------------ *)
(** * F. (C11) numbers that are already wide enough: all three component shapes, both directions,
      and the whole range string *)
From GFS Require Import DecProofs PadRangeProofs SetterProofs.

(** the numbers [pad_frame_range] may touch are the start and the end; the step number of
    [a-bxn] is never padded, so nothing is asked of it *)
Definition numbers_wide (w : Z) (l : list bytes) : Prop :=
  match l with
  | [a] => w <= Z.of_nat (List.length a)
  | [a; b] => w <= Z.of_nat (List.length a) /\ w <= Z.of_nat (List.length b)
  | [a; b; _; _] => w <= Z.of_nat (List.length a) /\ w <= Z.of_nat (List.length b)
  | _ => True
  end.

Theorem pad_wide_enough_every_shape : forall w p l, tcomp p = Some l -> numbers_wide w l ->
  pad_comp w p = p /\ pad_part p w = p.
Proof.
  intros w p l E H. rewrite pad_part_pad_comp.
  assert (X : pad_comp w p = p); [|split; exact X].
  pose proof (tcomp_inv p l E) as T. destruct T as [a Na Hp|a b Na Nb Hp|a b c n Na Nb Nn Hc Hp]; cbn in H.
  - apply (pad_comp_wide_enough w p a E H).
  - destruct H as [Ha Hb]. apply (pad_comp_wide_enough2 w p a b E Ha Hb).
  - destruct H as [Ha Hb]. apply (pad_comp_wide_enough4 w p a b [c] n E Ha Hb).
Qed.

(** and only then: a component that reads as a range and is left unchanged was wide enough *)
Theorem pad_unchanged_only_if_wide : forall w p l, tcomp p = Some l -> pad_comp w p = p -> numbers_wide w l.
Proof.
  intros w p l E U.
  assert (L : forall a, zfill_string a w = a -> w <= Z.of_nat (List.length a)).
  { intros a Z. pose proof (zfill_string_length a w) as X. rewrite Z in X. lia. }
  assert (N : forall a, numeral a -> w < 2 -> w <= Z.of_nat (List.length a)).
  { intros a Na W. destruct (numeral_length a Na) as [k K]. rewrite K. lia. }
  pose proof (tcomp_inv p l E) as T.
  destruct (Z.lt_ge_cases w 2) as [W|W].
  { destruct T as [a Na Hp|a b Na Nb Hp|a b c n Na Nb Nn Hc Hp]; cbn; auto. }
  destruct T as [a Na Hp|a b Na Nb Hp|a b c n Na Nb Nn Hc Hp]; cbn.
  - destruct (pad_numerals_wide w p a a a a W) as [P _]. specialize (P E). rewrite U, E in P.
    injection P as P. apply L. symmetry. exact P.
  - destruct (pad_numerals_wide w p a b a a W) as [_ [P _]]. specialize (P E). rewrite U, E in P.
    injection P as P1 P2. split; apply L; symmetry; assumption.
  - destruct (pad_numerals_wide w p a b [c] n W) as [_ [_ P]]. specialize (P E). rewrite U, E in P.
    injection P as P1 P2. split; apply L; symmetry; assumption.
Qed.

Corollary pad_unchanged_iff_wide : forall w p l, tcomp p = Some l -> (pad_comp w p = p <-> numbers_wide w l).
Proof.
  intros w p l E. split; [apply pad_unchanged_only_if_wide; exact E|].
  intros H. apply (pad_wide_enough_every_shape w p l E H).
Qed.

(** the whole string: when every component that reads as a range has wide enough numbers, padding
    changes nothing at all *)
Theorem pad_frame_range_wide_enough : forall s w,
  (forall p l, In p (split_on c_comma s) -> tcomp p = Some l -> numbers_wide w l) ->
  pad_frame_range s w = s.
Proof.
  intros s w H. destruct (Z.lt_ge_cases w 2) as [L|L]; [apply pad_small_width; exact L|].
  rewrite pad_frame_range_wide by exact L. change c_comma with 44%nat in H.
  rewrite <- (join_split_on 44%nat s) at 2. f_equal.
  rewrite <- (map_id (split_on 44%nat s)) at 2. apply map_ext_in. intros p Hp.
  destruct (tcomp p) as [l|] eqn:E.
  - apply (pad_wide_enough_every_shape w p l E (H p l Hp E)).
  - unfold pad_comp. rewrite E. reflexivity.
Qed.

Example pad_wide_example :
  pad_frame_range (s2b "010-020x5,-07,100-120,x") 3 = s2b "010-020x5,-07,100-120,x" /\
  pad_frame_range (s2b "010-020x5") 4 = s2b "0010-0020x5".
Proof. split; vm_compute; reflexivity. Qed.

(* ------------------------------------------------------------------ *)
(** * G. (C06) every path of every reported sequence lies directly under the scanned directory and
      is one of its non-directory entries (and every visible one is reported, once) *)
From GFS Require Import SpecListing ListingProofs4 SeqlsCover.

Theorem scanned_paths_are_the_directory_entries : forall path ents opts,
  Forall (fun e => entry_name_ok (fst e)) ents ->
  Forall (fun e => ~ In c_bslash (fst e)) ents ->
  (forall n, ~ In (n, KLinkDangling) ents) ->
  ~ In c_bslash (path_clean path) ->
  path_clean path <> [c_dot] ->
  NoDup (non_dirs ents) ->
  Forall (fun n => name_ok (dir_prefix path ++ n)) (non_dirs ents) ->
  existsb (Z.eqb K_SingleFiles) opts = true ->
  let hidden := existsb (Z.eqb K_HiddenFiles) opts in
  exists seqs, find_on_disk path (Some ents) opts None = Ok seqs /\
    (forall q p, In q seqs -> In p (q_paths q) ->
       exists n, In n (non_dirs ents) /\ p = dir_prefix path ++ n /\
                 p = path_clean (dir_prefix path ++ n) /\ visible hidden p = true) /\
    (forall n, In n (non_dirs ents) -> visible hidden (dir_prefix path ++ n) = true ->
       exists q, In q seqs /\ In (dir_prefix path ++ n) (q_paths q)) /\
    NoDup (flat_map q_paths seqs).
Proof.
  intros path ents opts Hnames Hnobs Hdang Hsp Hdot Hnd Hok Hs hidden.
  set (paths := map (fun n => dir_prefix path ++ n) (non_dirs ents)).
  assert (Cl : forall n, In n (non_dirs ents) -> path_clean (dir_prefix path ++ n) = dir_prefix path ++ n).
  { intros n Hn. apply clean_child; auto.
    destruct (non_dirs_in _ _ Hn) as [k Hk]. rewrite Forall_forall in Hnames. exact (Hnames _ Hk). }
  assert (J : map path_clean paths = paths).
  { unfold paths. rewrite map_map. apply map_ext_in. exact Cl. }
  assert (N : NoDup paths) by (unfold paths; apply NoDup_map_prefix; exact Hnd).
  assert (F : Forall (fun p => name_ok (path_clean p)) paths).
  { apply Forall_forall. intros p Hp. unfold paths in Hp. apply in_map_iff in Hp.
    destruct Hp as (n & <- & Hn). rewrite (Cl n Hn). rewrite Forall_forall in Hok. exact (Hok n Hn). }
  destruct (listing_exact_cover paths opts) as (seqs & Hr & Hp); [rewrite J; exact N | exact F | exact Hs |].
  rewrite J in Hp. fold hidden in Hp.
  exists seqs. split; [rewrite (DiskProofs.on_disk_is_in_list path ents opts) by assumption; exact Hr|].
  split; [|split].
  - intros q p Hq Hin.
    assert (X : In p (flat_map q_paths seqs)) by (apply in_flat_map; exists q; split; assumption).
    apply (Permutation_in _ Hp) in X. apply filter_In in X. destruct X as [X V].
    unfold paths in X. apply in_map_iff in X. destruct X as (n & <- & Hn).
    exists n. split; [exact Hn|]. split; [reflexivity|]. split; [symmetry; apply Cl; exact Hn | exact V].
  - intros n Hn V.
    assert (X : In (dir_prefix path ++ n) (filter (visible hidden) paths)).
    { apply filter_In. split; [|exact V]. unfold paths. apply in_map_iff. exists n. split; auto. }
    apply (Permutation_in _ (Permutation_sym Hp)) in X. apply in_flat_map in X.
    destruct X as (q & Hq & Hin). exists q. split; assumption.
  - eapply Permutation_NoDup; [apply Permutation_sym; exact Hp|]. apply NoDup_filter. exact N.
Qed.

(** non-vacuity: every hypothesis proved on one directory ("a//b/" holding two frames, one behind
    a link, a plain file, a hidden file, a sub-directory and a DIRECTORY with a frame name), and
    the theorem applied *)
Module ScanInstance.
Definition path : bytes := s2b "a//b/".
Definition ents : list (bytes * ekind) :=
  [(s2b "foo.0002.exr", KFile); (s2b "sub", KDir); (s2b "foo.0001.exr", KLinkFile);
   (s2b "notes.txt", KFile); (s2b ".hidden", KFile); (s2b "foo.0003.exr", KDir); (s2b "l", KLinkDir)].

Lemma not_in_b : forall c (s : bytes), existsb (Nat.eqb c) s = false -> ~ In c s.
Proof.
  intros c s H X. assert (E : existsb (Nat.eqb c) s = true); [|congruence].
  apply existsb_exists. exists c. split; [exact X | apply Nat.eqb_refl].
Qed.

Lemma H_names : Forall (fun e => entry_name_ok (fst e)) ents.
Proof.
  repeat apply Forall_cons; try apply Forall_nil; cbn [fst]; unfold entry_name_ok;
    (split; [discriminate|split; [apply not_in_b; vm_compute; reflexivity|split; discriminate]]).
Qed.
Lemma H_nobs : Forall (fun e => ~ In c_bslash (fst e)) ents.
Proof. repeat apply Forall_cons; try apply Forall_nil; cbn [fst]; apply not_in_b; vm_compute; reflexivity. Qed.
Lemma H_dang : forall n, ~ In (n, KLinkDangling) ents.
Proof.
  intros n Hin. unfold ents in Hin. cbn [In] in Hin.
  repeat (destruct Hin as [Hin|Hin]; [discriminate Hin|]). exact Hin.
Qed.
Lemma H_path : ~ In c_bslash (path_clean path) /\ path_clean path <> [c_dot].
Proof. split; [apply not_in_b; vm_compute; reflexivity | vm_compute; discriminate]. Qed.
Lemma H_nodup : NoDup (non_dirs ents).
Proof. apply nodupb_NoDup. vm_compute. reflexivity. Qed.
Lemma H_name_ok : Forall (fun n => name_ok (dir_prefix path ++ n)) (non_dirs ents).
Proof.
  repeat apply Forall_cons; try apply Forall_nil.
  - eapply (name_ok_example _ _ _ _ 2); try (vm_compute; reflexivity).
    + apply is_bytes_b. vm_compute. reflexivity.
    + intros ds. vm_compute. discriminate.
    + right. split; [vm_compute; reflexivity|]. unfold small. lia.
  - eapply (name_ok_example _ _ _ _ 1); try (vm_compute; reflexivity).
    + apply is_bytes_b. vm_compute. reflexivity.
    + intros ds. vm_compute. discriminate.
    + right. split; [vm_compute; reflexivity|]. unfold small. lia.
  - eapply (name_ok_example _ _ _ _ 0); try (vm_compute; reflexivity).
    + apply is_bytes_b. vm_compute. reflexivity.
    + intros ds. vm_compute. discriminate.
    + left. reflexivity.
  - eapply (name_ok_example _ _ _ _ 0); try (vm_compute; reflexivity).
    + apply is_bytes_b. vm_compute. reflexivity.
    + intros ds. vm_compute. discriminate.
    + left. reflexivity.
Qed.
End ScanInstance.

Example scanned_paths_instance :
  exists seqs, find_on_disk ScanInstance.path (Some ScanInstance.ents) [K_SingleFiles] None = Ok seqs /\
    (forall q p, In q seqs -> In p (q_paths q) ->
       p = s2b "a/b/foo.0002.exr" \/ p = s2b "a/b/foo.0001.exr" \/ p = s2b "a/b/notes.txt") /\
    (exists q, In q seqs /\ In (s2b "a/b/foo.0001.exr") (q_paths q)) /\
    NoDup (flat_map q_paths seqs).
Proof.
  destruct ScanInstance.H_path as [Hb Hd].
  destruct (scanned_paths_are_the_directory_entries ScanInstance.path ScanInstance.ents [K_SingleFiles]
              ScanInstance.H_names ScanInstance.H_nobs ScanInstance.H_dang Hb Hd
              ScanInstance.H_nodup ScanInstance.H_name_ok eq_refl) as (seqs & Hr & Hs & Hc & Hn).
  exists seqs. split; [exact Hr|]. split; [|split; [|exact Hn]].
  - intros q p Hq Hp. destruct (Hs q p Hq Hp) as (n & Hin & -> & _ & V).
    change (non_dirs ScanInstance.ents) with [s2b "foo.0002.exr"; s2b "foo.0001.exr"; s2b "notes.txt"; s2b ".hidden"] in Hin.
    destruct Hin as [<-|[<-|[<-|[<-|[]]]]]; auto.
    vm_compute in V. discriminate V.
  - apply (Hc (s2b "foo.0001.exr")); [right; left; reflexivity | vm_compute; reflexivity].
Qed.

(* ------------------------------------------------------------------ *)
(** * H. (C08) the padded inverted range IS [pad_frame_range] of the inverted range (by
      definition), and it differs from it by leading zeros only: stripping the leading zeros
      of every number of the padded string gives back the unpadded string *)

(** literally so: [fs_inverted_frame_range] is defined as that call, guarded by [pad >? 1],
    and below 2 [pad_frame_range] is the identity *)
Theorem inverted_frame_range_is_padding : forall f w,
  fs_inverted_frame_range f w = pad_frame_range (fs_range (fs_invert f)) w /\
  fs_inverted_frame_range f w = fs_frame_range_padded (fs_invert f) w.
Proof.
  intros f w.
  assert (E : fs_inverted_frame_range f w = pad_frame_range (fs_range (fs_invert f)) w); [|split; exact E].
  unfold fs_inverted_frame_range, fs_invert. cbn [fs_range].
  destruct (Z.gtb_spec w 1) as [G|G]; [reflexivity|]. symmetry. apply pad_small_width. lia.
Qed.

(** strip the leading zeros of every maximal digit run, keeping its last digit: a '0' at the
    start of a run is dropped when another digit follows *)
Definition next_is_digit (r : bytes) : bool := match r with d :: _ => is_digit d | [] => false end.
Fixpoint unpad (fresh : bool) (s : bytes) : bytes :=
  match s with
  | [] => []
  | c :: r =>
    if is_digit c then
      if fresh && Nat.eqb c 48 && next_is_digit r then unpad true r else c :: unpad false r
    else c :: unpad true r
  end.
Definition strip_leading_zeros (s : bytes) : bytes := unpad true s.

Example strip_leading_zeros_example :
  strip_leading_zeros (s2b "001-010x2,-05,0,00,a007b,100") = s2b "1-10x2,-5,0,0,a7b,100".
Proof. vm_compute. reflexivity. Qed.

Lemma unpad_nd : forall fr c r, is_digit c = false -> unpad fr (c :: r) = c :: unpad true r.
Proof. intros fr c r H. cbn [unpad]. rewrite H. reflexivity. Qed.

Lemma unpad_keep : forall fr c r, is_digit c = true -> fr && Nat.eqb c 48 && next_is_digit r = false ->
  unpad fr (c :: r) = c :: unpad false r.
Proof. intros fr c r H K. cbn [unpad]. rewrite H, K. reflexivity. Qed.

Lemma unpad_stop : forall rest, stop rest -> unpad false rest = unpad true rest.
Proof. intros [|c r] H; [reflexivity|]. cbn [stop] in H. rewrite !unpad_nd by exact H. reflexivity. Qed.

Lemma stop_next : forall rest, stop rest -> next_is_digit rest = false.
Proof. intros [|c r] H; [reflexivity | exact H]. Qed.

(** inside a digit run nothing is dropped *)
Lemma unpad_run : forall ds rest, all_digits ds -> stop rest -> unpad false (ds ++ rest) = ds ++ unpad true rest.
Proof.
  induction ds as [|d ds IH]; intros rest A S; cbn [app]; [apply unpad_stop; exact S|].
  inversion A; subst. rewrite unpad_keep by auto. rewrite IH by assumption. reflexivity.
Qed.

(** splitting at a non-digit *)
Lemma unpad_split : forall x c y fr, is_digit c = false ->
  unpad fr (x ++ c :: y) = unpad fr x ++ c :: unpad true y.
Proof.
  induction x as [|d x IH]; intros c y fr H; cbn [app]; [rewrite unpad_nd by exact H; reflexivity|].
  cbn [unpad]. destruct (is_digit d).
  - assert (N : next_is_digit (x ++ c :: y) = next_is_digit x) by (destruct x; [exact H | reflexivity]).
    rewrite N. destruct (fr && Nat.eqb d 48 && next_is_digit x); rewrite IH by exact H; reflexivity.
  - rewrite IH by exact H. reflexivity.
Qed.

(** leading zeros in front of a digit run go away *)
Lemma unpad_zeros : forall k ds, ds <> [] -> all_digits ds ->
  unpad true (repeat_bytes [48%nat] k ++ ds) = unpad true ds.
Proof.
  induction k as [|k IH]; intros ds Hne A; [reflexivity|].
  cbn [repeat_bytes app]. cbn [unpad].
  assert (N : next_is_digit (repeat_bytes [48%nat] k ++ ds) = true).
  { destruct k; [|reflexivity]. destruct ds as [|d ds]; [congruence|]. inversion A; subst. assumption. }
  rewrite N. change (is_digit 48%nat) with true. cbn [andb Nat.eqb]. apply IH; assumption.
Qed.

Lemma zfill_string_cases : forall (t : bytes) w, numeral t ->
  (exists ds k, t = 45%nat :: ds /\ ds <> [] /\ all_digits ds /\
                zfill_string t w = 45%nat :: repeat_bytes [48%nat] k ++ ds) \/
  (t <> [] /\ all_digits t /\ exists k, zfill_string t w = repeat_bytes [48%nat] k ++ t).
Proof.
  intros t w H. destruct (zfill_string_numeral_shape t w H) as [k E].
  destruct (numeral_inv t H) as [[ds [-> [A B]]]|[A [B C]]].
  - left. exists ds, k. auto.
  - right. split; [exact A|]. split; [exact B|]. exists k. rewrite E. clear E.
    destruct t as [|c r]; [reflexivity|].
    do 45 (destruct c as [|c]; [reflexivity|]).
    destruct c as [|c]; [|reflexivity]. exfalso. eapply C. reflexivity.
Qed.

(** zero-filling a number is invisible after stripping *)
Lemma unpad_zfill : forall (a : bytes) w, numeral a -> unpad true (zfill_string a w) = unpad true a.
Proof.
  intros a w H. destruct (zfill_string_cases a w H) as [[ds [k [-> [Hne [A E]]]]]|[Hne [A [k E]]]]; rewrite E.
  - rewrite !(unpad_nd true 45%nat) by reflexivity. f_equal. apply unpad_zeros; assumption.
  - apply unpad_zeros; assumption.
Qed.

Lemma is_mod3_not_digit : forall c, is_mod3 c = true -> is_digit c = false.
Proof.
  intros c H. unfold is_mod3 in H. rewrite !orb_true_iff, !Nat.eqb_eq in H.
  destruct H as [[->| ->]| ->]; reflexivity.
Qed.

Lemma unpad_pad_comp : forall w p, unpad true (pad_comp w p) = unpad true p.
Proof.
  intros w p.
  destruct (pad_comp_view w p) as [E|a Na Hp T E|a b Na Nb Hp T E|a b c n Na Nb Nn Hc Hp T E]; rewrite E.
  - reflexivity.
  - subst p. apply unpad_zfill. exact Na.
  - subst p. rewrite !(unpad_split _ 45%nat) by reflexivity. rewrite !unpad_zfill by assumption. reflexivity.
  - subst p. pose proof (is_mod3_not_digit c Hc) as D.
    rewrite !(unpad_split _ 45%nat) by reflexivity. rewrite !(unpad_split _ c) by exact D.
    rewrite !unpad_zfill by assumption. reflexivity.
Qed.

Lemma unpad_join_map : forall (g : bytes -> bytes) l,
  (forall p, unpad true (g p) = unpad true p) ->
  unpad true (join_with 44%nat (map g l)) = unpad true (join_with 44%nat l).
Proof.
  intros g l H. induction l as [|x [|y r] IH]; [reflexivity | apply H |].
  change (unpad true (g x ++ 44%nat :: join_with 44%nat (map g (y :: r))) =
          unpad true (x ++ 44%nat :: join_with 44%nat (y :: r))).
  rewrite !(unpad_split _ 44%nat) by reflexivity. rewrite IH, H. reflexivity.
Qed.

(** padding ANY range string changes nothing but leading zeros (C11's clause, as an equation) *)
Theorem padding_changes_leading_zeros_only : forall s w,
  strip_leading_zeros (pad_frame_range s w) = strip_leading_zeros s.
Proof.
  intros s w. unfold strip_leading_zeros. destruct (Z.lt_ge_cases w 2) as [L|L].
  - rewrite pad_small_width by exact L. reflexivity.
  - rewrite pad_frame_range_wide by exact L. rewrite unpad_join_map by (apply unpad_pad_comp).
    rewrite join_split_on. reflexivity.
Qed.

(** a number printed by [itoa] has no leading zero to strip *)
Lemma unpad_itoa : forall z rest, stop rest -> unpad true (itoa z ++ rest) = itoa z ++ unpad true rest.
Proof.
  intros z rest S. pose proof (itoa_no_leading_zero z) as NZ.
  destruct (numeral_inv (itoa z) (itoa_numeral z)) as [[ds [E [A B]]]|[A [B C]]].
  - rewrite E in *. cbn [app]. rewrite unpad_nd by reflexivity. f_equal.
    destruct ds as [|d ds]; [congruence|]. inversion B; subst.
    assert (D : Nat.eqb d 48 = false).
    { apply Nat.eqb_neq. intros ->. exact NZ. }
    cbn [app]. rewrite unpad_keep; [|assumption|rewrite D; reflexivity].
    rewrite unpad_run by assumption. reflexivity.
  - destruct (itoa z) as [|d ds]; [congruence|]. inversion B; subst.
    cbn [app]. rewrite unpad_keep; [rewrite unpad_run by assumption; reflexivity | assumption |].
    destruct (Nat.eqb_spec d 48) as [->|D]; [|reflexivity].
    destruct ds as [|e ds]; [|contradiction]. cbn [app]. rewrite (stop_next rest S). reflexivity.
Qed.

Lemma unpad_ir_string : forall r rest, stop rest ->
  unpad true (ir_string itoa r ++ rest) = ir_string itoa r ++ unpad true rest.
Proof.
  intros r rest S. unfold ir_string.
  destruct (negb (ir_end r =? r_start r)).
  - destruct ((r_step r >? 1) || (r_step r <? -1)).
    + rewrite <- !app_assoc. cbn [app]. rewrite <- !app_assoc. cbn [app].
      rewrite unpad_itoa by reflexivity. rewrite unpad_nd by reflexivity.
      rewrite unpad_itoa by reflexivity. rewrite unpad_nd by reflexivity.
      rewrite unpad_itoa by exact S. reflexivity.
    + rewrite app_nil_r. rewrite <- !app_assoc. cbn [app].
      rewrite unpad_itoa by reflexivity. rewrite unpad_nd by reflexivity.
      rewrite unpad_itoa by exact S. reflexivity.
  - rewrite app_nil_r. apply unpad_itoa. exact S.
Qed.

(** every range string the library prints from blocks is free of leading zeros *)
Theorem printed_ranges_have_no_leading_zeros : forall bl,
  strip_leading_zeros (rs_string itoa bl) = rs_string itoa bl.
Proof.
  intros bl. unfold strip_leading_zeros, rs_string. change c_comma with 44%nat.
  induction bl as [|x [|y r] IH]; [reflexivity | |].
  - cbn [map join_with]. rewrite <- (app_nil_r (ir_string itoa x)) at 1.
    rewrite unpad_ir_string by exact I. apply app_nil_r.
  - change (unpad true (ir_string itoa x ++ 44%nat :: join_with 44%nat (map (ir_string itoa) (y :: r))) =
            ir_string itoa x ++ 44%nat :: join_with 44%nat (map (ir_string itoa) (y :: r))).
    rewrite unpad_ir_string by reflexivity. rewrite unpad_nd by reflexivity. rewrite IH. reflexivity.
Qed.

(** the clause of C08: the padded inverted range, its leading zeros stripped, is the inverted range *)
Theorem inverted_padded_differs_by_leading_zeros_only : forall f w,
  strip_leading_zeros (fs_inverted_frame_range f w) = fs_range (fs_invert f).
Proof.
  intros f w. rewrite (proj1 (inverted_frame_range_is_padding f w)).
  rewrite padding_changes_leading_zeros_only. unfold fs_invert. cbn [fs_range].
  apply printed_ranges_have_no_leading_zeros.
Qed.

(** the same for Normalize and for any frame set whose range string was printed from its blocks *)
Corollary normalized_padded_differs_by_leading_zeros_only : forall f w,
  strip_leading_zeros (fs_frame_range_padded (fs_normalize f) w) = fs_range (fs_normalize f).
Proof.
  intros f w. unfold fs_frame_range_padded. rewrite padding_changes_leading_zeros_only.
  unfold fs_normalize. cbn [fs_range]. apply printed_ranges_have_no_leading_zeros.
Qed.

Example inverted_padded_example :
  match new_frameset (s2b "10-1x3,5,5,20") with
  | Ok f => fs_inverted_frame_range f 4 = s2b "0002-0003,0006-0008x2,0009-0011x2,0012-0019" /\
            fs_range (fs_invert f) = s2b "2-3,6-8x2,9-11x2,12-19"
  | _ => False
  end.
Proof. vm_compute. split; reflexivity. Qed.

(* ------------------------------------------------------------------ *)
(** * Assumptions of the main theorems *)
Print Assumptions pipeline_prints_seqls_lines.
Print Assumptions pipeline_prints_one_batch_per_job.
Print Assumptions pipeline_seqls_can_complete.
Print Assumptions dfs_lists_exactly_the_reachable_pairs.
Print Assumptions dfs_pairs_go_through_at_most_one_link.
Print Assumptions exactly_once_needs_distinct_names_refuted.
Print Assumptions real_directories_may_be_listed_twice.
Print Assumptions dfs_lists_each_spelling_once.
Print Assumptions dfs_lists_each_reachable_pair_exactly_once.
Print Assumptions flat2_has_honest_names.
Print Assumptions pad_size_is_additive.
Print Assumptions pad_size_is_the_sum_of_the_characters.
Print Assumptions pad_size_app.
Print Assumptions pad_size_counts.
Print Assumptions style_of_int_exact.
Print Assumptions set_padding_style_exact.
Print Assumptions set_padding_style_pad.
Print Assumptions set_padding_style_unknown.
Print Assumptions find_one_theorems_instantiated.
Print Assumptions f2r_every_part_parses_padded.
Print Assumptions f2r_total_parses_padded.
Print Assumptions pad_wide_enough_every_shape.
Print Assumptions pad_unchanged_iff_wide.
Print Assumptions pad_frame_range_wide_enough.
Print Assumptions scanned_paths_are_the_directory_entries.
Print Assumptions scanned_paths_instance.
Print Assumptions inverted_frame_range_is_padding.
Print Assumptions padding_changes_leading_zeros_only.
Print Assumptions printed_ranges_have_no_leading_zeros.
Print Assumptions inverted_padded_differs_by_leading_zeros_only.
Print Assumptions normalized_padded_differs_by_leading_zeros_only.
