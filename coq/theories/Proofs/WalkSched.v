(** Every schedule of the concurrent walk of cmd/seqls (Model/WalkLts.v [wstep]: one entry
    of one directory being read per step, the directory chosen freely) against the depth
    first model (Model/Seqls.v [walk_root], Proofs/WalkProofs.v [Walk]).

    1. [dfs_is_a_schedule]: on [acyclic] trees the depth-first result is the result of one
       complete run (same jobs in the same order, same cache).
    2. [any_schedule_same_jobs], [any_schedule_is_the_model], [any_schedule_jobs_exactly]:
       on a [wf_tree] with [flat_links], started with a cache holding no link target of the
       tree, all complete runs list the same multiset of jobs, that of the model, which is
       the set of pairs reachable from the root ([lreach]).  The general form is
       [any_schedule_generic]: it is enough that the walk that enters every link ([Full])
       exists from the root and meets no target twice and none that is cached; the
       invariant is [sinv].  [walk_full] shows that flat links give this (every link entry
       is met at most once per root, each time with its target not cached).
    3. [any_schedule_terminates]: on [acyclic] trees (any links) the measure [mu] decreases
       at every step, a run has at most [wbound (length t)] steps, every run can be
       completed.
    4. [nested_links_schedule_dependence_refuted], [aliased_links_schedule_dependence],
       [hidden_link_starves_visible_link]: without flat links the jobs depend on the
       schedule (computed runs of [wrun], [wrun_is_wsteps]).
    5. [cache_once_any_schedule]: any tree, any schedule: the cache grows by fresh targets
       only, a target is traversed at most once. *)
From Coq Require Import Permutation.
From GFS Require Import Base Path Listing Seqls WalkLts WalkProofs.
Local Open Scope nat_scope.

(* ------------------------------------------------------------------ *)
(** * Runs *)

Lemma wsteps_trans : forall t all s1 s2 s3, wsteps t all s1 s2 -> wsteps t all s2 s3 -> wsteps t all s1 s3.
Proof.
  intros t all s1 s2 s3 H. induction H; intros H'; auto.
  eapply wsteps_step; eauto.
Qed.

Lemma wsteps_one : forall t all s1 s2, wstep t all s1 s2 -> wsteps t all s1 s2.
Proof. intros. eapply wsteps_step; eauto. constructor. Qed.

Lemma wstepsn_wsteps : forall t all k s1 s2, wstepsn t all k s1 s2 -> wsteps t all s1 s2.
Proof. induction 1; [constructor | eapply wsteps_step; eauto]. Qed.

Lemma wsteps_wstepsn : forall t all s1 s2, wsteps t all s1 s2 -> exists k, wstepsn t all k s1 s2.
Proof.
  induction 1 as [s | s1 s2 s3 H1 _ [k IH]]; [exists 0; constructor | exists (S k); econstructor; eauto].
Qed.

(** the skipping test and the cache test in the vocabulary of WalkProofs *)
Lemma wnode_eq : forall t all sp n c,
  wnode t all sp n c =
  let sp' := join_path sp (tn_name n) in
  match tn_kind n with
  | KDir => if skipped all sp' then mkWO [] c [] []
            else mkWO [mkWork sp' (children t (node_real n))] c [(sp', node_real n)] []
  | KLinkDir =>
    if mem (tn_target n) c then
      if skipped all sp' then mkWO [] c [] [] else mkWO [] c [(sp', tn_target n)] []
    else
      if skipped all sp' then mkWO [] (tn_target n :: c) [] []
      else mkWO [mkWork sp' (children t (tn_target n))] (tn_target n :: c) [(sp', tn_target n)] [tn_target n]
  | _ => mkWO [] c [] []
  end.
Proof.
  intros. unfold wnode, skipped, mem, node_real. cbv zeta.
  destruct (tn_kind n); try reflexivity.
  destruct (existsb (beq (tn_target n)) c); simpl;
    destruct (negb all && hidden_dir (join_path sp (tn_name n))); reflexivity.
Qed.

Lemma winit_eq : forall t all root real c,
  winit t all root real c =
  if skipped all root then mkWS [] c [] [] else mkWS [mkWork root (children t real)] c [(root, real)] [].
Proof. reflexivity. Qed.

Lemma firstn_skipn_cons : forall (A : Type) k (l : list A) x post,
  skipn k l = x :: post -> l = firstn k l ++ x :: post.
Proof. intros A k l x post H. rewrite <- H. symmetry. apply firstn_skipn. Qed.

Lemma wadvance_step : forall t all k s, k < List.length (ws_pending s) -> wstep t all s (wadvance t all k s).
Proof.
  intros t all k [P c j f] L. unfold wadvance. simpl in *.
  destruct (skipn k P) as [|w post] eqn:E.
  - exfalso. assert (X : List.length (skipn k P) = List.length P - k) by apply skipn_length.
    rewrite E in X. simpl in X. lia.
  - apply firstn_skipn_cons in E. destruct w as [sp ents]. simpl.
    destruct ents as [|n rest].
    + rewrite E at 1. apply wstep_drop.
    + rewrite E at 1. apply wstep_entry.
Qed.

(** the executable runner only makes steps of the transition system *)
Theorem wrun_is_wsteps : forall fuel t all choose s, wsteps t all s (wrun fuel t all choose s).
Proof.
  induction fuel; intros t all choose s; simpl; [constructor|].
  destruct (ws_pending s) as [|w P] eqn:E; [constructor|].
  eapply wsteps_step; [|apply IHfuel].
  apply wadvance_step. rewrite E. apply Nat.mod_upper_bound. simpl. lia.
Qed.

Lemma wfinalb_final : forall s, wfinalb s = true -> wfinal s.
Proof. intros [P c j f]. unfold wfinalb, wfinal. simpl. destruct P; auto; discriminate. Qed.

(* ------------------------------------------------------------------ *)
(** * 1. The depth-first walk is one of the schedules *)

Lemma wstep_head : forall t all sp n rest P c j f,
  wstep t all (mkWS (mkWork sp (n :: rest) :: P) c j f)
    (mkWS (wo_new (wnode t all sp n c) ++ mkWork sp rest :: P) (wo_cache (wnode t all sp n c))
          (j ++ wo_jobs (wnode t all sp n c)) (wo_followed (wnode t all sp n c) ++ f)).
Proof. intros. apply (wstep_entry t all [] P). Qed.

Lemma dfs_item : forall t all sp ents c jobs c',
  Walk t all sp ents c jobs c' ->
  forall P j f, exists f',
    wsteps t all (mkWS (mkWork sp ents :: P) c j f) (mkWS P c' (j ++ jobs) f').
Proof.
  intros t all sp ents c jobs c' W.
  induction W as [sp c
                 | sp n rest c j2 c2 K1 K2 W IH
                 | sp n rest c j2 c2 K S W IH
                 | sp n rest c j1 c1 j2 c2 K S W1 IH1 W2 IH2
                 | sp n rest c j2 c2 K M S W IH
                 | sp n rest c j2 c2 K M S W IH
                 | sp n rest c j1 c1 j2 c2 K M S W1 IH1 W2 IH2
                 | sp n rest c j2 c2 K M S W IH]; intros P j f.
  - exists f. rewrite app_nil_r. apply wsteps_one. apply (wstep_drop t all [] P).
  - destruct (IH P j f) as [f' H]. exists f'.
    eapply wsteps_step; [apply wstep_head|].
    rewrite wnode_eq. cbv zeta. destruct (tn_kind n); try congruence; simpl; rewrite app_nil_r; exact H.
  - destruct (IH P j f) as [f' H]. exists f'.
    eapply wsteps_step; [apply wstep_head|].
    rewrite wnode_eq. cbv zeta. rewrite K, S. simpl. rewrite app_nil_r. exact H.
  - destruct (IH1 (mkWork sp rest :: P) (j ++ [(join_path sp (tn_name n), node_real n)]) f) as [f1 H1].
    destruct (IH2 P ((j ++ [(join_path sp (tn_name n), node_real n)]) ++ j1) f1) as [f2 H2].
    exists f2.
    eapply wsteps_step; [apply wstep_head|].
    rewrite wnode_eq. cbv zeta. rewrite K, S. simpl.
    eapply wsteps_trans; [exact H1|].
    replace (j ++ (join_path sp (tn_name n), node_real n) :: j1 ++ j2)
      with (((j ++ [(join_path sp (tn_name n), node_real n)]) ++ j1) ++ j2)
      by (rewrite <- !app_assoc; reflexivity).
    exact H2.
  - destruct (IH P j f) as [f' H]. exists f'.
    eapply wsteps_step; [apply wstep_head|].
    rewrite wnode_eq. cbv zeta. rewrite K, M, S. simpl. rewrite app_nil_r. exact H.
  - destruct (IH P j f) as [f' H]. exists f'.
    eapply wsteps_step; [apply wstep_head|].
    rewrite wnode_eq. cbv zeta. rewrite K, M, S. simpl. rewrite app_nil_r. exact H.
  - destruct (IH1 (mkWork sp rest :: P) (j ++ [(join_path sp (tn_name n), tn_target n)]) (tn_target n :: f)) as [f1 H1].
    destruct (IH2 P ((j ++ [(join_path sp (tn_name n), tn_target n)]) ++ j1) f1) as [f2 H2].
    exists f2.
    eapply wsteps_step; [apply wstep_head|].
    rewrite wnode_eq. cbv zeta. rewrite K, M, S. simpl.
    eapply wsteps_trans; [exact H1|].
    replace (j ++ (join_path sp (tn_name n), tn_target n) :: j1 ++ j2)
      with (((j ++ [(join_path sp (tn_name n), tn_target n)]) ++ j1) ++ j2)
      by (rewrite <- !app_assoc; reflexivity).
    exact H2.
  - destruct (IH P (j ++ [(join_path sp (tn_name n), tn_target n)]) f) as [f' H]. exists f'.
    eapply wsteps_step; [apply wstep_head|].
    rewrite wnode_eq. cbv zeta. rewrite K, M, S. simpl.
    replace (j ++ (join_path sp (tn_name n), tn_target n) :: j2)
      with ((j ++ [(join_path sp (tn_name n), tn_target n)]) ++ j2)
      by (rewrite <- !app_assoc; reflexivity).
    exact H.
Qed.

Lemma dfs_root : forall t all root real cache jobs cache',
  WalkRoot t all root real cache jobs cache' ->
  exists s, wsteps t all (winit t all root real cache) s /\ wfinal s /\
            ws_jobs s = jobs /\ ws_cache s = cache'.
Proof.
  intros t all root real cache jobs cache' W. rewrite winit_eq.
  inversion W as [S | j c' S Wj]; subst; rewrite S.
  - eexists. split; [constructor|]. repeat split.
  - destruct (dfs_item _ _ _ _ _ _ _ Wj [] [(root, real)] []) as [f' H].
    eexists. split; [exact H|]. repeat split.
Qed.

(** Theorem 1.  On a tree whose real directories nest finitely the result of the depth
    first model is the result of a complete run: the same jobs in the same order, the same
    cache. *)
Theorem dfs_is_a_schedule : forall t all root real cache jobs cache',
  acyclic t ->
  walk_root t all root real cache = (jobs, cache') ->
  exists s, wsteps t all (winit t all root real cache) s /\ wfinal s /\
            ws_jobs s = jobs /\ ws_cache s = cache' /\
            Permutation (ws_jobs s) jobs /\ (forall x, mem x (ws_cache s) = mem x cache').
Proof.
  intros t all root real cache jobs cache' A E.
  apply (walk_root_spec _ _ _ _ _ _ _ A) in E.
  destruct (dfs_root _ _ _ _ _ _ _ E) as [s [H [F [J C]]]].
  exists s. repeat split; auto.
  - rewrite J. apply Permutation_refl.
  - intros x. rewrite C. reflexivity.
Qed.

(* ------------------------------------------------------------------ *)
(** * 5. The cache under any schedule (any tree) *)

(** the ghost field records exactly the work items that link steps create *)
Lemma followed_is_link_work : forall t all sp n c,
  wo_followed (wnode t all sp n c) =
  if is_link n then map (fun _ => tn_target n) (wo_new (wnode t all sp n c)) else [].
Proof.
  intros. rewrite wnode_eq. cbv zeta. unfold is_link.
  destruct (tn_kind n); try reflexivity.
  - destruct (skipped all _); reflexivity.
  - destruct (mem _ _); destruct (skipped all _); reflexivity.
Qed.

(** the cache is the starting cache extended by new, pairwise distinct targets; the
    targets traversed are among the new ones, each once *)
Definition cache_ok (c0 : list bytes) (s : wstate) : Prop :=
  exists added,
    ws_cache s = added ++ c0 /\ NoDup added /\ (forall x, In x added -> ~ In x c0) /\
    incl (ws_followed s) added /\ NoDup (ws_followed s).

Lemma cache_ok_step : forall t all c0 s s', wstep t all s s' -> cache_ok c0 s -> cache_ok c0 s'.
Proof.
  intros t all c0 s s' H [a [E [N [D [I F]]]]].
  destruct H as [pre post sp n rest c j f | pre post sp c j f]; simpl in *; [|exists a; auto].
  rewrite wnode_eq. cbv zeta.
  assert (Same : cache_ok c0 (mkWS [] c [] f)) by (exists a; auto).
  unfold cache_ok in Same. simpl in Same.
  destruct (tn_kind n); simpl; auto.
  - destruct (skipped all _); simpl; auto.
  - destruct (mem (tn_target n) c) eqn:M; destruct (skipped all _); simpl; auto;
      apply mem_false in M; subst c;
      assert (Na : ~ In (tn_target n) a) by (intros X; apply M; apply in_or_app; auto);
      exists (tn_target n :: a); simpl.
    + split; auto. split; [constructor; auto|]. split.
      * intros x [<-|X]; auto. intros Y. apply M. apply in_or_app. auto.
      * split; auto. intros x X. right. auto.
    + split; auto. split; [constructor; auto|]. split.
      * intros x [<-|X]; auto. intros Y. apply M. apply in_or_app. auto.
      * split; [intros x [<-|X]; [left|right]; auto|].
        constructor; auto.
Qed.

Lemma cache_ok_init : forall t all root real c0, cache_ok c0 (winit t all root real c0).
Proof.
  intros. rewrite winit_eq. exists [].
  destruct (skipped all root); simpl; repeat split; auto using NoDup_nil, incl_nil_l.
Qed.

Definition bytes_dec : forall a b : bytes, {a = b} + {a <> b}.
Proof. apply list_eq_dec. apply Nat.eq_dec. Qed.

Definition job_dec : forall a b : bytes * bytes, {a = b} + {a <> b}.
Proof. decide equality; apply bytes_dec. Qed.

(** Theorem 5.  Whatever the tree and the schedule: the cache only grows, by targets that
    were not in it, each added once (so it has no duplicates beyond those it started
    with); a link target is traversed (gets a work item) at most once, and never when the
    starting cache already had it. *)
Theorem cache_once_any_schedule : forall t all root real cache s,
  wsteps t all (winit t all root real cache) s ->
  (exists added, ws_cache s = added ++ cache /\ NoDup added /\ (forall x, In x added -> ~ In x cache)) /\
  (NoDup cache -> NoDup (ws_cache s)) /\
  (forall x, mem x cache = true -> mem x (ws_cache s) = true) /\
  NoDup (ws_followed s) /\
  (forall tgt, count_occ bytes_dec (ws_followed s) tgt <= 1) /\
  (forall tgt, In tgt (ws_followed s) -> mem tgt cache = false /\ mem tgt (ws_cache s) = true).
Proof.
  intros t all root real cache s H.
  assert (C : cache_ok cache s).
  { remember (winit t all root real cache) as s0 eqn:E0.
    assert (C0 : cache_ok cache s0) by (subst; apply cache_ok_init).
    clear E0. induction H; auto. apply IHwsteps. eapply cache_ok_step; eauto. }
  destruct C as [a [E [N [D [I F]]]]].
  split; [exists a; auto|]. split; [|split; [|split; [|split]]]; auto.
  - intros Nc. rewrite E. apply NoDup_app_intro; auto.
  - intros x M. apply mem_In. apply mem_In in M. rewrite E. apply in_or_app. auto.
  - intros tgt. apply NoDup_count_occ. exact F.
  - intros tgt X. split.
    + apply mem_false. apply D. apply I. exact X.
    + apply mem_In. rewrite E. apply in_or_app. left. apply I. exact X.
Qed.

(* ------------------------------------------------------------------ *)
(** * 2. Schedule independence *)

(** ** The walk that follows every link it meets

    [Full t all sp ents J T]: handling the entries [ents] of the directory spelled [sp] and
    everything below them, ENTERING EVERY LINK that is not skipped (no cache), lists the
    jobs [J]; [T] are the targets of the link entries met on the way (skipped or not), one
    element per meeting.  It is a relation: it has no result when links form a cycle. *)
Inductive Full (t : tree) (all : bool) : bytes -> list tnode -> list (bytes * bytes) -> list bytes -> Prop :=
| F_nil : forall sp, Full t all sp [] [] []
| F_other : forall sp n rest J T,
    tn_kind n <> KDir -> tn_kind n <> KLinkDir ->
    Full t all sp rest J T -> Full t all sp (n :: rest) J T
| F_dir_hidden : forall sp n rest J T,
    tn_kind n = KDir -> skipped all (join_path sp (tn_name n)) = true ->
    Full t all sp rest J T -> Full t all sp (n :: rest) J T
| F_dir : forall sp n rest J1 T1 J2 T2,
    tn_kind n = KDir -> skipped all (join_path sp (tn_name n)) = false ->
    Full t all (join_path sp (tn_name n)) (children t (node_real n)) J1 T1 ->
    Full t all sp rest J2 T2 ->
    Full t all sp (n :: rest) ((join_path sp (tn_name n), node_real n) :: J1 ++ J2) (T1 ++ T2)
| F_link_hidden : forall sp n rest J T,
    tn_kind n = KLinkDir -> skipped all (join_path sp (tn_name n)) = true ->
    Full t all sp rest J T -> Full t all sp (n :: rest) J (tn_target n :: T)
| F_link : forall sp n rest J1 T1 J2 T2,
    tn_kind n = KLinkDir -> skipped all (join_path sp (tn_name n)) = false ->
    Full t all (join_path sp (tn_name n)) (children t (tn_target n)) J1 T1 ->
    Full t all sp rest J2 T2 ->
    Full t all sp (n :: rest) ((join_path sp (tn_name n), tn_target n) :: J1 ++ J2) (tn_target n :: T1 ++ T2).

(** the same for a list of work items *)
Inductive FullP (t : tree) (all : bool) : list work -> list (bytes * bytes) -> list bytes -> Prop :=
| FP_nil : FullP t all [] [] []
| FP_cons : forall w ws J1 T1 J2 T2,
    Full t all (w_spelled w) (w_ents w) J1 T1 -> FullP t all ws J2 T2 ->
    FullP t all (w :: ws) (J1 ++ J2) (T1 ++ T2).

Lemma FullP_app : forall t all a b J1 T1 J2 T2,
  FullP t all a J1 T1 -> FullP t all b J2 T2 -> FullP t all (a ++ b) (J1 ++ J2) (T1 ++ T2).
Proof.
  intros t all a b J1 T1 J2 T2 H. induction H; intros Hb; simpl; auto.
  rewrite <- !app_assoc. constructor; auto.
Qed.

Lemma FullP_app_inv : forall t all a b J T,
  FullP t all (a ++ b) J T ->
  exists J1 T1 J2 T2, FullP t all a J1 T1 /\ FullP t all b J2 T2 /\ J = J1 ++ J2 /\ T = T1 ++ T2.
Proof.
  induction a as [|w a IH]; simpl; intros b J T H.
  - exists [], [], J, T. repeat split; auto. constructor.
  - inversion H as [|w' ws J1 T1 J2 T2 Hw Hr]; subst.
    destruct (IH _ _ _ Hr) as [Ja [Ta [Jb [Tb [Ha [Hb [EJ ET]]]]]]]. subst.
    exists (J1 ++ Ja), (T1 ++ Ta), Jb, Tb. rewrite !app_assoc. repeat split; auto.
    constructor; auto.
Qed.

Lemma FullP_mid_inv : forall t all pre sp ents post J T,
  FullP t all (pre ++ mkWork sp ents :: post) J T ->
  exists J1 T1 Jw Tw J2 T2,
    FullP t all pre J1 T1 /\ Full t all sp ents Jw Tw /\ FullP t all post J2 T2 /\
    J = J1 ++ Jw ++ J2 /\ T = T1 ++ Tw ++ T2.
Proof.
  intros t all pre sp ents post J T H.
  destruct (FullP_app_inv _ _ _ _ _ _ H) as [J1 [T1 [Jr [Tr [H1 [Hr [EJ ET]]]]]]].
  inversion Hr as [|w ws Jw Tw J2 T2 Hw H2]; subst. simpl in Hw.
  exists J1, T1, Jw, Tw, J2, T2. repeat split; auto.
Qed.

Lemma FullP_mid : forall t all pre sp ents post J1 T1 Jw Tw J2 T2,
  FullP t all pre J1 T1 -> Full t all sp ents Jw Tw -> FullP t all post J2 T2 ->
  FullP t all (pre ++ mkWork sp ents :: post) (J1 ++ Jw ++ J2) (T1 ++ Tw ++ T2).
Proof. intros. apply FullP_app; auto. constructor; auto. Qed.

Ltac perm_count dec :=
  cbn [ws_jobs ws_cache ws_pending ws_followed];
  apply (Permutation_count_occ dec); intro;
  repeat rewrite count_occ_app; cbn [count_occ app]; repeat rewrite count_occ_app;
  cbn [count_occ app]; repeat (destruct (dec _ _)); lia.

(** the state invariant: what was listed so far together with what the pending work lists
    when every link is entered is the fixed multiset [SPEC]; the links still to be met have
    pairwise distinct targets, none of them cached *)
Definition sinv (t : tree) (all : bool) (SPEC : list (bytes * bytes)) (s : wstate) : Prop :=
  exists J T, FullP t all (ws_pending s) J T /\ NoDup T /\ (forall x, In x T -> ~ In x (ws_cache s)) /\
              Permutation (ws_jobs s ++ J) SPEC.

Lemma repack : forall (T T' added c : list bytes),
  NoDup T -> (forall x, In x T -> ~ In x c) -> Permutation T (added ++ T') ->
  NoDup T' /\ (forall x, In x T' -> ~ In x (added ++ c)).
Proof.
  intros T T' added c N D P.
  assert (N' : NoDup (added ++ T')) by (eapply Permutation_NoDup; eauto).
  split.
  - revert N'. clear. induction added; simpl; auto. intros H. inversion H; auto.
  - intros x X Y. apply in_app_or in Y. destruct Y as [Y|Y].
    + revert N' X Y. clear. induction added; simpl; [tauto|].
      intros H X [->|Y]; inversion H; subst; auto.
      apply H2. apply in_or_app. auto.
    + apply (D x); auto. eapply Permutation_in; [apply Permutation_sym; exact P|].
      apply in_or_app. auto.
Qed.

Lemma sinv_step : forall t all SPEC s s', wstep t all s s' -> sinv t all SPEC s -> sinv t all SPEC s'.
Proof.
  intros t all SPEC s s' H [J [T [HF [N [D HP]]]]].
  destruct H as [pre post sp n rest c j f | pre post sp c j f]; simpl in *.
  2:{ destruct (FullP_mid_inv _ _ _ _ _ _ _ _ HF) as [J1 [T1 [Jw [Tw [J2 [T2 [H1 [Hw [H2 [EJ ET]]]]]]]]]].
      inversion Hw; subst. exists (J1 ++ J2), (T1 ++ T2). simpl in *.
      repeat split; auto. apply FullP_app; auto. }
  destruct (FullP_mid_inv _ _ _ _ _ _ _ _ HF) as [J1 [T1 [Jw [Tw [J2 [T2 [H1 [Hw [H2 [EJ ET]]]]]]]]]].
  subst J T. rewrite wnode_eq. cbv zeta.
  inversion Hw as [ | ? ? ? Jr Tr K1 K2 Hr | ? ? ? Jr Tr K S Hr | ? ? ? Jc Tc Jr Tr K S Hc Hr
                    | ? ? ? Jr Tr K S Hr | ? ? ? Jc Tc Jr Tr K S Hc Hr ]; subst.
  - (* other kinds *)
    exists (J1 ++ Jw ++ J2), (T1 ++ Tw ++ T2).
    destruct (tn_kind n); try congruence; simpl; rewrite app_nil_r;
      (split; [apply FullP_mid; auto|]); auto.
  - rewrite K, S. simpl. rewrite app_nil_r.
    exists (J1 ++ Jw ++ J2), (T1 ++ Tw ++ T2). split; [apply FullP_mid; auto|]. auto.
  - rewrite K, S. simpl.
    exists (Jc ++ J1 ++ Jr ++ J2), (Tc ++ T1 ++ Tr ++ T2).
    split; [apply (FP_cons t all (mkWork _ _)); [exact Hc | apply FullP_mid; auto]|].
    destruct (repack _ (Tc ++ T1 ++ Tr ++ T2) [] c N D) as [N' D']; [perm_count bytes_dec|].
    split; auto. split; auto.
    eapply Permutation_trans; [|exact HP]. perm_count job_dec.
  - (* hidden link: its target is not cached yet *)
    assert (M : mem (tn_target n) c = false).
    { apply mem_false. apply D. apply in_or_app. right. left. reflexivity. }
    rewrite K, S, M. simpl. rewrite app_nil_r.
    exists (J1 ++ Jw ++ J2), (T1 ++ Tr ++ T2). split; [apply FullP_mid; auto|].
    destruct (repack _ (T1 ++ Tr ++ T2) [tn_target n] c N D) as [N' D']; [perm_count bytes_dec|].
    auto.
  - assert (M : mem (tn_target n) c = false).
    { apply mem_false. apply D. apply in_or_app. right. left. reflexivity. }
    rewrite K, S, M. simpl.
    exists (Jc ++ J1 ++ Jr ++ J2), (Tc ++ T1 ++ Tr ++ T2).
    split; [apply (FP_cons t all (mkWork _ _)); [exact Hc | apply FullP_mid; auto]|].
    destruct (repack _ (Tc ++ T1 ++ Tr ++ T2) [tn_target n] c N D) as [N' D']; [perm_count bytes_dec|].
    split; auto. split; auto.
    eapply Permutation_trans; [|exact HP]. perm_count job_dec.
Qed.

Lemma sinv_steps : forall t all SPEC s s', wsteps t all s s' -> sinv t all SPEC s -> sinv t all SPEC s'.
Proof. induction 1; auto. intros. apply IHwsteps. eapply sinv_step; eauto. Qed.

Lemma sinv_final : forall t all SPEC s, sinv t all SPEC s -> wfinal s -> Permutation (ws_jobs s) SPEC.
Proof.
  intros t all SPEC s [J [T [HF [_ [_ HP]]]]] F. unfold wfinal in F. rewrite F in HF.
  inversion HF; subst. rewrite app_nil_r in HP. exact HP.
Qed.

(** the jobs of a complete run, whatever the schedule, when the link-following walk from
    the root exists and meets no target twice and none that is cached *)
Definition root_spec (t : tree) (all : bool) (root real : bytes) (J : list (bytes * bytes)) : list (bytes * bytes) :=
  if skipped all root then [] else (root, real) :: J.

Theorem any_schedule_generic : forall t all root real cache J T s,
  Full t all root (children t real) J T -> NoDup T -> (forall x, In x T -> ~ In x cache) ->
  wsteps t all (winit t all root real cache) s -> wfinal s ->
  Permutation (ws_jobs s) (root_spec t all root real J).
Proof.
  intros t all root real cache J T s HF N D H F.
  apply (sinv_final t all); auto.
  eapply sinv_steps; [exact H|].
  unfold root_spec. rewrite winit_eq. destruct (skipped all root).
  - exists [], []. simpl. repeat split; auto using NoDup_nil. constructor.
  - exists J, T. simpl. split; auto.
    replace J with (J ++ []) by apply app_nil_r. replace T with (T ++ []) by apply app_nil_r.
    apply (FP_cons t all (mkWork _ _)); auto. constructor.
Qed.

(* ------------------------------------------------------------------ *)
(** ** Flat links

    [flat_links t]:
    (1) the link entries of [t] have pairwise distinct targets (stated on the list of
        targets, so the same entry listed twice counts as two);
    (2) no link entry lies in or below the target of a link entry: for link entries [n]
        and [x] of [t], the parent directory of [x] is not the target of [n] nor below it.
    "Below" is [anc t], the reflexive-transitive closure of "has the KDir entry" on real
    paths, hidden directories included.  Consequences: a target is not an ancestor-or-self
    of the parent of its own link ([flat_links_no_cycle]), links do not nest, and a
    directory that holds a link is reached by no link.  The target itself may be any real
    path; it may also be reached as an ordinary sub-directory, and is then listed under
    two spellings ([SchedExamples.flat2]). *)
Definition links (t : tree) : list tnode := filter is_link t.

Definition flat_links (t : tree) : Prop :=
  NoDup (map tn_target (links t)) /\
  (forall n x, In n t -> tn_kind n = KLinkDir -> In x t -> tn_kind x = KLinkDir ->
               ~ anc t (tn_target n) (tn_parent x)).

Lemma flat_links_no_cycle : forall t n, flat_links t -> In n t -> tn_kind n = KLinkDir ->
  ~ anc t (tn_target n) (tn_parent n).
Proof. intros t n [_ H] Hn K. apply (H n n); auto. Qed.

Lemma is_link_kind : forall n, is_link n = true <-> tn_kind n = KLinkDir.
Proof. intros n. unfold is_link. destruct (tn_kind n); split; intros; congruence. Qed.

Lemma is_dir_kind : forall n, is_dir n = true <-> tn_kind n = KDir.
Proof. intros n. unfold is_dir. destruct (tn_kind n); split; intros; congruence. Qed.

(** the link entries in or below the entries [ents] of one directory *)
Definition under (t : tree) (ents : list tnode) (x : tnode) : Prop :=
  In x t /\ (In x ents \/ exists m, In m ents /\ tn_kind m = KDir /\ anc t (node_real m) (tn_parent x)).

Lemma under_tail : forall t n rest x, under t rest x -> under t (n :: rest) x.
Proof.
  intros t n rest x [Hx [H | [m [Hm P]]]]; split; auto.
  - left. right. auto.
  - right. exists m. split; auto. right. auto.
Qed.

Lemma under_children_anc : forall t r x, under t (children t r) x -> anc t r (tn_parent x).
Proof.
  intros t r x [Hx [H | [m [Hm [K A]]]]].
  - apply children_In in H. destruct H as [_ <-]. constructor.
  - apply children_In in Hm. destruct Hm as [Hm <-]. apply anc_head; auto.
Qed.

Lemma under_children_head : forall t n rest x, tn_kind n = KDir ->
  under t (children t (node_real n)) x -> under t (n :: rest) x.
Proof.
  intros t n rest x K U. split; [apply U|]. right. exists n. split; [left; auto|]. split; auto.
  apply under_children_anc. exact U.
Qed.

Lemma nodup_dir_tail : forall n rest,
  NoDup (map node_real (filter is_dir (n :: rest))) -> NoDup (map node_real (filter is_dir rest)).
Proof. intros n rest H. simpl in H. destruct (is_dir n); auto. inversion H; auto. Qed.

Lemma nodup_link_tail : forall n rest,
  NoDup (filter is_link (n :: rest)) -> NoDup (filter is_link rest).
Proof. intros n rest H. simpl in H. destruct (is_link n); auto. inversion H; auto. Qed.

Section Flat.
Variable rank : bytes -> nat.
Variable t : tree.
Hypothesis Hrank : acyclic_by rank t.
Hypothesis Huniq : dirs_unique t.
Hypothesis Hflat : flat_links t.

Lemma links_nodup : NoDup (links t).
Proof. destruct Hflat as [H _]. eapply NoDup_map_inv; eauto. Qed.

Lemma nodup_links_children : forall r, NoDup (filter is_link (children t r)).
Proof.
  intros r. unfold children. rewrite filter_comm. apply NoDup_filter. apply links_nodup.
Qed.

Lemma target_inj : forall a b, In a t -> In b t -> is_link a = true -> is_link b = true ->
  tn_target a = tn_target b -> a = b.
Proof.
  intros a b Ha Hb La Lb E. destruct Hflat as [H _].
  apply (NoDup_map_inj _ _ tn_target (links t)); auto; apply filter_In; auto.
Qed.

Lemma no_link_in_target : forall n x, In n t -> tn_kind n = KLinkDir ->
  under t (children t (tn_target n)) x -> is_link x = true -> False.
Proof.
  intros n x Hn K U L. destruct Hflat as [_ H].
  apply (H n x); auto; [apply U | apply is_link_kind; auto | apply under_children_anc; auto].
Qed.

Lemma anc_up_false : forall m, In m t -> tn_kind m = KDir -> anc t (node_real m) (tn_parent m) -> False.
Proof.
  intros m Hm K A. pose proof (Hrank m Hm K) as X.
  destruct (anc_rank rank t Hrank _ _ A) as [E|L]; [rewrite E in X|]; lia.
Qed.

(** (a) what lies below a directory entry does not lie below its later siblings *)
Lemma sub_rest_disjoint : forall n rest p x,
  incl (n :: rest) t -> (forall m, In m (n :: rest) -> tn_parent m = p) ->
  tn_kind n = KDir -> NoDup (map node_real (filter is_dir (n :: rest))) ->
  under t (children t (node_real n)) x -> under t rest x -> False.
Proof.
  intros n rest p x I Hp K N U1 U2.
  assert (Hn : In n t) by (apply I; left; auto).
  apply under_children_anc in U1.
  destruct U2 as [_ [H | [m [Hm [Km A]]]]].
  - apply (anc_up_false n); auto. rewrite (Hp n) by (left; auto).
    rewrite <- (Hp x) by (right; auto). exact U1.
  - simpl in N. unfold is_dir at 1 in N. rewrite K in N. simpl in N. inversion N as [|? ? Nn _]; subst.
    apply (sib_disjoint rank t Hrank Huniq n m (tn_parent x)); auto.
    + apply I. right. auto.
    + rewrite (Hp n), (Hp m); auto; [right | left]; auto.
    + intros E. apply Nn. rewrite E. apply in_map. apply filter_In. split; auto.
      apply is_dir_kind. auto.
Qed.

(** (b) a link entry does not lie among or below its later siblings *)
Lemma head_rest_disjoint : forall n rest p,
  incl (n :: rest) t -> (forall m, In m (n :: rest) -> tn_parent m = p) ->
  tn_kind n = KLinkDir -> NoDup (filter is_link (n :: rest)) ->
  under t rest n -> False.
Proof.
  intros n rest p I Hp K N [_ [H | [m [Hm [Km A]]]]].
  - simpl in N. unfold is_link at 1 in N. rewrite K in N. inversion N as [|? ? Nn _]; subst.
    apply Nn. apply filter_In. split; auto. apply is_link_kind. auto.
  - apply (anc_up_false m); auto; [apply I; right; auto|].
    rewrite (Hp m) by (right; auto). rewrite <- (Hp n) by (left; auto). exact A.
Qed.

(** The depth-first walk over entries below which no link target is cached enters every
    link it meets: it is the link-following walk, and it meets no target twice. *)
Lemma walk_full : forall all sp ents c jobs c',
  Walk t all sp ents c jobs c' ->
  incl ents t -> (exists p, forall n, In n ents -> tn_parent n = p) ->
  NoDup (map node_real (filter is_dir ents)) -> NoDup (filter is_link ents) ->
  (forall x, under t ents x -> is_link x = true -> mem (tn_target x) c = false) ->
  exists T, Full t all sp ents jobs T /\ NoDup T /\
    (forall y, In y T -> exists x, under t ents x /\ is_link x = true /\ tn_target x = y) /\
    (forall y, In y c' <-> In y c \/ In y T).
Proof.
  intros all sp ents c jobs c' W.
  induction W as [sp c
                 | sp n rest c j2 c2 K1 K2 W IH
                 | sp n rest c j2 c2 K S W IH
                 | sp n rest c j1 c1 j2 c2 K S W1 IH1 W2 IH2
                 | sp n rest c j2 c2 K M S W IH
                 | sp n rest c j2 c2 K M S W IH
                 | sp n rest c j1 c1 j2 c2 K M S W1 IH1 W2 IH2
                 | sp n rest c j2 c2 K M S W IH]; intros I [p Hp] Nd Nl Hc.
  - exists []. split; [constructor|]. split; [constructor|]. split; [intros y []|]. intros y. simpl. tauto.
  - destruct IH as [T [HF [N [Src Ch]]]].
    + intros m Hm. apply I. right. auto.
    + exists p. intros m Hm. apply Hp. right. auto.
    + eapply nodup_dir_tail; eauto.
    + eapply nodup_link_tail; eauto.
    + intros x U. apply Hc. apply under_tail. auto.
    + exists T. split; [apply F_other; auto|]. split; auto. split; auto.
      intros y Hy. destruct (Src y Hy) as [x [U P]]. exists x. split; auto. apply under_tail. auto.
  - destruct IH as [T [HF [N [Src Ch]]]].
    + intros m Hm. apply I. right. auto.
    + exists p. intros m Hm. apply Hp. right. auto.
    + eapply nodup_dir_tail; eauto.
    + eapply nodup_link_tail; eauto.
    + intros x U. apply Hc. apply under_tail. auto.
    + exists T. split; [apply F_dir_hidden; auto|]. split; auto. split; auto.
      intros y Hy. destruct (Src y Hy) as [x [U P]]. exists x. split; auto. apply under_tail. auto.
  - (* a directory: below it, then the later siblings *)
    assert (Hn : In n t) by (apply I; left; auto).
    destruct IH1 as [T1 [HF1 [N1 [Src1 Ch1]]]].
    + apply incl_children.
    + exists (node_real n). intros m Hm. apply children_In in Hm. tauto.
    + apply nodup_children. exact Huniq.
    + apply nodup_links_children.
    + intros x U. apply Hc. apply under_children_head; auto.
    + assert (Dis : forall x1 x2, under t (children t (node_real n)) x1 -> is_link x1 = true ->
                      under t rest x2 -> is_link x2 = true -> tn_target x1 <> tn_target x2).
      { intros x1 x2 U1 L1 U2 L2 E.
        assert (x1 = x2) by (apply target_inj; auto; [apply U1 | apply U2]). subst x2.
        eapply sub_rest_disjoint; eauto. }
      destruct IH2 as [T2 [HF2 [N2 [Src2 Ch2]]]].
      * intros m Hm. apply I. right. auto.
      * exists p. intros m Hm. apply Hp. right. auto.
      * eapply nodup_dir_tail; eauto.
      * eapply nodup_link_tail; eauto.
      * intros x U L. apply mem_false. intros X. apply Ch1 in X. destruct X as [X|X].
        -- apply mem_In in X. rewrite Hc in X; [discriminate | apply under_tail; auto | auto].
        -- destruct (Src1 _ X) as [x1 [U1 [L1 E1]]]. apply (Dis x1 x U1 L1 U L E1).
      * exists (T1 ++ T2). split; [apply F_dir; auto|]. split; [|split].
        -- apply NoDup_app_intro; auto. intros y Y1 Y2.
           destruct (Src1 _ Y1) as [x1 [U1 [L1 E1]]]. destruct (Src2 _ Y2) as [x2 [U2 [L2 E2]]].
           apply (Dis x1 x2 U1 L1 U2 L2). congruence.
        -- intros y Y. apply in_app_or in Y. destruct Y as [Y|Y].
           ++ destruct (Src1 _ Y) as [x [U P]]. exists x. split; auto. apply under_children_head; auto.
           ++ destruct (Src2 _ Y) as [x [U P]]. exists x. split; auto. apply under_tail; auto.
        -- intros y. rewrite Ch2, Ch1, in_app_iff. tauto.
  - (* a hidden link to a new target: cached, not entered *)
    assert (Hn : In n t) by (apply I; left; auto).
    assert (Ln : is_link n = true) by (apply is_link_kind; auto).
    assert (Dis : forall x, under t rest x -> is_link x = true -> tn_target x <> tn_target n).
    { intros x U L E. assert (x = n) by (apply target_inj; auto; apply U). subst x.
      eapply head_rest_disjoint; eauto. }
    destruct IH as [T [HF [N [Src Ch]]]].
    + intros m Hm. apply I. right. auto.
    + exists p. intros m Hm. apply Hp. right. auto.
    + eapply nodup_dir_tail; eauto.
    + eapply nodup_link_tail; eauto.
    + intros x U L. apply mem_false. intros [X|X].
      * apply (Dis x U L). auto.
      * apply mem_In in X. rewrite Hc in X; [discriminate | apply under_tail; auto | auto].
    + exists (tn_target n :: T). split; [apply F_link_hidden; auto|]. split; [|split].
      * constructor; auto. intros Y. destruct (Src _ Y) as [x [U [L E]]]. apply (Dis x U L E).
      * intros y [<-|Y].
        -- exists n. split; auto. split; auto. left. left. auto.
        -- destruct (Src _ Y) as [x [U P]]. exists x. split; auto. apply under_tail; auto.
      * intros y. rewrite Ch. simpl. tauto.
  - exfalso. rewrite Hc in M; [discriminate | | apply is_link_kind; auto].
    split; [apply I; left; auto | left; left; auto].
  - (* a link to a new target: below the target there is no link *)
    assert (Hn : In n t) by (apply I; left; auto).
    assert (Ln : is_link n = true) by (apply is_link_kind; auto).
    assert (Dis : forall x, under t rest x -> is_link x = true -> tn_target x <> tn_target n).
    { intros x U L E. assert (x = n) by (apply target_inj; auto; apply U). subst x.
      eapply head_rest_disjoint; eauto. }
    destruct IH1 as [T1 [HF1 [N1 [Src1 Ch1]]]].
    + apply incl_children.
    + exists (tn_target n). intros m Hm. apply children_In in Hm. tauto.
    + apply nodup_children. exact Huniq.
    + apply nodup_links_children.
    + intros x U L. exfalso. eapply no_link_in_target; eauto.
    + assert (E1 : forall y, ~ In y T1).
      { intros y Y. destruct (Src1 _ Y) as [x [U [L _]]]. eapply no_link_in_target; eauto. }
      destruct IH2 as [T2 [HF2 [N2 [Src2 Ch2]]]].
      * intros m Hm. apply I. right. auto.
      * exists p. intros m Hm. apply Hp. right. auto.
      * eapply nodup_dir_tail; eauto.
      * eapply nodup_link_tail; eauto.
      * intros x U L. apply mem_false. intros X. apply Ch1 in X. destruct X as [[X|X]|X].
        -- apply (Dis x U L). auto.
        -- apply mem_In in X. rewrite Hc in X; [discriminate | apply under_tail; auto | auto].
        -- apply (E1 _ X).
      * exists (tn_target n :: T1 ++ T2). split; [apply F_link; auto|]. split; [|split].
        -- constructor.
           ++ intros Y. apply in_app_or in Y. destruct Y as [Y|Y]; [apply (E1 _ Y)|].
              destruct (Src2 _ Y) as [x [U [L E]]]. apply (Dis x U L E).
           ++ apply NoDup_app_intro; auto. intros y Y _. apply (E1 _ Y).
        -- intros y [<-|Y].
           ++ exists n. split; auto. split; auto. left. left. auto.
           ++ apply in_app_or in Y. destruct Y as [Y|Y]; [destruct (E1 _ Y)|].
              destruct (Src2 _ Y) as [x [U P]]. exists x. split; auto. apply under_tail; auto.
        -- intros y. rewrite Ch2, Ch1. simpl. rewrite in_app_iff. tauto.
  - exfalso. rewrite Hc in M; [discriminate | | apply is_link_kind; auto].
    split; [apply I; left; auto | left; left; auto].
Qed.

(** from a root: every link entry of the tree is met at most once ([NoDup T], the targets
    being those of distinct entries), each time with its target not cached *)
Lemma walk_root_full : forall all root real cache j c',
  (forall n, In n t -> tn_kind n = KLinkDir -> mem (tn_target n) cache = false) ->
  Walk t all root (children t real) cache j c' ->
  exists T, Full t all root (children t real) j T /\ NoDup T /\ (forall x, In x T -> ~ In x cache) /\
            (forall y, In y T -> exists x, In x t /\ tn_kind x = KLinkDir /\ tn_target x = y) /\
            (forall y, In y c' <-> In y cache \/ In y T).
Proof.
  intros all root real cache j c' Hc W.
  destruct (walk_full _ _ _ _ _ _ W) as [T [HF [N [Src Ch]]]].
  - apply incl_children.
  - exists real. intros m Hm. apply children_In in Hm. tauto.
  - apply nodup_children. exact Huniq.
  - apply nodup_links_children.
  - intros x U L. apply Hc; [apply U | apply is_link_kind; auto].
  - exists T. split; auto. split; auto. split; [|split; auto].
    + intros y Y. destruct (Src _ Y) as [x [U [L E]]]. subst y.
      apply mem_false. apply Hc; [apply U | apply is_link_kind; auto].
    + intros y Y. destruct (Src _ Y) as [x [U [L E]]]. exists x. split; [apply U|].
      split; auto. apply is_link_kind. auto.
Qed.

End Flat.

(** Theorem 2.  On a well-formed tree with flat links, started with a cache that holds no
    link target of the tree, every complete run lists, up to order, the jobs of the depth
    first model. *)
Theorem any_schedule_is_the_model : forall t all root real cache s,
  wf_tree t -> flat_links t ->
  (forall n, In n t -> tn_kind n = KLinkDir -> mem (tn_target n) cache = false) ->
  wsteps t all (winit t all root real cache) s -> wfinal s ->
  Permutation (ws_jobs s) (fst (walk_root t all root real cache)).
Proof.
  intros t all root real cache s [[rank Hrank] Huniq] Hflat Hc H F.
  destruct (walk_root_fuel_enough t all root real cache (ex_intro _ rank Hrank)) as [_ W].
  destruct (walk_root t all root real cache) as [jobs c']. simpl in *.
  inversion W as [S | j c0 S Wj]; subst.
  - rewrite winit_eq, S in H. inversion H as [|? ? ? X]; subst; [apply Permutation_refl|].
    inversion X as [pre ? ? ? ? ? ? ? E | pre ? ? ? ? ? E]; destruct pre; discriminate.
  - destruct (walk_root_full rank t Hrank Huniq Hflat all root real cache j c' Hc Wj)
      as [T [HF [N [D _]]]].
    pose proof (any_schedule_generic t all root real cache j T s HF N D H F) as P.
    unfold root_spec in P. rewrite S in P. exact P.
Qed.

Theorem any_schedule_same_jobs : forall t all root real cache s1 s2,
  wf_tree t -> flat_links t ->
  (forall n, In n t -> tn_kind n = KLinkDir -> mem (tn_target n) cache = false) ->
  wsteps t all (winit t all root real cache) s1 -> wfinal s1 ->
  wsteps t all (winit t all root real cache) s2 -> wfinal s2 ->
  Permutation (ws_jobs s1) (ws_jobs s2).
Proof.
  intros t all root real cache s1 s2 Hwf Hflat Hc H1 F1 H2 F2.
  eapply Permutation_trans.
  - eapply any_schedule_is_the_model; eauto.
  - apply Permutation_sym. eapply any_schedule_is_the_model; eauto.
Qed.

Corollary any_schedule_same_jobs_empty_cache : forall t all root real s1 s2,
  wf_tree t -> flat_links t ->
  wsteps t all (winit t all root real []) s1 -> wfinal s1 ->
  wsteps t all (winit t all root real []) s2 -> wfinal s2 ->
  Permutation (ws_jobs s1) (ws_jobs s2).
Proof.
  intros t all root real s1 s2 Hwf Hflat H1 F1 H2 F2.
  apply (any_schedule_same_jobs t all root real [] s1 s2); auto.
Qed.

(* ------------------------------------------------------------------ *)
(** ** The jobs without reference to any walk

    [lreach t all s r s' r']: the pair [(s', r')] is [(s, r)] or is reached from it through
    entries that are not skipped, a KDir entry leading to its directory, a KLinkDir entry
    to its target.  The link-following walk lists exactly these pairs; with flat links a
    path to a pair goes through at most one link. *)
Definition enters (n : tnode) (r1 : bytes) : Prop :=
  (tn_kind n = KDir /\ r1 = node_real n) \/ (tn_kind n = KLinkDir /\ r1 = tn_target n).

Inductive lreach (t : tree) (all : bool) : bytes -> bytes -> bytes -> bytes -> Prop :=
| lreach_refl : forall s r, lreach t all s r s r
| lreach_step : forall s r n r1 s' r',
    In n t -> tn_parent n = r -> enters n r1 ->
    skipped all (join_path s (tn_name n)) = false ->
    lreach t all (join_path s (tn_name n)) r1 s' r' ->
    lreach t all s r s' r'.

Definition lfrom_ents (t : tree) (all : bool) (sp : bytes) (ents : list tnode) (s' r' : bytes) : Prop :=
  exists n r1, In n ents /\ enters n r1 /\ skipped all (join_path sp (tn_name n)) = false /\
               lreach t all (join_path sp (tn_name n)) r1 s' r'.

Lemma lfrom_ents_cons : forall t all sp n rest s' r',
  lfrom_ents t all sp (n :: rest) s' r' <->
  (exists r1, enters n r1 /\ skipped all (join_path sp (tn_name n)) = false /\
              lreach t all (join_path sp (tn_name n)) r1 s' r') \/
  lfrom_ents t all sp rest s' r'.
Proof.
  intros. unfold lfrom_ents. split.
  - intros [m [r1 [[<-|Hm] P]]]; [left; exists r1; exact P | right; exists m, r1; auto].
  - intros [[r1 P] | [m [r1 [Hm P]]]]; [exists n, r1; split; [left; auto | exact P]
                                       | exists m, r1; split; [right; auto | exact P]].
Qed.

Lemma lreach_unfold : forall t all s r s' r',
  lreach t all s r s' r' <-> (s' = s /\ r' = r) \/ lfrom_ents t all s (children t r) s' r'.
Proof.
  intros. split.
  - intros H. inversion H; subst; auto.
    right. exists n, r1. split; [apply children_In; auto|]. auto.
  - intros [[-> ->] | [n [r1 [Hn [E [S R]]]]]]; [constructor|].
    apply children_In in Hn. destruct Hn as [Hn P].
    eapply lreach_step; eauto.
Qed.

Lemma full_jobs_char : forall t all sp ents J T,
  Full t all sp ents J T ->
  forall s' r', In (s', r') J <-> lfrom_ents t all sp ents s' r'.
Proof.
  intros t all sp ents J T H.
  induction H as [sp | sp n rest J T K1 K2 H IH | sp n rest J T K S H IH
                 | sp n rest J1 T1 J2 T2 K S H1 IH1 H2 IH2
                 | sp n rest J T K S H IH
                 | sp n rest J1 T1 J2 T2 K S H1 IH1 H2 IH2]; intros s' r'.
  - split; [intros [] | intros [m [r1 [[] _]]]].
  - rewrite lfrom_ents_cons, <- IH. split; auto.
    intros [[r1 [[[K _]|[K _]] _]] | X]; auto; congruence.
  - rewrite lfrom_ents_cons, <- IH. split; auto.
    intros [[r1 [_ [S' _]]] | X]; auto; congruence.
  - rewrite lfrom_ents_cons, <- IH2. simpl. rewrite in_app_iff. split.
    + intros [E | [X | X]]; auto.
      * inversion E; subst. left. exists (node_real n). split; [left; auto|]. split; auto. constructor.
      * left. exists (node_real n). split; [left; auto|]. split; auto.
        apply lreach_unfold. right. apply IH1. exact X.
    + intros [[r1 [[[_ ->]|[K' _]] [_ R]]] | X]; auto; [|congruence].
      apply lreach_unfold in R. destruct R as [[-> ->] | R]; auto.
      right. left. apply IH1. exact R.
  - rewrite lfrom_ents_cons, <- IH. split; auto.
    intros [[r1 [_ [S' _]]] | X]; auto; congruence.
  - rewrite lfrom_ents_cons, <- IH2. simpl. rewrite in_app_iff. split.
    + intros [E | [X | X]]; auto.
      * inversion E; subst. left. exists (tn_target n). split; [right; auto|]. split; auto. constructor.
      * left. exists (tn_target n). split; [right; auto|]. split; auto.
        apply lreach_unfold. right. apply IH1. exact X.
    + intros [[r1 [[[K' _]|[_ ->]] [_ R]]] | X]; auto; [congruence|].
      apply lreach_unfold in R. destruct R as [[-> ->] | R]; auto.
      right. left. apply IH1. exact R.
Qed.

(** a path without links is a path of [WalkProofs.reach], and conversely *)
Lemma reach_lreach : forall t all s r s' r', reach t all s r s' r' -> lreach t all s r s' r'.
Proof.
  induction 1; [constructor|]. eapply lreach_step; eauto. left. auto.
Qed.

(** with flat links: below a link target the paths meet no link, so a path goes through
    no link, or through exactly one (the suggested specification (a) + (b)) *)
Lemma lreach_flat : forall t all s r s' r',
  flat_links t -> lreach t all s r s' r' ->
  reach t all s r s' r' \/
  exists s1 r1 n, reach t all s r s1 r1 /\ In n t /\ tn_kind n = KLinkDir /\ tn_parent n = r1 /\
                  skipped all (join_path s1 (tn_name n)) = false /\
                  reach t all (join_path s1 (tn_name n)) (tn_target n) s' r'.
Proof.
  intros t all s r s' r' Hflat H.
  induction H as [s r | s r n r1 s' r' Hn P E S H IH]; [left; constructor|].
  destruct E as [[K ->] | [K ->]].
  - destruct IH as [R | [s1 [r1 [m [R [Hm [Km [Pm [Sm R2]]]]]]]]].
    + left. apply (reach_step t all s r n s' r'); auto.
    + right. exists s1, r1, m. split; [apply (reach_step t all s r n s1 r1); auto|]. auto.
  - right. exists s, r, n. split; [constructor|]. repeat (split; auto).
    destruct IH as [R | [s1 [r1 [m [R [Hm [Km [Pm [Sm R2]]]]]]]]]; auto.
    exfalso. destruct Hflat as [_ F]. apply (F n m Hn K Hm Km). rewrite Pm.
    eapply reach_anc; eauto.
Qed.

(** Theorem 2, by membership: under the hypotheses of [any_schedule_same_jobs] a complete
    run lists exactly the pairs reachable from the root *)
Theorem any_schedule_jobs_exactly : forall t all root real cache s,
  wf_tree t -> flat_links t ->
  (forall n, In n t -> tn_kind n = KLinkDir -> mem (tn_target n) cache = false) ->
  skipped all root = false ->
  wsteps t all (winit t all root real cache) s -> wfinal s ->
  forall s' r', In (s', r') (ws_jobs s) <-> lreach t all root real s' r'.
Proof.
  intros t all root real cache s Hwf Hflat Hc S H F s' r'.
  pose proof (any_schedule_is_the_model t all root real cache s Hwf Hflat Hc H F) as P.
  destruct Hwf as [[rank Hrank] Huniq].
  destruct (walk_root_fuel_enough t all root real cache (ex_intro _ rank Hrank)) as [_ W].
  destruct (walk_root t all root real cache) as [jobs c']. simpl in *.
  inversion W as [X | j c0 _ Wj]; subst; [congruence|].
  destruct (walk_root_full rank t Hrank Huniq Hflat all root real cache j c' Hc Wj) as [T [HF _]].
  rewrite lreach_unfold, <- (full_jobs_char _ _ _ _ _ _ HF).
  split.
  - intros X. apply (Permutation_in _ P) in X. destruct X as [E|X]; auto. inversion E; auto.
  - intros X. apply (Permutation_in _ (Permutation_sym P)).
    destruct X as [[-> ->]|X]; [left; auto | right; auto].
Qed.

(* ------------------------------------------------------------------ *)
(** * 3. Every schedule terminates *)

(** what reading a directory can cost when the real tree below it has at most [d] levels
    of entries (in a tree of [N] entries) *)
Fixpoint Wk (N d : nat) : nat :=
  match d with
  | O => 1
  | S d' => S (Wk N d' + N * S (Wk N d'))
  end.

(** the explicit bound on the length of a run: it depends on the number of entries only *)
Definition wbound (N : nat) : nat := S N * Wk N N.

Lemma Wk_pos : forall N d, 1 <= Wk N d.
Proof. destruct d; simpl; lia. Qed.

Lemma Wk_mono : forall N d d', d <= d' -> Wk N d <= Wk N d'.
Proof.
  intros N d d' L. induction L; auto. simpl. lia.
Qed.

Section Measure.
Variable rank : bytes -> nat.
Variable t : tree.
Hypothesis Hrank : acyclic_by rank t.

Let N := List.length t.
Let B := Wk N N.

(** the number of entries at the level of [r] or deeper: it strictly decreases from a
    directory to its sub-directories *)
Definition dd (r : bytes) : nat := below rank t (rank r).

Definition ecost (x : tnode) : nat := 1 + (if is_dir x then Wk N (dd (node_real x)) else 0).
Fixpoint esum (ents : list tnode) : nat :=
  match ents with [] => 0 | x :: r => ecost x + esum r end.
Definition icost (ents : list tnode) : nat := 1 + esum ents.
Fixpoint pcost (P : list work) : nat :=
  match P with [] => 0 | w :: r => icost (w_ents w) + pcost r end.

(** the measure: the cost of the pending work, plus one whole tree for every link entry
    whose target is not cached yet *)
Definition mu (s : wstate) : nat := pcost (ws_pending s) + pending t (ws_cache s) * B.

Lemma pcost_app : forall a b, pcost (a ++ b) = pcost a + pcost b.
Proof. induction a; simpl; intros; auto. rewrite IHa. lia. Qed.

Lemma esum_bound : forall l b, (forall y, In y l -> ecost y <= b) -> esum l <= List.length l * b.
Proof.
  induction l as [|a l IH]; intros b H; [simpl; auto|].
  cbn [esum List.length Nat.mul].
  pose proof (H a (or_introl eq_refl)). pose proof (IH b (fun y Hy => H y (or_intror Hy))). lia.
Qed.

Lemma dd_le : forall r, dd r <= N.
Proof. intros. apply below_le. Qed.

Lemma icost_children : forall r, icost (children t r) <= Wk N (dd r).
Proof.
  intros r. pose proof (below_children rank t r) as X. fold (dd r) in X.
  destruct (children t r) as [|y0 l] eqn:E.
  - unfold icost. simpl. apply Wk_pos.
  - rewrite <- E in *.
    assert (K : 1 <= List.length (children t r)) by (rewrite E; simpl; lia).
    destruct (dd r) as [|d'] eqn:Ed; [lia|].
    assert (Hy : forall y, In y (children t r) -> ecost y <= S (Wk N d')).
    { intros y Hy. unfold ecost. destruct (is_dir y) eqn:Dy; [|lia].
      apply children_In in Hy. destruct Hy as [Hy Py].
      apply is_dir_kind in Dy. pose proof (Hrank y Hy Dy) as R. rewrite Py in R.
      pose proof (below_anti rank t (S (rank r)) (rank (node_real y)) R) as A.
      assert (Dle : dd (node_real y) <= d') by (unfold dd; lia).
      pose proof (Wk_mono N _ _ Dle). lia. }
    pose proof (esum_bound _ _ Hy) as Sum.
    assert (L : List.length (children t r) <= N) by (unfold children, N; apply filter_len_all).
    pose proof (Nat.mul_le_mono_r _ _ (S (Wk N d')) L).
    unfold icost. simpl. lia.
Qed.

Lemma icost_children_B : forall r, icost (children t r) <= B.
Proof.
  intros r. eapply Nat.le_trans; [apply icost_children|]. apply Wk_mono. apply dd_le.
Qed.

(** one entry: the work it creates and what it does to the cache cost less than the entry *)
Lemma wnode_measure : forall all sp n c, In n t ->
  pcost (wo_new (wnode t all sp n c)) + pending t (wo_cache (wnode t all sp n c)) * B
  < ecost n + pending t c * B.
Proof.
  intros all sp n c Hn. rewrite wnode_eq. cbv zeta. unfold ecost, is_dir.
  destruct (tn_kind n) eqn:K; cbn [wo_new wo_cache pcost w_ents]; try lia.
  - destruct (skipped all _); cbn [wo_new wo_cache pcost w_ents]; [lia|].
    pose proof (icost_children (node_real n)). lia.
  - destruct (mem (tn_target n) c) eqn:M; destruct (skipped all _); cbn [wo_new wo_cache pcost w_ents]; try lia.
    + pose proof (Nat.mul_le_mono_r _ _ B (pending_fresh t n c Hn K M)) as H.
      cbn [Nat.mul] in H. lia.
    + pose proof (Nat.mul_le_mono_r _ _ B (pending_fresh t n c Hn K M)) as H.
      cbn [Nat.mul] in H.
      pose proof (icost_children_B (tn_target n)). lia.
Qed.

Lemma wnode_new_in : forall all sp n c w, In w (wo_new (wnode t all sp n c)) -> incl (w_ents w) t.
Proof.
  intros all sp n c w. rewrite wnode_eq. cbv zeta.
  destruct (tn_kind n); simpl; try tauto.
  - destruct (skipped all _); simpl; [tauto|]. intros [<-|[]]. apply incl_children.
  - destruct (mem _ _); destruct (skipped all _); simpl; try tauto.
    intros [<-|[]]. apply incl_children.
Qed.

(** the entries that are pending are entries of the tree *)
Definition ents_in (s : wstate) : Prop := forall w, In w (ws_pending s) -> incl (w_ents w) t.

Lemma ents_in_init : forall all root real c, ents_in (winit t all root real c).
Proof.
  intros. rewrite winit_eq. unfold ents_in. destruct (skipped all root); simpl; [tauto|].
  intros w [<-|[]]. apply incl_children.
Qed.

(** the measure decreases at every step *)
Lemma wstep_decreases : forall all s s', ents_in s -> wstep t all s s' -> mu s' < mu s /\ ents_in s'.
Proof.
  intros all s s' I H.
  destruct H as [pre post sp n rest c j f | pre post sp c j f]; unfold mu, ents_in in *;
    cbn [ws_pending ws_cache] in *.
  - assert (Hn : In n t).
    { apply (I (mkWork sp (n :: rest))); [apply in_or_app; right; left; auto | left; auto]. }
    split.
    + pose proof (wnode_measure all sp n c Hn).
      rewrite !pcost_app. cbn [pcost w_ents]. unfold icost. cbn [esum]. lia.
    + intros w Hw. apply in_app_or in Hw. destruct Hw as [Hw|Hw]; [eapply wnode_new_in; eauto|].
      apply in_app_or in Hw. destruct Hw as [Hw|[<-|Hw]].
      * apply I. apply in_or_app. auto.
      * simpl. intros m Hm.
        apply (I (mkWork sp (n :: rest))); [apply in_or_app; right; left; auto | right; auto].
      * apply I. apply in_or_app. right. right. auto.
  - split.
    + rewrite !pcost_app. cbn [pcost w_ents]. unfold icost. cbn [esum]. lia.
    + intros w Hw. apply I. apply in_app_or in Hw. apply in_or_app. destruct Hw; auto. right. right. auto.
Qed.

Lemma wstepsn_measure : forall all k s s', wstepsn t all k s s' -> ents_in s -> mu s' + k <= mu s /\ ents_in s'.
Proof.
  induction 1 as [s | k s1 s2 s3 H1 _ IH]; intros I; [split; auto; lia|].
  destruct (wstep_decreases all _ _ I H1) as [L I2]. destruct (IH I2) as [L' I3]. split; auto. lia.
Qed.

Lemma mu_init : forall all root real c, mu (winit t all root real c) <= wbound N.
Proof.
  intros. rewrite winit_eq. unfold mu, wbound. fold B.
  pose proof (Nat.mul_le_mono_r _ _ B (pending_le t c)) as Hp. fold N in Hp.
  change (S N * B) with (B + N * B).
  destruct (skipped all root); cbn [ws_pending ws_cache pcost w_ents]; [lia|].
  pose proof (icost_children_B real). lia.
Qed.

(** a state that is not final can move *)
Lemma wstep_progress : forall all s, ~ wfinal s -> exists s', wstep t all s s'.
Proof.
  intros all [P c j f] NF. unfold wfinal in NF. simpl in NF.
  destruct P as [|[sp ents] P]; [congruence|].
  destruct ents as [|n rest]; eexists.
  - apply (wstep_drop t all [] P).
  - apply (wstep_entry t all [] P).
Qed.

Lemma wfinal_dec : forall s, wfinal s \/ ~ wfinal s.
Proof. intros [P c j f]. unfold wfinal. simpl. destruct P; [left; auto | right; congruence]. Qed.

Lemma runs_to_final : forall all m s, mu s < m -> ents_in s -> exists s', wsteps t all s s' /\ wfinal s'.
Proof.
  induction m; intros s L I; [lia|].
  destruct (wfinal_dec s) as [F|NF]; [exists s; split; auto; constructor|].
  destruct (wstep_progress all s NF) as [s1 H1].
  destruct (wstep_decreases all _ _ I H1) as [L1 I1].
  destruct (IHm s1) as [s' [H' F']]; auto; [lia|].
  exists s'. split; auto. eapply wsteps_step; eauto.
Qed.

End Measure.

(** Theorem 3.  On a tree whose real directories nest finitely (links may be cyclic,
    aliased, nested): a measure strictly decreases at every step of every run from
    [winit]; no run has more than [wbound (length t)] steps; every run can be completed,
    and is complete as soon as it cannot move. *)
Theorem any_schedule_terminates : forall t all root real cache,
  acyclic t ->
  (exists measure : wstate -> nat,
     measure (winit t all root real cache) <= wbound (List.length t) /\
     forall s s', wsteps t all (winit t all root real cache) s -> wstep t all s s' -> measure s' < measure s) /\
  (forall k s, wstepsn t all k (winit t all root real cache) s -> k <= wbound (List.length t)) /\
  (forall s, wsteps t all (winit t all root real cache) s -> exists s', wsteps t all s s' /\ wfinal s') /\
  (forall s, wfinal s \/ exists s', wstep t all s s').
Proof.
  intros t all root real cache [rank Hrank].
  assert (Reach : forall s, wsteps t all (winit t all root real cache) s -> ents_in t s).
  { intros s H. destruct (wsteps_wstepsn _ _ _ _ H) as [k Hk].
    apply (wstepsn_measure rank t Hrank all k _ _ Hk). apply ents_in_init. }
  split; [|split; [|split]].
  - exists (mu rank t). split; [apply mu_init; exact Hrank|].
    intros s s' H1 H2. apply (wstep_decreases rank t Hrank all); auto.
  - intros k s H.
    destruct (wstepsn_measure rank t Hrank all k _ _ H (ents_in_init t all root real cache)) as [L _].
    pose proof (mu_init rank t Hrank all root real cache). lia.
  - intros s H. apply (runs_to_final rank t Hrank all (S (mu rank t s))); auto.
  - intros s. destruct (wfinal_dec s) as [F|NF]; auto. right. apply wstep_progress. exact NF.
Qed.

(* ------------------------------------------------------------------ *)
(** * Checkers for concrete trees *)

Fixpoint bnodup (l : list bytes) : bool :=
  match l with [] => true | a :: r => negb (mem a r) && bnodup r end.

Lemma bnodup_sound : forall l, bnodup l = true -> NoDup l.
Proof.
  induction l as [|a r IH]; simpl; intros H; [constructor|].
  apply andb_true_iff in H. destruct H as [H1 H2]. constructor; auto.
  apply mem_false. destruct (mem a r); auto; discriminate.
Qed.

Definition dirs_uniqueb (t : tree) : bool := bnodup (map node_real (filter is_dir t)).

Lemma dirs_uniqueb_sound : forall t, dirs_uniqueb t = true -> dirs_unique t.
Proof. intros t H. apply bnodup_sound. exact H. Qed.

(** real directories AND link edges nest finitely: no cycle of any kind *)
Definition link_acyclic (t : tree) : Prop :=
  exists rank, acyclic_by rank t /\
    forall n, In n t -> tn_kind n = KLinkDir -> rank (tn_parent n) < rank (tn_target n).

Definition rank_of (l : list (bytes * nat)) (r : bytes) : nat :=
  match find (fun p => beq (fst p) r) l with Some p => snd p | None => 0 end.

Definition rank_okb (rank : bytes -> nat) (t : tree) : bool :=
  forallb (fun n => match tn_kind n with
                    | KDir => Nat.ltb (rank (tn_parent n)) (rank (node_real n))
                    | KLinkDir => Nat.ltb (rank (tn_parent n)) (rank (tn_target n))
                    | _ => true
                    end) t.

Lemma rank_okb_sound : forall rank t, rank_okb rank t = true -> link_acyclic t /\ acyclic t.
Proof.
  intros rank t H. unfold rank_okb in H. rewrite forallb_forall in H.
  assert (A : acyclic_by rank t).
  { intros n Hn K. specialize (H n Hn). rewrite K in H. apply Nat.ltb_lt. exact H. }
  split; [|exists rank; exact A].
  exists rank. split; auto.
  intros n Hn K. specialize (H n Hn). rewrite K in H. apply Nat.ltb_lt. exact H.
Qed.

(** a set of real paths closed under "has the KDir entry" *)
Definition closedb (t : tree) (S : list bytes) : bool :=
  forallb (fun n => negb (is_dir n && mem (tn_parent n) S) || mem (node_real n) S) t.
Definition close1 (t : tree) (S : list bytes) : list bytes :=
  S ++ map node_real (filter (fun n => is_dir n && mem (tn_parent n) S) t).
Definition closure (t : tree) (r : bytes) : list bytes := Nat.iter (List.length t) (close1 t) [r].

Lemma anc_closed : forall t S r r', closedb t S = true -> mem r S = true -> anc t r r' -> mem r' S = true.
Proof.
  intros t S r r' C M A. induction A as [r | r r1 n r' A IH Hn K P E]; auto.
  specialize (IH M). unfold closedb in C. rewrite forallb_forall in C. specialize (C n Hn).
  apply is_dir_kind in K. rewrite K, P, IH in C. simpl in C. subst r'. exact C.
Qed.

Definition flat_linksb (t : tree) : bool :=
  bnodup (map tn_target (links t)) &&
  forallb (fun n =>
             let S := closure t (tn_target n) in
             closedb t S && mem (tn_target n) S &&
             forallb (fun x => negb (mem (tn_parent x) S)) (links t)) (links t).

Lemma flat_linksb_sound : forall t, flat_linksb t = true -> flat_links t.
Proof.
  intros t H. unfold flat_linksb in H. apply andb_true_iff in H. destruct H as [H1 H2].
  split; [apply bnodup_sound; exact H1|].
  intros n x Hn Kn Hx Kx A.
  rewrite forallb_forall in H2.
  assert (Ln : In n (links t)) by (apply filter_In; split; auto; apply is_link_kind; auto).
  assert (Lx : In x (links t)) by (apply filter_In; split; auto; apply is_link_kind; auto).
  specialize (H2 n Ln). cbv zeta in H2.
  apply andb_true_iff in H2. destruct H2 as [H2 H3].
  apply andb_true_iff in H2. destruct H2 as [C M].
  rewrite forallb_forall in H3. specialize (H3 x Lx).
  rewrite (anc_closed _ _ _ _ C M A) in H3. discriminate.
Qed.

(** counting one job in a list of jobs *)
Definition jobb (a b : bytes * bytes) : bool := beq (fst a) (fst b) && beq (snd a) (snd b).
Definition jcount (x : bytes * bytes) (l : list (bytes * bytes)) : nat := List.length (filter (jobb x) l).

Lemma perm_jcount : forall x l l', Permutation l l' -> jcount x l = jcount x l'.
Proof.
  intros x l l' P. unfold jcount. induction P; simpl; auto.
  - destruct (jobb x x0); simpl; auto.
  - destruct (jobb x x0); destruct (jobb x y); simpl; auto.
  - congruence.
Qed.

(** two computed runs that list some job a different number of times *)
Lemma witness_by_runs : forall t all root real ch1 ch2 fuel x,
  wfinalb (wrun fuel t all ch1 (winit t all root real [])) = true ->
  wfinalb (wrun fuel t all ch2 (winit t all root real [])) = true ->
  jcount x (ws_jobs (wrun fuel t all ch1 (winit t all root real []))) <>
  jcount x (ws_jobs (wrun fuel t all ch2 (winit t all root real []))) ->
  exists s1 s2,
    wsteps t all (winit t all root real []) s1 /\ wfinal s1 /\
    wsteps t all (winit t all root real []) s2 /\ wfinal s2 /\
    ~ Permutation (ws_jobs s1) (ws_jobs s2).
Proof.
  intros t all root real ch1 ch2 fuel x F1 F2 C.
  exists (wrun fuel t all ch1 (winit t all root real [])), (wrun fuel t all ch2 (winit t all root real [])).
  split; [apply wrun_is_wsteps|]. split; [apply wfinalb_final; auto|].
  split; [apply wrun_is_wsteps|]. split; [apply wfinalb_final; auto|].
  intros P. apply C. apply perm_jcount. exact P.
Qed.

(* ------------------------------------------------------------------ *)
(** * 4. Links that are not flat: the jobs depend on the schedule *)

Module SchedExamples.
Import WalkExamples.

Definition dot : bytes := s2b ".".
Definition run (t : tree) (all : bool) (choose : list nat) : wstate := wrun 100 t all choose (winit t all dot dot []).

(** ** a link below the target of another link: [a/x -> b], [b/y -> c] *)
Definition nested : tree := [D "." "a"; D "." "b"; D "." "c"; D "c" "d"; L "a" "x" "b"; L "b" "y" "c"].
Definition nested_rank : bytes -> nat :=
  rank_of [(s2b ".", 0); (s2b "a", 1); (s2b "b", 2); (s2b "c", 3); (s2b "c/d", 4)].
(** depth first: [b] is first entered through [a/x], so [b/y] is met as [./a/x/y] first *)
Definition nested_sched1 : list nat := [].
(** the three entries of the root first, then [b] before [a]: [b/y] is met as [./b/y] first *)
Definition nested_sched2 : list nat := [0; 1; 2; 3; 3; 3; 3].

Example nested_run1 : ws_jobs (run nested false nested_sched1) =
  [P "." "."; P "./a" "a"; P "./a/x" "b"; P "./a/x/y" "c"; P "./a/x/y/d" "c/d";
   P "./b" "b"; P "./b/y" "c"; P "./c" "c"; P "./c/d" "c/d"].
Proof. vm_compute. reflexivity. Qed.

Example nested_run2 : ws_jobs (run nested false nested_sched2) =
  [P "." "."; P "./a" "a"; P "./b" "b"; P "./c" "c"; P "./c/d" "c/d";
   P "./a/x" "b"; P "./b/y" "c"; P "./b/y/d" "c/d"; P "./a/x/y" "c"].
Proof. vm_compute. reflexivity. Qed.

Lemma nested_wf : wf_tree nested /\ link_acyclic nested.
Proof.
  destruct (rank_okb_sound nested_rank nested) as [LA A]; [vm_compute; reflexivity|].
  split; auto. split; auto. apply dirs_uniqueb_sound. vm_compute. reflexivity.
Qed.

Lemma nested_not_flat : ~ flat_links nested /\ NoDup (map tn_target (links nested)).
Proof.
  split.
  - intros [_ H]. apply (H (L "a" "x" "b") (L "b" "y" "c")); try reflexivity.
    + simpl. tauto.
    + simpl. tauto.
    + apply anc_refl.
  - apply bnodup_sound. vm_compute. reflexivity.
Qed.

(** ** two links to one target, nothing nested: [a/x -> b], [y -> b] *)
Definition alias : tree := [D "." "a"; D "." "b"; D "b" "c"; L "a" "x" "b"; L "." "y" "b"].
Definition alias_rank : bytes -> nat := rank_of [(s2b ".", 0); (s2b "a", 1); (s2b "b", 2); (s2b "b/c", 3)].

Example alias_run1 : ws_jobs (run alias false []) =
  [P "." "."; P "./a" "a"; P "./a/x" "b"; P "./a/x/c" "b/c"; P "./b" "b"; P "./b/c" "b/c"; P "./y" "b"].
Proof. vm_compute. reflexivity. Qed.

Example alias_run2 : ws_jobs (run alias false [0; 1; 2; 3]) =
  [P "." "."; P "./a" "a"; P "./b" "b"; P "./y" "b"; P "./y/c" "b/c"; P "./b/c" "b/c"; P "./a/x" "b"].
Proof. vm_compute. reflexivity. Qed.

(** ** a hidden link caches its target and starves the visible link to the same target:
       one job less ([.l -> b] before [a/x -> b]) *)
Definition starved : tree := [D "." "a"; D "." "b"; D "b" "c"; L "a" "x" "b"; L "." ".l" "b"].

Example starved_run1 : ws_jobs (run starved false []) =
  [P "." "."; P "./a" "a"; P "./a/x" "b"; P "./a/x/c" "b/c"; P "./b" "b"; P "./b/c" "b/c"].
Proof. vm_compute. reflexivity. Qed.

Example starved_run2 : ws_jobs (run starved false [0; 1; 2; 3]) =
  [P "." "."; P "./a" "a"; P "./b" "b"; P "./b/c" "b/c"; P "./a/x" "b"].
Proof. vm_compute. reflexivity. Qed.

(** ** flat links: three links (one hidden), the target [b] also visited as [./b] *)
Definition flat2 : tree :=
  [D "." "a"; D "." "b"; D "b" "c"; D "." "e"; D "e" ".h"; D "e" "k"; F "b" "f"; D "." "g";
   L "a" "x" "b"; L "." "y" "e"; L "a" ".z" "g"].

Lemma flat2_ok : wf_tree flat2 /\ flat_links flat2 /\ List.length (links flat2) = 3.
Proof.
  split; [|split; [|reflexivity]].
  - split.
    + apply no_dot_acyclic. intros n H K E. simpl in H.
      repeat (destruct H as [<-|H]; [vm_compute in E; discriminate|]). contradiction.
    + apply dirs_uniqueb_sound. vm_compute. reflexivity.
  - apply flat_linksb_sound. vm_compute. reflexivity.
Qed.

Example flat2_model : fst (walk_root flat2 false dot dot []) =
  [P "." "."; P "./a" "a"; P "./a/x" "b"; P "./a/x/c" "b/c"; P "./b" "b"; P "./b/c" "b/c";
   P "./e" "e"; P "./e/k" "e/k"; P "./g" "g"; P "./y" "e"; P "./y/k" "e/k"].
Proof. vm_compute. reflexivity. Qed.

Example flat2_other_schedule : ws_jobs (run flat2 false [0; 1; 2; 3; 4; 5; 4; 3; 2; 1; 0; 7; 5; 3]) =
  [P "." "."; P "./a" "a"; P "./b" "b"; P "./e" "e"; P "./g" "g"; P "./y" "e";
   P "./a/x" "b"; P "./a/x/c" "b/c"; P "./e/k" "e/k"; P "./y/k" "e/k"; P "./b/c" "b/c"]
  /\ wfinalb (run flat2 false [0; 1; 2; 3; 4; 5; 4; 3; 2; 1; 0; 7; 5; 3]) = true.
Proof. vm_compute. auto. Qed.

(** the theorem on this tree and this run *)
Example flat2_any_schedule : forall choose,
  wfinalb (run flat2 false choose) = true ->
  Permutation (ws_jobs (run flat2 false choose)) (fst (walk_root flat2 false dot dot [])).
Proof.
  intros choose F. destruct flat2_ok as [Hwf [Hflat _]].
  apply any_schedule_is_the_model; auto.
  - apply wrun_is_wsteps.
  - apply wfinalb_final. exact F.
Qed.

End SchedExamples.

(** Theorem 4.  A well-formed tree without any cycle (real directories and link edges are
    ranked together) in which a link lies below the target of another link, and two
    complete runs from the same start that do not list the same jobs: [./a/x/y/d] is listed
    by the depth-first run only, [./b/y/d] by the other only.  Which of the two paths to
    the link [b/y] gets there first enters it; the other only lists it. *)
Theorem nested_links_schedule_dependence_refuted :
  exists t all root real s1 s2,
    wf_tree t /\ link_acyclic t /\ ~ flat_links t /\ NoDup (map tn_target (links t)) /\
    wsteps t all (winit t all root real []) s1 /\ wfinal s1 /\
    wsteps t all (winit t all root real []) s2 /\ wfinal s2 /\
    ~ Permutation (ws_jobs s1) (ws_jobs s2).
Proof.
  destruct (witness_by_runs SchedExamples.nested false SchedExamples.dot SchedExamples.dot
              SchedExamples.nested_sched1 SchedExamples.nested_sched2 100
              (WalkExamples.P "./b/y/d" "c/d")) as [s1 [s2 H]];
    try (vm_compute; reflexivity).
  { vm_compute. discriminate. }
  exists SchedExamples.nested, false, SchedExamples.dot, SchedExamples.dot, s1, s2.
  destruct SchedExamples.nested_wf as [W LA]. destruct SchedExamples.nested_not_flat as [NF ND].
  split; [exact W|]. split; [exact LA|]. split; [exact NF|]. split; [exact ND|]. exact H.
Qed.

(** the same with two links to one target and nothing nested (only the first condition of
    [flat_links] fails) *)
Theorem aliased_links_schedule_dependence :
  exists t all root real s1 s2,
    wf_tree t /\ link_acyclic t /\ ~ NoDup (map tn_target (links t)) /\
    (forall n x, In n t -> tn_kind n = KLinkDir -> In x t -> tn_kind x = KLinkDir ->
                 ~ anc t (tn_target n) (tn_parent x)) /\
    wsteps t all (winit t all root real []) s1 /\ wfinal s1 /\
    wsteps t all (winit t all root real []) s2 /\ wfinal s2 /\
    ~ Permutation (ws_jobs s1) (ws_jobs s2).
Proof.
  destruct (witness_by_runs SchedExamples.alias false SchedExamples.dot SchedExamples.dot
              [] [0; 1; 2; 3] 100 (WalkExamples.P "./y/c" "b/c")) as [s1 [s2 H]];
    try (vm_compute; reflexivity).
  { vm_compute. discriminate. }
  exists SchedExamples.alias, false, SchedExamples.dot, SchedExamples.dot, s1, s2.
  destruct (rank_okb_sound SchedExamples.alias_rank SchedExamples.alias) as [LA A]; [vm_compute; reflexivity|].
  split; [split; auto; apply dirs_uniqueb_sound; vm_compute; reflexivity|].
  split; auto.
  split.
  { intros N. vm_compute in N. inversion N as [|? ? X _]. apply X. left. reflexivity. }
  split; [|apply H].
  (* below the target [b] there is only [b/c]; the links sit in [a] and [.] *)
  intros n x Hn Kn Hx Kx A'.
  assert (C : closedb SchedExamples.alias [s2b "b"; s2b "b/c"] = true) by (vm_compute; reflexivity).
  assert (Tn : tn_target n = s2b "b").
  { simpl in Hn. repeat (destruct Hn as [<-|Hn]; [try discriminate; reflexivity|]). contradiction. }
  rewrite Tn in A'.
  assert (M0 : mem (s2b "b") [s2b "b"; s2b "b/c"] = true) by (vm_compute; reflexivity).
  pose proof (anc_closed _ _ _ _ C M0 A') as M.
  simpl in Hx. repeat (destruct Hx as [<-|Hx]; [try discriminate; vm_compute in M; discriminate|]). contradiction.
Qed.

(** with a hidden link the runs do not even list the same NUMBER of jobs *)
Theorem hidden_link_starves_visible_link :
  exists t all root real s1 s2,
    wf_tree t /\ link_acyclic t /\
    wsteps t all (winit t all root real []) s1 /\ wfinal s1 /\
    wsteps t all (winit t all root real []) s2 /\ wfinal s2 /\
    List.length (ws_jobs s1) = 6 /\ List.length (ws_jobs s2) = 5.
Proof.
  exists SchedExamples.starved, false, SchedExamples.dot, SchedExamples.dot,
         (SchedExamples.run SchedExamples.starved false []),
         (SchedExamples.run SchedExamples.starved false [0; 1; 2; 3]).
  destruct (rank_okb_sound SchedExamples.alias_rank SchedExamples.starved) as [LA A]; [vm_compute; reflexivity|].
  split; [split; auto; apply dirs_uniqueb_sound; vm_compute; reflexivity|].
  split; auto.
  split; [apply wrun_is_wsteps|]. split; [apply wfinalb_final; vm_compute; reflexivity|].
  split; [apply wrun_is_wsteps|]. split; [apply wfinalb_final; vm_compute; reflexivity|].
  split; vm_compute; reflexivity.
Qed.

Print Assumptions wrun_is_wsteps.
Print Assumptions dfs_is_a_schedule.
Print Assumptions any_schedule_same_jobs.
Print Assumptions any_schedule_is_the_model.
Print Assumptions any_schedule_generic.
Print Assumptions any_schedule_jobs_exactly.
Print Assumptions any_schedule_terminates.
Print Assumptions nested_links_schedule_dependence_refuted.
Print Assumptions aliased_links_schedule_dependence.
Print Assumptions hidden_link_starves_visible_link.
Print Assumptions cache_once_any_schedule.
Print Assumptions SchedExamples.flat2_ok.
