(** cmd/seqinfo collects the results of its per-pattern goroutines in a map
    keyed by the pattern.  The value sent for a pattern is a function of the
    pattern, so the final map does not depend on the order of arrival, and it
    has exactly one entry per distinct pattern. *)
From GFS Require Import Base Seqinfo.
From Coq Require Import Permutation.

(** * [beq] decides equality of byte strings *)

Lemma beq_refl : forall a, beq a a = true.
Proof. induction a as [|x a IH]; simpl; auto. rewrite Nat.eqb_refl. exact IH. Qed.

Lemma beq_true_iff : forall a b, beq a b = true <-> a = b.
Proof.
  induction a as [|x a IH]; intros [|y b]; simpl; split; intros H; try discriminate; auto.
  - apply andb_true_iff in H. destruct H as [H1 H2].
    apply Nat.eqb_eq in H1. apply IH in H2. subst. reflexivity.
  - inversion H. subst. rewrite Nat.eqb_refl. simpl. apply beq_refl.
Qed.

Lemma beq_false_iff : forall a b, beq a b = false <-> a <> b.
Proof.
  intros a b. split.
  - intros H E. apply beq_true_iff in E. congruence.
  - intros H. destruct (beq a b) eqn:E; auto. apply beq_true_iff in E. contradiction.
Qed.

Lemma beq_sym : forall a b, beq a b = beq b a.
Proof.
  intros a b. destruct (beq a b) eqn:E.
  - apply beq_true_iff in E. subst. symmetry. apply beq_refl.
  - symmetry. apply beq_false_iff. apply beq_false_iff in E. congruence.
Qed.

(** * [map_set] / [map_get] *)

Lemma map_get_set : forall (A : Type) (m : list (bytes * A)) k v k',
  map_get (map_set m k v) k' = if beq k k' then Some v else map_get m k'.
Proof.
  intros A m k v k'. induction m as [|[k0 v0] m IH]; simpl.
  - reflexivity.
  - destruct (beq k0 k) eqn:E; simpl.
    + apply beq_true_iff in E. subst k0.
      destruct (beq k k'); reflexivity.
    + destruct (beq k0 k') eqn:E'.
      * apply beq_true_iff in E'. subst k0. rewrite beq_sym, E. reflexivity.
      * exact IH.
Qed.

Lemma keys_map_set : forall (A : Type) (m : list (bytes * A)) k v k',
  In k' (map fst (map_set m k v)) <-> k' = k \/ In k' (map fst m).
Proof.
  intros A m k v k'. induction m as [|[k0 v0] m IH]; simpl.
  - intuition.
  - destruct (beq k0 k) eqn:E; simpl.
    + apply beq_true_iff in E. subst k0. intuition.
    + rewrite IH. intuition.
Qed.

Lemma NoDup_map_set : forall (A : Type) (m : list (bytes * A)) k v,
  NoDup (map fst m) -> NoDup (map fst (map_set m k v)).
Proof.
  intros A m k v. induction m as [|[k0 v0] m IH]; simpl; intros H.
  - constructor; [intros []|constructor].
  - inversion H as [|x l Hni Hnd]; subst.
    destruct (beq k0 k) eqn:E; simpl.
    + apply beq_true_iff in E. subst k0. constructor; assumption.
    + constructor; [|apply IH; assumption].
      rewrite keys_map_set. intros [Hk|Hk]; [|contradiction].
      apply beq_false_iff in E. contradiction.
Qed.

(** * [collect], generalised over the initial map *)

Definition collect_from {A : Type} (m : list (bytes * A)) (arrivals : list (bytes * A)) :=
  fold_left (fun m kv => map_set m (fst kv) (snd kv)) arrivals m.

Lemma collect_from_get : forall (A : Type) (f : bytes -> A) arrivals m k,
  map_get (collect_from m (map (fun p => (p, f p)) arrivals)) k =
  if existsb (beq k) arrivals then Some (f k) else map_get m k.
Proof.
  intros A f arrivals. unfold collect_from.
  induction arrivals as [|p arr IH]; intros m k; simpl.
  - reflexivity.
  - rewrite IH. destruct (existsb (beq k) arr); simpl.
    + rewrite orb_true_r. reflexivity.
    + rewrite orb_false_r. rewrite map_get_set. rewrite (beq_sym p k).
      destruct (beq k p) eqn:E; auto.
      apply beq_true_iff in E. subst. reflexivity.
Qed.

Lemma collect_from_keys : forall (A : Type) (f : bytes -> A) arrivals m k,
  In k (map fst (collect_from m (map (fun p => (p, f p)) arrivals))) <->
  In k (map fst m) \/ In k arrivals.
Proof.
  intros A f arrivals. unfold collect_from.
  induction arrivals as [|p arr IH]; intros m k; simpl.
  - intuition.
  - rewrite IH. rewrite keys_map_set. intuition.
Qed.

Lemma collect_from_NoDup : forall (A : Type) (arrivals m : list (bytes * A)),
  NoDup (map fst m) -> NoDup (map fst (collect_from m arrivals)).
Proof.
  intros A arrivals. unfold collect_from.
  induction arrivals as [|kv arr IH]; intros m H; simpl; auto.
  apply IH. apply NoDup_map_set. exact H.
Qed.

Lemma existsb_perm : forall (A : Type) (g : A -> bool) l l',
  Permutation l l' -> existsb g l = existsb g l'.
Proof.
  intros A g l l' H. induction H; simpl; auto.
  - rewrite IHPermutation. reflexivity.
  - destruct (g x), (g y); reflexivity.
  - congruence.
Qed.

(** * Main theorems *)

Theorem collect_order_independent :
  forall (A : Type) (f : bytes -> A) (pats arrivals : list bytes),
  Permutation pats arrivals ->
  forall k, map_get (collect (map (fun p => (p, f p)) arrivals)) k =
            if existsb (beq k) pats then Some (f k) else None.
Proof.
  intros A f pats arrivals HP k.
  rewrite (existsb_perm _ (beq k) _ _ HP).
  change (collect (map (fun p => (p, f p)) arrivals))
    with (collect_from [] (map (fun p => (p, f p)) arrivals)).
  rewrite collect_from_get. reflexivity.
Qed.

(** two arrival orders give maps that agree on every key *)
Corollary collect_any_two_orders :
  forall (A : Type) (f : bytes -> A) (arr1 arr2 : list bytes),
  Permutation arr1 arr2 ->
  forall k, map_get (collect (map (fun p => (p, f p)) arr1)) k =
            map_get (collect (map (fun p => (p, f p)) arr2)) k.
Proof.
  intros A f arr1 arr2 HP k.
  rewrite (collect_order_independent A f arr1 arr1 (Permutation_refl _) k).
  rewrite (collect_order_independent A f arr1 arr2 HP k). reflexivity.
Qed.

Theorem collect_one_entry_per_pattern :
  forall (A : Type) (f : bytes -> A) (arrivals : list bytes),
  NoDup (map fst (collect (map (fun p => (p, f p)) arrivals))) /\
  (forall k, In k (map fst (collect (map (fun p => (p, f p)) arrivals))) <-> In k arrivals).
Proof.
  intros A f arrivals.
  change (collect (map (fun p => (p, f p)) arrivals))
    with (collect_from [] (map (fun p => (p, f p)) arrivals)).
  split.
  - apply collect_from_NoDup. constructor.
  - intros k. rewrite collect_from_keys. simpl. intuition.
Qed.

(** every stored entry is (pattern, f pattern) *)
Corollary collect_entries_correct :
  forall (A : Type) (f : bytes -> A) (arrivals : list bytes) k,
  In k arrivals -> map_get (collect (map (fun p => (p, f p)) arrivals)) k = Some (f k).
Proof.
  intros A f arrivals k H.
  rewrite (collect_order_independent A f arrivals arrivals (Permutation_refl _) k).
  assert (E : existsb (beq k) arrivals = true).
  { apply existsb_exists. exists k. split; auto. apply beq_true_iff. reflexivity. }
  rewrite E. reflexivity.
Qed.

(** * Concrete checks (duplicates included) *)

Example collect_ex1 :
  collect (map (fun p => (p, List.length p)) [[1]; [2; 2]; [1]; [3; 3; 3]])
  = [([1], 1); ([2; 2], 2); ([3; 3; 3], 3)].
Proof. reflexivity. Qed.

Example collect_ex2 :
  let f := fun p : bytes => List.length p in
  map (map_get (collect (map (fun p => (p, f p)) [[3; 3; 3]; [1]; [2; 2]; [1]]))) [[1]; [2; 2]; [3; 3; 3]; [4]]
  = map (map_get (collect (map (fun p => (p, f p)) [[1]; [2; 2]; [1]; [3; 3; 3]]))) [[1]; [2; 2]; [3; 3; 3]; [4]].
Proof. reflexivity. Qed.

(** the LIST representation does depend on the order; only lookups do not *)
Example collect_list_order_differs :
  collect (map (fun p => (p, List.length p)) [[1]; [2; 2]])
  <> collect (map (fun p => (p, List.length p)) [[2; 2]; [1]]).
Proof. discriminate. Qed.

Print Assumptions beq_true_iff.
Print Assumptions collect_order_independent.
Print Assumptions collect_one_entry_per_pattern.
Print Assumptions collect_entries_correct.
