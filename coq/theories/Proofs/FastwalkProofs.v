(** Proofs about the termination-detection protocol of the concurrent
    directory walker (Model/Fastwalk.v), for every tree, every number of
    workers, every channel capacity >= 1 and EVERY schedule:
    - [fastwalk_complete]: when the coordinator returns, the directories walked
      are exactly the live directories of the tree, each once;
    - [fastwalk_never_twice]: at every moment the walked directories are a
      sub-multiset of the live ones (no directory is walked twice);
    - [fastwalk_no_deadlock]: a state that has not returned has an enabled step;
    - [fastwalk_terminates]: a measure decreases on every step, so a schedule
      is never longer than [7 * |live root| - 2]; hence every maximal run ends
      in a complete walk ([fastwalk_stuck_is_complete]) and one exists from
      every reachable state ([fastwalk_can_return]);
    - [early_return_is_wrong]: without the re-check of enqueuec before the
      return the completeness theorem is false;
    - [explore_sound]: a counterexample reported by the search is a real run. *)
From GFS Require Import Base Fastwalk.
From Coq Require Import Permutation.

(** * Counting names *)

Definition cnt (x : nat) (l : list nat) : nat := count_occ Nat.eq_dec l x.

(** occurrences of [x] among the live directories of a list of pending items *)
Definition tcnt (x : nat) (l : list tree) : nat := cnt x (lives l).

Lemma cnt_app : forall x a b, cnt x (a ++ b) = cnt x a + cnt x b.
Proof. intros x a b. unfold cnt. apply count_occ_app. Qed.

Lemma cnt_nil : forall x, cnt x [] = 0.
Proof. reflexivity. Qed.

Lemma tcnt_nil : forall x, tcnt x [] = 0.
Proof. reflexivity. Qed.

Lemma tcnt_cons : forall x t l, tcnt x (t :: l) = cnt x (live t) + tcnt x l.
Proof. intros x t l. unfold tcnt, lives. simpl. apply cnt_app. Qed.

Lemma tcnt_app : forall x a b, tcnt x (a ++ b) = tcnt x a + tcnt x b.
Proof.
  intros x a b. unfold tcnt, lives. rewrite flat_map_app. apply cnt_app.
Qed.

Lemma cnt_live : forall x t, cnt x (live t) = cnt x [t_name t] + tcnt x (to_enqueue t).
Proof.
  intros x [n sk kids]. unfold tcnt, lives. simpl live. simpl t_name. simpl to_enqueue.
  change (n :: (if sk then [] else flat_map live kids))
    with ([n] ++ (if sk then [] else flat_map live kids)).
  rewrite cnt_app. destruct sk; reflexivity.
Qed.

Lemma cnt_perm : forall l1 l2, (forall x, cnt x l1 = cnt x l2) -> Permutation l1 l2.
Proof.
  intros l1 l2 H. apply (Permutation_count_occ Nat.eq_dec). exact H.
Qed.

(** * Sums over the workers *)

Definition wsum (f : wstate -> nat) (ws : list wstate) : nat := list_sum (map f ws).

(** sub-directories a worker still has to enqueue *)
Definition wpend (w : wstate) : list tree :=
  match w with WBusy p => p | _ => [] end.

(** a worker that owes a result *)
Definition wactive (w : wstate) : nat :=
  match w with WIdle => 0 | _ => 1 end.

Lemma wsum_upd : forall f i w w' ws,
  nth_error ws i = Some w -> wsum f (wupd i w' ws) + f w = wsum f ws + f w'.
Proof.
  unfold wsum. intros f i w w' ws. revert i.
  induction ws as [|x ws IH]; intros [|i] H; simpl in *; try discriminate.
  - inversion H. subst. lia.
  - specialize (IH i H). lia.
Qed.

Lemma wupd_length : forall i w ws, List.length (wupd i w ws) = List.length ws.
Proof.
  intros i w ws. revert i. induction ws as [|x ws IH]; intros [|i]; simpl; auto.
Qed.

Lemma wsum_repeat_idle : forall f n, f WIdle = 0 -> wsum f (repeat WIdle n) = 0.
Proof.
  intros f n Hf. unfold wsum. induction n as [|n IH]; simpl; auto. rewrite Hf, IH. reflexivity.
Qed.

Lemma wsum_tcnt_flat : forall x ws,
  wsum (fun w => tcnt x (wpend w)) ws = tcnt x (flat_map wpend ws).
Proof.
  intros x ws. unfold wsum. induction ws as [|w ws IH]; simpl; auto.
  rewrite tcnt_app, IH. reflexivity.
Qed.

Lemma no_active_no_pending : forall x ws,
  wsum wactive ws = 0 -> wsum (fun w => tcnt x (wpend w)) ws = 0.
Proof.
  intros x ws. unfold wsum. induction ws as [|w ws IH]; simpl; auto.
  intros H. destruct w; simpl in *; lia.
Qed.

(** either every worker is idle, or some worker is not *)
Lemma find_active : forall ws,
  wsum wactive ws = 0 \/ exists i w, nth_error ws i = Some w /\ w <> WIdle.
Proof.
  unfold wsum. induction ws as [|w ws IH]; simpl; auto.
  destruct w.
  - destruct IH as [IH|[i [w' [H1 H2]]]]; auto.
    right. exists (S i), w'. auto.
  - right. exists 0, (WBusy pending). split; [reflexivity|discriminate].
  - right. exists 0, WDone. split; [reflexivity|discriminate].
Qed.

Lemma all_idle_first : forall ws,
  wsum wactive ws = 0 -> 1 <= List.length ws -> nth_error ws 0 = Some WIdle.
Proof.
  intros [|w ws] Hs Hl; simpl in *; try lia.
  destruct w; unfold wsum in Hs; simpl in Hs; try lia. reflexivity.
Qed.

(** * The last element of the [todo] slice *)

Lemma last_opt_some : forall (A : Type) (l : list A) x,
  last_opt l = Some x -> exists l', l = l' ++ [x].
Proof.
  intros A l x. induction l as [|y l IH]; simpl; intros H; try discriminate.
  destruct l as [|z l].
  - inversion H. subst. exists []. reflexivity.
  - destruct (IH H) as [l' Hl']. exists (y :: l'). rewrite Hl'. reflexivity.
Qed.

Lemma last_opt_nonempty : forall (A : Type) (l : list A),
  l <> [] -> exists x, last_opt l = Some x.
Proof.
  intros A l. induction l as [|y l IH]; intros H; try congruence.
  destruct l as [|z l].
  - exists y. reflexivity.
  - destruct IH as [x Hx]; try discriminate. exists x. exact Hx.
Qed.

(** * The transitions of the reference coordinator, as a relation *)

Inductive rstep (cap : nat) : label -> state -> state -> Prop :=
| R_Send : forall todo x out workc enqc resc ws walked,
    List.length workc < cap ->
    rstep cap LSend
      (mkSt (todo ++ [x]) out workc enqc resc ws walked false)
      (mkSt todo (out + 1)%Z (workc ++ [x]) enqc resc ws walked false)
| R_RecvEnq : forall todo out workc it enqc resc ws walked,
    rstep cap LRecvEnq
      (mkSt todo out workc (it :: enqc) resc ws walked false)
      (mkSt (todo ++ [it]) out workc enqc resc ws walked false)
| R_RecvRes_more : forall todo out workc enqc resc ws walked,
    ~ ((out - 1)%Z = 0%Z /\ todo = []) ->
    rstep cap LRecvRes
      (mkSt todo out workc enqc (S resc) ws walked false)
      (mkSt todo (out - 1)%Z workc enqc resc ws walked false)
| R_RecvRes_recheck : forall out workc it enqc resc ws walked,
    (out - 1)%Z = 0%Z ->
    rstep cap LRecvRes
      (mkSt [] out workc (it :: enqc) (S resc) ws walked false)
      (mkSt [it] (out - 1)%Z workc enqc resc ws walked false)
| R_RecvRes_return : forall out workc resc ws walked,
    (out - 1)%Z = 0%Z ->
    rstep cap LRecvRes
      (mkSt [] out workc [] (S resc) ws walked false)
      (mkSt [] (out - 1)%Z workc [] resc ws walked true)
| R_Take : forall w todo out item workc enqc resc ws walked,
    nth_error ws w = Some WIdle ->
    rstep cap (LTake w)
      (mkSt todo out (item :: workc) enqc resc ws walked false)
      (mkSt todo out workc enqc resc (wupd w (WBusy (to_enqueue item)) ws)
            (walked ++ [t_name item]) false)
| R_Enqueue : forall w k rest todo out workc enqc resc ws walked,
    nth_error ws w = Some (WBusy (k :: rest)) ->
    List.length enqc < cap ->
    rstep cap (LEnqueue w)
      (mkSt todo out workc enqc resc ws walked false)
      (mkSt todo out workc (enqc ++ [k]) resc (wupd w (WBusy rest) ws) walked false)
| R_Finish : forall w todo out workc enqc resc ws walked,
    nth_error ws w = Some (WBusy []) ->
    rstep cap (LFinish w)
      (mkSt todo out workc enqc resc ws walked false)
      (mkSt todo out workc enqc resc (wupd w WDone ws) walked false)
| R_Result : forall w todo out workc enqc resc ws walked,
    nth_error ws w = Some WDone ->
    resc < cap ->
    rstep cap (LResult w)
      (mkSt todo out workc enqc resc ws walked false)
      (mkSt todo out workc enqc (S resc) (wupd w WIdle ws) walked false).

(** the executable step function of the reference coordinator only takes
    these transitions *)
Lemma step_rstep : forall cap s l s',
  step reference_coord cap s l = Some s' -> rstep cap l s s'.
Proof.
  intros cap [todo out workc enqc resc ws walked ret] l s' H.
  unfold step in H. simpl in H.
  destruct ret; [discriminate|].
  destruct l as [| | |w|w|w|w].
  - (* LSend *)
    destruct (last_opt todo) as [item|] eqn:Elast; [|discriminate].
    destruct (Nat.ltb (List.length workc) cap) eqn:Ecap; [|discriminate].
    apply Nat.ltb_lt in Ecap.
    destruct (last_opt_some _ _ _ Elast) as [todo' Htodo]. subst todo.
    inversion H; subst s'; clear H.
    unfold with_cstate. simpl. rewrite removelast_last.
    apply R_Send. exact Ecap.
  - (* LRecvEnq *)
    destruct enqc as [|item rest]; [discriminate|].
    inversion H; subst s'; clear H.
    unfold with_cstate. simpl. apply R_RecvEnq.
  - (* LRecvRes *)
    destruct resc as [|resc']; [discriminate|].
    inversion H; subst s'; clear H.
    unfold with_cstate. simpl.
    destruct (Z.eqb_spec (out - 1) 0) as [Hz|Hz]; simpl.
    + destruct todo as [|t todo]; simpl.
      * destruct enqc as [|item rest]; simpl.
        -- apply R_RecvRes_return. exact Hz.
        -- apply R_RecvRes_recheck. exact Hz.
      * apply R_RecvRes_more. intros [_ Hn]. discriminate.
    + apply R_RecvRes_more. intros [Hn _]. contradiction.
  - (* LTake *)
    destruct (nth_error ws w) as [[| |]|] eqn:Ew; try discriminate.
    destruct workc as [|item rest]; [discriminate|].
    inversion H; subst s'; clear H.
    apply R_Take. exact Ew.
  - (* LEnqueue *)
    destruct (nth_error ws w) as [[|[|k rest]|]|] eqn:Ew; try discriminate.
    destruct (Nat.ltb (List.length enqc) cap) eqn:Ecap; [|discriminate].
    apply Nat.ltb_lt in Ecap.
    inversion H; subst s'; clear H.
    apply R_Enqueue; assumption.
  - (* LFinish *)
    destruct (nth_error ws w) as [[|[|k rest]|]|] eqn:Ew; try discriminate.
    inversion H; subst s'; clear H.
    apply R_Finish. exact Ew.
  - (* LResult *)
    destruct (nth_error ws w) as [[| |]|] eqn:Ew; try discriminate.
    destruct (Nat.ltb resc cap) eqn:Ecap; [|discriminate].
    apply Nat.ltb_lt in Ecap.
    inversion H; subst s'; clear H.
    apply R_Result; assumption.
Qed.

(** * Runs and reachability *)

Definition reachable (c : coord) (cap nw : nat) (root : tree) (s : state) : Prop :=
  exists ls, run c cap (init nw root) ls = Some s.

Lemma run_app : forall c cap l1 l2 s,
  run c cap s (l1 ++ l2) =
  match run c cap s l1 with Some s' => run c cap s' l2 | None => None end.
Proof.
  intros c cap l1 l2. induction l1 as [|l l1 IH]; intros s; simpl; auto.
  destruct (step c cap s l) as [s'|]; auto.
Qed.

(** a property of the initial state preserved by every step holds in every
    reachable state *)
Lemma run_invariant : forall c cap (P : state -> Prop),
  (forall s l s', P s -> step c cap s l = Some s' -> P s') ->
  forall ls s s', P s -> run c cap s ls = Some s' -> P s'.
Proof.
  intros c cap P Hstep ls. induction ls as [|l ls IH]; intros s s' HP Hrun; simpl in Hrun.
  - inversion Hrun. subst. exact HP.
  - destruct (step c cap s l) as [s1|] eqn:E; [|discriminate].
    apply (IH s1 s'); auto. eapply Hstep; eauto.
Qed.

(** * The invariant *)

Record inv (nw : nat) (root : tree) (s : state) : Prop := mkInv {
  (* conservation: every live directory is either walked or inside exactly one
     pending item (on the todo stack, in workc, in enqueuec, or still to be
     enqueued by a busy worker) *)
  inv_count : forall x,
    cnt x (s_walked s) + tcnt x (s_todo s) + tcnt x (s_workc s) + tcnt x (s_enqc s)
    + wsum (fun w => tcnt x (wpend w)) (s_workers s) = cnt x (live root);
  (* [out] counts the items in workc, the workers that owe a result and the
     results in resc *)
  inv_out : s_out s
            = Z.of_nat (List.length (s_workc s) + wsum wactive (s_workers s) + s_resc s);
  inv_nw : List.length (s_workers s) = nw;
  (* the coordinator returns only when it has seen nothing left *)
  inv_ret : s_returned s = true -> s_todo s = [] /\ s_out s = 0%Z /\ s_enqc s = [];
  (* and while it has not returned it has something to wait for *)
  inv_live : s_returned s = false -> s_todo s <> [] \/ s_out s <> 0%Z \/ s_enqc s <> [] }.

(** reduce the projections of an explicit state, and nothing else *)
Ltac sproj :=
  cbn [s_todo s_out s_workc s_enqc s_resc s_workers s_walked s_returned] in *.

Lemma inv_init : forall nw root, inv nw root (init nw root).
Proof.
  intros nw root. unfold init. constructor; sproj.
  - intros x. rewrite tcnt_cons, !tcnt_nil, cnt_nil.
    rewrite wsum_repeat_idle by reflexivity. lia.
  - rewrite wsum_repeat_idle by reflexivity. reflexivity.
  - apply repeat_length.
  - discriminate.
  - intros _. left. discriminate.
Qed.

Lemma app_not_nil : forall (A : Type) (l : list A) x, l ++ [x] <> [].
Proof. intros A [|y l] x; discriminate. Qed.

Lemma inv_rstep : forall nw root cap l s s',
  rstep cap l s s' -> inv nw root s -> inv nw root s'.
Proof.
  intros nw root cap l s s' Hr [Hcount Hout Hnw Hret Hlive].
  destruct Hr as
    [ todo x out workc enqc resc ws walked Hcap
    | todo out workc it enqc resc ws walked
    | todo out workc enqc resc ws walked Hmore
    | out workc it enqc resc ws walked Hz
    | out workc resc ws walked Hz
    | w todo out item workc enqc resc ws walked Hw
    | w k rest todo out workc enqc resc ws walked Hw Hcap
    | w todo out workc enqc resc ws walked Hw
    | w todo out workc enqc resc ws walked Hw Hcap ];
    sproj.
  - (* send *)
    constructor; sproj.
    + intros y. specialize (Hcount y). rewrite tcnt_app in *.
      rewrite tcnt_cons, tcnt_nil in *. lia.
    + rewrite app_length. simpl. lia.
    + exact Hnw.
    + discriminate.
    + intros _. right. left. lia.
  - (* receive from enqueuec *)
    constructor; sproj.
    + intros y. specialize (Hcount y). rewrite tcnt_app.
      rewrite !tcnt_cons, tcnt_nil in *. lia.
    + exact Hout.
    + exact Hnw.
    + discriminate.
    + intros _. left. apply app_not_nil.
  - (* receive a result, more to do *)
    constructor; sproj.
    + exact Hcount.
    + lia.
    + exact Hnw.
    + discriminate.
    + intros _. destruct todo as [|t todo].
      * right. left. intros Hz. apply Hmore. split; [exact Hz|reflexivity].
      * left. discriminate.
  - (* receive a result, idle, but enqueuec is readable *)
    constructor; sproj.
    + intros y. specialize (Hcount y).
      rewrite !tcnt_cons, !tcnt_nil in *. lia.
    + lia.
    + exact Hnw.
    + discriminate.
    + intros _. left. discriminate.
  - (* receive a result, idle, enqueuec empty: return *)
    constructor; sproj.
    + exact Hcount.
    + lia.
    + exact Hnw.
    + intros _. auto.
    + discriminate.
  - (* a worker takes an item *)
    constructor; sproj.
    + intros y. specialize (Hcount y).
      pose proof (wsum_upd (fun w => tcnt y (wpend w)) w WIdle
                    (WBusy (to_enqueue item)) ws Hw) as Hu.
      cbn [wactive wpend] in Hu. rewrite tcnt_nil in Hu.
      rewrite tcnt_cons, cnt_live in Hcount. rewrite cnt_app. lia.
    + pose proof (wsum_upd wactive w WIdle (WBusy (to_enqueue item)) ws Hw) as Hu.
      cbn [wactive wpend] in Hu. cbn [List.length] in Hout. lia.
    + rewrite wupd_length. exact Hnw.
    + discriminate.
    + intros _. right. left.
      pose proof (wsum_upd wactive w WIdle (WBusy (to_enqueue item)) ws Hw) as Hu.
      cbn [wactive wpend] in Hu. cbn [List.length] in Hout. lia.
  - (* a worker enqueues a sub-directory *)
    constructor; sproj.
    + intros y. specialize (Hcount y).
      pose proof (wsum_upd (fun w => tcnt y (wpend w)) w (WBusy (k :: rest))
                    (WBusy rest) ws Hw) as Hu.
      cbn [wactive wpend] in Hu. rewrite tcnt_cons in Hu.
      rewrite tcnt_app, tcnt_cons, tcnt_nil. lia.
    + pose proof (wsum_upd wactive w (WBusy (k :: rest)) (WBusy rest) ws Hw) as Hu.
      cbn [wactive wpend] in Hu. lia.
    + rewrite wupd_length. exact Hnw.
    + discriminate.
    + intros _. right. right. apply app_not_nil.
  - (* a worker finishes its walk *)
    constructor; sproj.
    + intros y. specialize (Hcount y).
      pose proof (wsum_upd (fun w => tcnt y (wpend w)) w (WBusy []) WDone ws Hw) as Hu.
      cbn [wactive wpend] in Hu. lia.
    + pose proof (wsum_upd wactive w (WBusy []) WDone ws Hw) as Hu.
      cbn [wactive wpend] in Hu. lia.
    + rewrite wupd_length. exact Hnw.
    + discriminate.
    + exact Hlive.
  - (* a worker sends its result *)
    constructor; sproj.
    + intros y. specialize (Hcount y).
      pose proof (wsum_upd (fun w => tcnt y (wpend w)) w WDone WIdle ws Hw) as Hu.
      cbn [wactive wpend] in Hu. lia.
    + pose proof (wsum_upd wactive w WDone WIdle ws Hw) as Hu.
      cbn [wactive wpend] in Hu. lia.
    + rewrite wupd_length. exact Hnw.
    + discriminate.
    + exact Hlive.
Qed.

(** the invariant holds in every reachable state *)
Theorem inv_reachable : forall nw cap root s,
  reachable reference_coord cap nw root s -> inv nw root s.
Proof.
  intros nw cap root s [ls Hrun].
  apply (run_invariant reference_coord cap (inv nw root)) with (ls := ls) (s := init nw root).
  - intros s0 l s1 Hinv Hstep. eapply inv_rstep; eauto. apply step_rstep. exact Hstep.
  - apply inv_init.
  - exact Hrun.
Qed.

(** * 1. Completeness at the return *)

Theorem fastwalk_complete : forall nw cap root s,
  1 <= cap ->
  reachable reference_coord cap nw root s ->
  s_returned s = true ->
  Permutation (s_walked s) (live root).
Proof.
  intros nw cap root s _ Hreach Hret.
  destruct (inv_reachable _ _ _ _ Hreach) as [Hcount Hout _ Hr _].
  destruct (Hr Hret) as [Htodo [Hzero Henq]].
  assert (Hw : s_workc s = []).
  { destruct (s_workc s); auto. simpl in Hout. lia. }
  assert (Ha : wsum wactive (s_workers s) = 0) by lia.
  apply cnt_perm. intros x. specialize (Hcount x).
  rewrite Htodo, Hw, Henq, !tcnt_nil in Hcount.
  rewrite (no_active_no_pending x _ Ha) in Hcount. lia.
Qed.

(** * 2. Nothing is walked twice, at any moment *)

(** the items not yet walked in a state *)
Definition pending_items (s : state) : list tree :=
  s_todo s ++ s_workc s ++ s_enqc s ++ flat_map wpend (s_workers s).

(** conservation, as a permutation: walked directories together with the
    live directories of the pending items are the live directories of the tree *)
Theorem fastwalk_conservation : forall nw cap root s,
  reachable reference_coord cap nw root s ->
  Permutation (s_walked s ++ lives (pending_items s)) (live root).
Proof.
  intros nw cap root s Hreach.
  destruct (inv_reachable _ _ _ _ Hreach) as [Hcount _ _ _ _].
  apply cnt_perm. intros x. specialize (Hcount x).
  rewrite cnt_app. unfold pending_items.
  change (cnt x (lives (s_todo s ++ s_workc s ++ s_enqc s ++ flat_map wpend (s_workers s))))
    with (tcnt x (s_todo s ++ s_workc s ++ s_enqc s ++ flat_map wpend (s_workers s))).
  rewrite !tcnt_app, <- wsum_tcnt_flat. lia.
Qed.

Theorem fastwalk_never_twice : forall nw cap root s,
  reachable reference_coord cap nw root s ->
  exists rest, Permutation (s_walked s ++ rest) (live root).
Proof.
  intros nw cap root s Hreach. exists (lives (pending_items s)).
  eapply fastwalk_conservation. exact Hreach.
Qed.

Corollary fastwalk_walked_nodup : forall nw cap root s,
  reachable reference_coord cap nw root s ->
  NoDup (live root) -> NoDup (s_walked s).
Proof.
  intros nw cap root s Hreach Hnd.
  destruct (inv_reachable _ _ _ _ Hreach) as [Hcount _ _ _ _].
  apply (NoDup_count_occ Nat.eq_dec). intros x.
  rewrite (NoDup_count_occ Nat.eq_dec) in Hnd. specialize (Hnd x).
  specialize (Hcount x).
  change (cnt x (s_walked s) <= 1). change (cnt x (live root) <= 1) in Hnd. lia.
Qed.

(** every walked directory is a live directory of the tree *)
Corollary fastwalk_walked_live : forall nw cap root s x,
  reachable reference_coord cap nw root s ->
  In x (s_walked s) -> In x (live root).
Proof.
  intros nw cap root s x Hreach Hin.
  destruct (fastwalk_never_twice _ _ _ _ Hreach) as [rest Hp].
  eapply Permutation_in; [exact Hp|]. apply in_or_app. left. exact Hin.
Qed.

(** * 3. Deadlock freedom *)

Lemma ltb_0_cap : forall cap, 1 <= cap -> Nat.ltb 0 cap = true.
Proof. intros cap H. apply Nat.ltb_lt. lia. Qed.

Theorem fastwalk_no_deadlock : forall nw cap root s,
  1 <= nw -> 1 <= cap ->
  reachable reference_coord cap nw root s ->
  s_returned s = false ->
  exists l s', step reference_coord cap s l = Some s'.
Proof.
  intros nw cap root s Hnw Hcap Hreach Hret.
  destruct (inv_reachable _ _ _ _ Hreach) as [_ Hout Hlen _ Hlive].
  specialize (Hlive Hret).
  destruct s as [todo out workc enqc resc ws walked ret]. sproj. subst ret.
  (* the coordinator can always receive from a non-empty enqueuec *)
  destruct enqc as [|it enqc].
  2:{ exists LRecvEnq. unfold step. sproj. eexists. reflexivity. }
  (* ... and from a non-empty resc *)
  destruct resc as [|resc].
  2:{ exists LRecvRes. unfold step. sproj. eexists. reflexivity. }
  (* both empty: a worker that is not idle can move *)
  destruct (find_active ws) as [Hidle|[i [w [Hi Hw]]]].
  2:{ destruct w as [|[|k rest]|].
      - congruence.
      - exists (LFinish i). unfold step. sproj. rewrite Hi. eexists. reflexivity.
      - exists (LEnqueue i). unfold step. sproj. cbn [List.length]. rewrite Hi.
        rewrite (ltb_0_cap cap Hcap). eexists. reflexivity.
      - exists (LResult i). unfold step. sproj. rewrite Hi.
        rewrite (ltb_0_cap cap Hcap). eexists. reflexivity. }
  (* all workers idle *)
  destruct workc as [|item workc].
  2:{ exists (LTake 0). unfold step. sproj.
      rewrite (all_idle_first ws Hidle) by lia. eexists. reflexivity. }
  (* workc empty: the coordinator can send, because todo cannot be empty *)
  assert (Htodo : todo <> []).
  { destruct Hlive as [H|[H|H]].
    - exact H.
    - exfalso. apply H. rewrite Hout, Hidle. reflexivity.
    - exfalso. apply H. reflexivity. }
  destruct (last_opt_nonempty _ todo Htodo) as [x Hx].
  exists LSend. unfold step. sproj. cbn [List.length]. rewrite Hx.
  rewrite (ltb_0_cap cap Hcap). eexists. reflexivity.
Qed.

(** * 4. Termination *)

(** live directories strictly below an item *)
Definition below (t : tree) : nat := List.length (lives (to_enqueue t)).

(** Each live directory goes through seven steps: enqueue, receive from
    enqueuec, send on workc, take, finish, result, receive from resc.  An item
    at a given place has [a] of those left for its own directory and all seven
    for every directory below it. *)
Definition lsum (a : nat) (l : list tree) : nat :=
  list_sum (map (fun t => a + 7 * below t) l).

Definition wweight (w : wstate) : nat :=
  match w with
  | WIdle => 0
  | WBusy p => 3 + lsum 7 p
  | WDone => 2
  end.

(** the measure: the number of steps still to come (an upper bound; exact up
    to the steps saved when the re-check before the return finds an item) *)
Definition mu (s : state) : nat :=
  lsum 5 (s_todo s) + lsum 4 (s_workc s) + lsum 6 (s_enqc s)
  + wsum wweight (s_workers s) + s_resc s.

Lemma lsum_nil : forall a, lsum a [] = 0.
Proof. reflexivity. Qed.

Lemma lsum_cons : forall a t l, lsum a (t :: l) = a + 7 * below t + lsum a l.
Proof. reflexivity. Qed.

Lemma lsum_app : forall a l1 l2, lsum a (l1 ++ l2) = lsum a l1 + lsum a l2.
Proof.
  intros a l1 l2. unfold lsum. rewrite map_app, list_sum_app. reflexivity.
Qed.

Lemma live_length : forall t, List.length (live t) = 1 + below t.
Proof.
  intros [n sk kids]. unfold below, lives. simpl. destruct sk; reflexivity.
Qed.

Lemma lsum_7 : forall l, lsum 7 l = 7 * List.length (lives l).
Proof.
  induction l as [|t l IH].
  - reflexivity.
  - rewrite lsum_cons, IH. unfold lives. simpl flat_map.
    rewrite app_length, live_length. fold (lives l). lia.
Qed.

Lemma mu_rstep : forall cap l s s', rstep cap l s s' -> mu s' < mu s.
Proof.
  intros cap l s s' Hr.
  destruct Hr as
    [ todo x out workc enqc resc ws walked Hcap
    | todo out workc it enqc resc ws walked
    | todo out workc enqc resc ws walked Hmore
    | out workc it enqc resc ws walked Hz
    | out workc resc ws walked Hz
    | w todo out item workc enqc resc ws walked Hw
    | w k rest todo out workc enqc resc ws walked Hw Hcap
    | w todo out workc enqc resc ws walked Hw
    | w todo out workc enqc resc ws walked Hw Hcap ];
    unfold mu; simpl s_todo; simpl s_workc; simpl s_enqc; simpl s_workers; simpl s_resc.
  - rewrite !lsum_app, !lsum_cons, !lsum_nil. lia.
  - rewrite !lsum_app, !lsum_cons, !lsum_nil. lia.
  - lia.
  - rewrite !lsum_cons, !lsum_nil. lia.
  - lia.
  - pose proof (wsum_upd wweight w WIdle (WBusy (to_enqueue item)) ws Hw) as Hu.
    cbn [wweight] in Hu. rewrite lsum_7 in Hu. fold (below item) in Hu.
    rewrite lsum_cons. lia.
  - pose proof (wsum_upd wweight w (WBusy (k :: rest)) (WBusy rest) ws Hw) as Hu.
    cbn [wweight] in Hu. rewrite lsum_cons in Hu.
    rewrite lsum_app, lsum_cons, lsum_nil. lia.
  - pose proof (wsum_upd wweight w (WBusy []) WDone ws Hw) as Hu.
    cbn [wweight] in Hu. rewrite lsum_nil in Hu. lia.
  - pose proof (wsum_upd wweight w WDone WIdle ws Hw) as Hu.
    cbn [wweight] in Hu. lia.
Qed.

(** every step of the reference coordinator decreases the measure, in every
    state (reachable or not) *)
Theorem mu_decreases : forall cap s l s',
  step reference_coord cap s l = Some s' -> mu s' < mu s.
Proof.
  intros cap s l s' H. eapply mu_rstep. apply step_rstep. exact H.
Qed.

Lemma run_length : forall cap ls s s',
  run reference_coord cap s ls = Some s' -> List.length ls + mu s' <= mu s.
Proof.
  intros cap ls. induction ls as [|l ls IH]; intros s s' H; simpl in H.
  - inversion H. subst. simpl. lia.
  - destruct (step reference_coord cap s l) as [s1|] eqn:E; [|discriminate].
    apply mu_decreases in E. specialize (IH s1 s' H). simpl. lia.
Qed.

Lemma mu_init : forall nw root, mu (init nw root) + 2 = 7 * List.length (live root).
Proof.
  intros nw root. unfold mu, init. simpl s_todo. simpl s_workc. simpl s_enqc.
  simpl s_workers. simpl s_resc.
  rewrite wsum_repeat_idle by reflexivity.
  rewrite lsum_cons, !lsum_nil, live_length. lia.
Qed.

Theorem fastwalk_terminates : forall nw cap root ls s,
  run reference_coord cap (init nw root) ls = Some s ->
  List.length ls <= mu (init nw root).
Proof.
  intros nw cap root ls s H. apply run_length in H. lia.
Qed.

(** the bound in terms of the tree: seven steps per live directory, minus the
    two the root does not need *)
Corollary fastwalk_schedule_bound : forall nw cap root ls s,
  run reference_coord cap (init nw root) ls = Some s ->
  List.length ls + 2 <= 7 * List.length (live root).
Proof.
  intros nw cap root ls s H. apply fastwalk_terminates in H.
  rewrite <- (mu_init nw root). lia.
Qed.

(** * Every maximal run is a complete walk, and there is one from every state *)

Lemma reachable_step : forall c cap nw root s l s',
  reachable c cap nw root s -> step c cap s l = Some s' -> reachable c cap nw root s'.
Proof.
  intros c cap nw root s l s' [ls Hrun] Hstep. exists (ls ++ [l]).
  rewrite run_app, Hrun. simpl. rewrite Hstep. reflexivity.
Qed.

(** a reachable state in which no label is enabled has returned, having
    walked exactly the live directories *)
Corollary fastwalk_stuck_is_complete : forall nw cap root s,
  1 <= nw -> 1 <= cap ->
  reachable reference_coord cap nw root s ->
  (forall l, step reference_coord cap s l = None) ->
  s_returned s = true /\ Permutation (s_walked s) (live root).
Proof.
  intros nw cap root s Hnw Hcap Hreach Hstuck.
  assert (Hret : s_returned s = true).
  { destruct (s_returned s) eqn:E; auto.
    destruct (fastwalk_no_deadlock nw cap root s Hnw Hcap Hreach E) as [l [s' Hs]].
    rewrite Hstuck in Hs. discriminate. }
  split; auto. eapply fastwalk_complete; eauto.
Qed.

(** from every reachable state some schedule leads to the return *)
Corollary fastwalk_can_return : forall nw cap root s,
  1 <= nw -> 1 <= cap ->
  reachable reference_coord cap nw root s ->
  exists ls s', run reference_coord cap s ls = Some s' /\ s_returned s' = true.
Proof.
  intros nw cap root s Hnw Hcap.
  remember (mu s) as m eqn:Hm. revert s Hm.
  induction m as [m IH] using lt_wf_ind. intros s Hm Hreach.
  destruct (s_returned s) eqn:Eret.
  - exists [], s. split; auto.
  - destruct (fastwalk_no_deadlock nw cap root s Hnw Hcap Hreach Eret) as [l [s1 Hs]].
    assert (Hlt : mu s1 < m). { subst m. eapply mu_decreases. exact Hs. }
    destruct (IH (mu s1) Hlt s1 eq_refl (reachable_step _ _ _ _ _ _ _ Hreach Hs))
      as [ls [s' [Hrun Hret]]].
    exists (l :: ls), s'. split; auto. simpl. rewrite Hs. exact Hrun.
Qed.

(** * 5. The re-check before the return is necessary *)

Definition narrow : tree :=
  Node 0 false [Node 1 false [];
                Node 2 false [Node 3 false []; Node 4 false [Node 5 false []]]].

Definition small : tree :=
  Node 0 false [Node 1 false []; Node 2 false [Node 3 false []]].

(** the schedule found by [explore]: the only worker sends both sub-directories
    of the root and its result before the coordinator looks at enqueuec *)
Definition early_schedule : list label :=
  [LSend; LTake 0; LEnqueue 0; LEnqueue 0; LFinish 0; LResult 0; LRecvRes].

Example explore_early_return_2_2 :
  explore (100 * 1000) early_return_coord 2 2 narrow = Incomplete early_schedule [0].
Proof. vm_compute. reflexivity. Qed.

Example run_early_schedule :
  run early_return_coord 2 (init 2 narrow) early_schedule
  = Some (mkSt [] 0%Z []
            [Node 1 false [];
             Node 2 false [Node 3 false []; Node 4 false [Node 5 false []]]]
            0 [WIdle; WIdle] [0] true).
Proof. vm_compute. reflexivity. Qed.

(** the same schedule with the reference coordinator: the re-check finds the
    first sub-directory and the walk goes on *)
Example run_early_schedule_reference :
  run reference_coord 2 (init 2 narrow) early_schedule
  = Some (mkSt [Node 1 false []] 0%Z []
            [Node 2 false [Node 3 false []; Node 4 false [Node 5 false []]]]
            0 [WIdle; WIdle] [0] false).
Proof. vm_compute. reflexivity. Qed.

Theorem early_return_is_wrong :
  exists nw cap root ls s,
    1 <= cap /\
    run early_return_coord cap (init nw root) ls = Some s /\
    s_returned s = true /\
    ~ Permutation (s_walked s) (live root).
Proof.
  exists 2, 2, narrow, early_schedule.
  eexists. split; [lia|]. split; [apply run_early_schedule|].
  split; [reflexivity|].
  simpl. intros Hp. apply Permutation_length in Hp. simpl in Hp. discriminate.
Qed.

(** exhaustive exploration of small instances *)
Example explore_reference_2_2 :
  explore (100 * 1000) reference_coord 2 2 narrow = AllComplete 3892.
Proof. vm_compute. reflexivity. Qed.

Example explore_reference_1_1 :
  explore (100 * 1000) reference_coord 1 1 narrow = AllComplete 683.
Proof. vm_compute. reflexivity. Qed.

Example explore_early_return_1_1 :
  explore (100 * 1000) early_return_coord 1 1 narrow
  = Incomplete [LSend; LTake 0; LEnqueue 0; LRecvEnq; LSend; LEnqueue 0; LFinish 0;
                LResult 0; LRecvRes; LTake 0; LFinish 0; LResult 0; LRecvRes] [0; 1].
Proof. vm_compute. reflexivity. Qed.

Example explore_reference_3_1 :
  explore (100 * 1000) reference_coord 3 1 small = AllComplete 927.
Proof. vm_compute. reflexivity. Qed.

Example explore_early_return_3_1 :
  explore (100 * 1000) early_return_coord 3 1 small
  = Incomplete [LSend; LTake 0; LEnqueue 0; LRecvEnq; LSend; LEnqueue 0; LFinish 0;
                LResult 0; LRecvRes; LTake 0; LFinish 0; LResult 0; LRecvRes] [0; 1].
Proof. vm_compute. reflexivity. Qed.

(** * 6. Soundness of the search *)

(** every queue entry carries a schedule (most recent label first) that
    reaches its state *)
Definition entry_ok (c : coord) (cap : nat) (s0 : state) (p : state * list label) : Prop :=
  run c cap s0 (rev (snd p)) = Some (fst p).

Lemma succs_ok : forall c cap s0 s sch,
  run c cap s0 (rev sch) = Some s ->
  Forall (entry_ok c cap s0) (succs c cap s sch).
Proof.
  intros c cap s0 s sch Hrun. unfold succs.
  apply Forall_forall. intros [s' sch'] Hin.
  apply in_flat_map in Hin. destruct Hin as [l [_ Hl]].
  destruct (step c cap s l) as [s1|] eqn:E; simpl in Hl; [|contradiction].
  destruct Hl as [Hl|[]]. inversion Hl; subst s1 sch'; clear Hl.
  unfold entry_ok. simpl. rewrite run_app, Hrun. simpl. rewrite E. reflexivity.
Qed.

Lemma add_new_ok : forall c cap s0 cands seen back seen' back',
  Forall (entry_ok c cap s0) cands ->
  Forall (entry_ok c cap s0) back ->
  add_new cands seen back = (seen', back') ->
  Forall (entry_ok c cap s0) back'.
Proof.
  intros c cap s0 cands. induction cands as [|[s' sch] r IH];
    intros seen back seen' back' Hc Hb Hadd; simpl in Hadd.
  - inversion Hadd. subst. exact Hb.
  - inversion Hc as [|p q Hp Hq]; subst.
    destruct (mem_state s' seen).
    + eapply IH; [exact Hq|exact Hb|exact Hadd].
    + eapply IH; [exact Hq| |exact Hadd]. constructor; assumption.
Qed.

Lemma bfs_sound : forall c cap s0 want fuel seen front back n sch w,
  Forall (entry_ok c cap s0) front ->
  Forall (entry_ok c cap s0) back ->
  bfs fuel c cap want seen front back n = Incomplete sch w ->
  exists s, run c cap s0 sch = Some s /\ s_returned s = true /\ s_walked s = w
            /\ same_names w want = false.
Proof.
  intros c cap s0 want fuel. induction fuel as [|fuel IH];
    intros seen front back n sch w Hf Hb Hbfs; simpl in Hbfs; [discriminate|].
  destruct front as [|[s sch0] front'].
  - destruct back as [|p back']; [discriminate|].
    eapply IH; [| |exact Hbfs].
    + apply Forall_rev. exact Hb.
    + constructor.
  - inversion Hf as [|p q Hp Hq]; subst. unfold entry_ok in Hp. simpl in Hp.
    destruct (s_returned s) eqn:Eret.
    + destruct (same_names (s_walked s) want) eqn:Esame.
      * eapply IH; [exact Hq|exact Hb|exact Hbfs].
      * inversion Hbfs; subst sch w; clear Hbfs.
        exists s. auto.
    + destruct (add_new (succs c cap s sch0) seen back) as [seen' back'] eqn:Eadd.
      eapply IH; [exact Hq| |exact Hbfs].
      eapply add_new_ok; [|exact Hb|exact Eadd].
      apply succs_ok. exact Hp.
Qed.

(** [same_names] decides multiset equality *)
Lemma remove_one_in : forall x l,
  In x l -> exists l', remove_one x l = Some l' /\ Permutation l (x :: l').
Proof.
  intros x l. induction l as [|y l IH]; intros Hin; simpl in *; [contradiction|].
  destruct (Nat.eqb_spec x y) as [Heq|Hne].
  - subst y. exists l. split; auto.
  - destruct Hin as [Hin|Hin]; [congruence|].
    destruct (IH Hin) as [l' [Hr Hp]]. rewrite Hr.
    exists (y :: l'). split; auto.
    eapply perm_trans; [apply perm_skip; exact Hp|apply perm_swap].
Qed.

Lemma same_names_complete : forall l1 l2, Permutation l1 l2 -> same_names l1 l2 = true.
Proof.
  induction l1 as [|x l1 IH]; intros l2 Hp; simpl.
  - apply Permutation_nil in Hp. subst. reflexivity.
  - assert (Hin : In x l2). { eapply Permutation_in; [exact Hp|]. left. reflexivity. }
    destruct (remove_one_in x l2 Hin) as [l2' [Hr Hp2]]. rewrite Hr.
    apply IH. eapply Permutation_cons_inv. eapply perm_trans; [exact Hp|exact Hp2].
Qed.

(** a reported counterexample is a real run of the model that returns without
    having walked exactly the live directories *)
Theorem explore_sound : forall fuel c nw cap root sch w,
  explore fuel c nw cap root = Incomplete sch w ->
  exists s, run c cap (init nw root) sch = Some s /\ s_returned s = true /\ s_walked s = w
            /\ ~ Permutation w (live root).
Proof.
  intros fuel c nw cap root sch w H. unfold explore in H.
  apply (bfs_sound c cap (init nw root)) in H.
  - destruct H as [s [Hrun [Hret [Hw Hsame]]]].
    exists s. repeat split; auto.
    intros Hp. apply same_names_complete in Hp. congruence.
  - constructor; [|constructor]. unfold entry_ok. reflexivity.
  - constructor.
Qed.

(** hence the reference coordinator can never be reported incomplete *)
Corollary explore_reference_never_incomplete : forall fuel nw cap root sch w,
  1 <= cap -> explore fuel reference_coord nw cap root <> Incomplete sch w.
Proof.
  intros fuel nw cap root sch w Hcap H.
  apply explore_sound in H. destruct H as [s [Hrun [Hret [Hw Hnp]]]].
  apply Hnp. subst w. eapply fastwalk_complete; eauto. exists sch. exact Hrun.
Qed.

Print Assumptions fastwalk_complete.
Print Assumptions fastwalk_never_twice.
Print Assumptions fastwalk_walked_nodup.
Print Assumptions fastwalk_no_deadlock.
Print Assumptions fastwalk_terminates.
Print Assumptions fastwalk_schedule_bound.
Print Assumptions fastwalk_stuck_is_complete.
Print Assumptions fastwalk_can_return.
Print Assumptions early_return_is_wrong.
Print Assumptions explore_sound.
