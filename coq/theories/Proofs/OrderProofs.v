(** C05, order independence: when, inside each (dir, base, ext) bucket, all
    frame texts have the same length, the SET of sequences returned by
    FindSequencesInList does not depend on the order of the input list.

    Shape of the proof.  The first phase ([collect]) is a left fold of a bucket
    update over the (key, frame text) EVENTS of the numbered items; single
    files and skipped items do not touch the buckets.  For every key the
    frames of its bucket are the texts of its events in input order, so a
    permutation of the input permutes the contents of each bucket (and the
    buckets themselves: first-occurrence order).  [emit_bucket] reads
    [s_frames], and [s_padding] in the one-frame case only (where it is the
    padding of that frame's width); [s_minw] is never read.  With uniform
    widths the walk over the sorted frames never splits, and the single
    sequence it emits is built from the SORTED frame values, which a
    permutation does not change. *)
From Coq Require Import Permutation Sorted.
From GFS Require Import Base Dec Regex GenRegex GenPadTables Ranges Pad FrameSet Compress Path Seq Listing
  SpecSeq SpecListing DecProofs SplitProofs CompressProofs ListingProofs2 ListingProofs3 ListingProofs4 ListingProofs5.
Local Open Scope Z_scope.

(** * sorting a permutation *)

Lemma sorted_perm_eq : forall a b : list Z,
  StronglySorted Z.le a -> StronglySorted Z.le b -> Permutation a b -> a = b.
Proof.
  induction a as [|x a IH]; intros b Sa Sb P.
  - symmetry. apply Permutation_nil. exact P.
  - destruct b as [|y b].
    + apply Permutation_sym, Permutation_nil in P. discriminate P.
    + inversion Sa as [|? ? Sa' Ha]; subst. inversion Sb as [|? ? Sb' Hb]; subst.
      assert (E : x = y).
      { assert (I1 : In x (y :: b)) by (eapply Permutation_in; [exact P|left; reflexivity]).
        assert (I2 : In y (x :: a))
          by (eapply Permutation_in; [apply Permutation_sym; exact P|left; reflexivity]).
        rewrite Forall_forall in Ha, Hb.
        destruct I1 as [I1|I1]; [congruence|]. destruct I2 as [I2|I2]; [congruence|].
        pose proof (Ha y I2). pose proof (Hb x I1). lia. }
      subst y. f_equal. apply IH; [exact Sa'|exact Sb'|].
      eapply Permutation_cons_inv. exact P.
Qed.

Lemma zsort_perm_eq : forall l1 l2, Permutation l1 l2 -> zsort l1 = zsort l2.
Proof.
  intros l1 l2 P.
  destruct (zsort_sorted_perm l1) as [P1 S1]. destruct (zsort_sorted_perm l2) as [P2 S2].
  apply sorted_perm_eq; [exact S1|exact S2|].
  eapply Permutation_trans; [apply Permutation_sym; exact P1|].
  eapply Permutation_trans; [exact P|exact P2].
Qed.

(** FramesToFrameRange with sorting reads the SET of frames *)
Lemma f2r_perm : forall l1 l2 z, Permutation l1 l2 ->
  frames_to_frame_range l1 true z = frames_to_frame_range l2 true z.
Proof.
  intros l1 l2 z P. pose proof (Permutation_length P) as L.
  destruct l1 as [|a [|a' r1]].
  - apply Permutation_nil in P. subst l2. reflexivity.
  - apply Permutation_length_1_inv in P. subst l2. reflexivity.
  - destruct l2 as [|b [|b' r2]]; [discriminate L|discriminate L|].
    unfold frames_to_frame_range. rewrite (zsort_perm_eq _ _ P). reflexivity.
Qed.

(** * the walk does not split a bucket of uniform width *)

Definition emit_frames (o : lopts) (dir base ext pad : bytes) (l : list Z) (out : list fileseq)
  : outcome (list fileseq) :=
  match l with
  | [] => Ok out
  | _ => do fr <- frames_to_frame_range l true 0;
         do q <- append_seq o dir base fr pad ext;
         Ok (out ++ [q])
  end.

Lemma group_walk_uniform : forall o dir base ext fis w pad frames out,
  Forall (fun fi => blen (f_text fi) = w) fis ->
  group_walk o dir base ext fis w pad frames out =
  emit_frames o dir base ext pad (frames ++ map f_num fis) out.
Proof.
  intros o dir base ext fis. induction fis as [|fi rest IH]; intros w pad frames out H.
  - cbn [group_walk map]. rewrite app_nil_r. unfold emit_frames. destruct frames; reflexivity.
  - inversion H as [|? ? Hfi Hrest]; subst. cbn [group_walk].
    rewrite Z.eqb_refl. cbn [negb andb].
    rewrite (IH _ pad (frames ++ [f_num fi]) out Hrest).
    cbn [map]. rewrite <- app_assoc. reflexivity.
Qed.

Lemma emit_frames_perm : forall o dir base ext pad l1 l2 out, Permutation l1 l2 ->
  emit_frames o dir base ext pad l1 out = emit_frames o dir base ext pad l2 out.
Proof.
  intros o dir base ext pad l1 l2 out P. unfold emit_frames.
  destruct l1 as [|a r1].
  - apply Permutation_nil in P. subst l2. reflexivity.
  - destruct l2 as [|b r2].
    + apply Permutation_sym, Permutation_nil in P. discriminate P.
    + rewrite (f2r_perm _ _ 0 P). reflexivity.
Qed.

(** * one bucket: the emitted sequences depend on the frames as a multiset *)

Definition same_width (l : list finfo) : Prop :=
  forall fi fj, In fi l -> In fj l -> blen (f_text fi) = blen (f_text fj).

Theorem emit_bucket_perm : forall o k s1 s2,
  Permutation (s_frames s1) (s_frames s2) -> same_width (s_frames s1) ->
  (forall fi, s_frames s1 = [fi] -> s_padding s1 = s_padding s2) ->
  emit_bucket o k s1 = emit_bucket o k s2.
Proof.
  intros o [[dir base] ext] s1 s2 P U Hpad. unfold emit_bucket.
  pose proof (Permutation_length P) as L.
  destruct (s_frames s1) as [|f1 [|f2 r]] eqn:E1.
  - apply Permutation_nil in P. rewrite P. reflexivity.
  - apply Permutation_length_1_inv in P. rewrite P, (Hpad f1 eq_refl). reflexivity.
  - destruct (s_frames s2) as [|g1 [|g2 r']] eqn:E2; [discriminate L|discriminate L|].
    cbv zeta.
    set (fr1 := f1 :: f2 :: r) in *. set (fr2 := g1 :: g2 :: r') in *.
    set (W := blen (f_text f1)).
    assert (P' : Permutation (fi_sort fr1) (fi_sort fr2)).
    { eapply Permutation_trans; [apply Permutation_sym, fi_sort_perm|].
      eapply Permutation_trans; [exact P|apply fi_sort_perm]. }
    assert (U1 : Forall (fun fi => blen (f_text fi) = W) (fi_sort fr1)).
    { apply Forall_forall. intros fi Hin. apply U; [|left; reflexivity].
      eapply Permutation_in; [apply Permutation_sym, fi_sort_perm|exact Hin]. }
    assert (U2 : Forall (fun fi => blen (f_text fi) = W) (fi_sort fr2)).
    { eapply Permutation_Forall; [exact P'|exact U1]. }
    destruct (fi_sort fr1) as [|a S1] eqn:Es1.
    + apply Permutation_nil in P'. rewrite P'. reflexivity.
    + destruct (fi_sort fr2) as [|b S2] eqn:Es2.
      * apply Permutation_sym, Permutation_nil in P'. discriminate P'.
      * assert (Ea : blen (f_text a) = W) by (inversion U1; assumption).
        assert (Eb : blen (f_text b) = W) by (inversion U2; assumption).
        rewrite Ea, Eb, (group_walk_uniform _ _ _ _ _ _ _ _ _ U1),
                (group_walk_uniform _ _ _ _ _ _ _ _ _ U2).
        cbn [app]. apply emit_frames_perm. apply Permutation_map. exact P'.
Qed.

(** * buckets as a finite map *)

Lemma key_eq_refl : forall k, key_eq k k = true.
Proof. intros [[a b] c]. cbn [key_eq]. rewrite !beq_same. reflexivity. Qed.

Lemma key_eq_false : forall a b, a <> b -> key_eq a b = false.
Proof.
  intros a b H. destruct (key_eq a b) eqn:E; [|reflexivity].
  exfalso. apply H. apply key_eq_true. exact E.
Qed.

Lemma get_set : forall m k v k',
  bucket_get (bucket_set m k v) k' = if key_eq k k' then Some v else bucket_get m k'.
Proof.
  induction m as [|[k0 v0] m IH]; intros k v k'.
  - reflexivity.
  - cbn [bucket_set bucket_get]. destruct (key_eq k0 k) eqn:E0.
    + apply key_eq_true in E0. subst k0. cbn [bucket_get].
      destruct (key_eq k k'); reflexivity.
    + cbn [bucket_get]. rewrite IH. destruct (key_eq k0 k') eqn:E1; [|reflexivity].
      apply key_eq_true in E1. subst k'. rewrite key_eq_false; [reflexivity|].
      intros ->. rewrite key_eq_refl in E0. discriminate E0.
Qed.

Lemma get_none_notin : forall m k, bucket_get m k = None -> ~ In k (map fst m).
Proof.
  induction m as [|[k0 v0] m IH]; intros k H; [intros []|].
  cbn [bucket_get] in H. destruct (key_eq k0 k) eqn:E; [discriminate H|].
  cbn [map fst]. intros [->|Hin].
  - rewrite key_eq_refl in E. discriminate E.
  - exact (IH k H Hin).
Qed.

Lemma get_in : forall m k s, bucket_get m k = Some s -> In (k, s) m.
Proof.
  induction m as [|[k0 v0] m IH]; intros k s H; [discriminate H|].
  cbn [bucket_get] in H. destruct (key_eq k0 k) eqn:E.
  - apply key_eq_true in E. injection H as ->. subst k0. left. reflexivity.
  - right. apply IH. exact H.
Qed.

Lemma in_get : forall m k s, NoDup (map fst m) -> In (k, s) m -> bucket_get m k = Some s.
Proof.
  induction m as [|[k0 v0] m IH]; intros k s N H; [destruct H|].
  cbn [map fst] in N. inversion N as [|? ? Hk0 N']; subst.
  cbn [bucket_get]. destruct H as [H|H].
  - injection H as -> ->. rewrite key_eq_refl. reflexivity.
  - rewrite key_eq_false; [apply IH; assumption|].
    intros ->. apply Hk0. apply in_map_iff. exists (k, s). split; [reflexivity|exact H].
Qed.

(** * the first phase as a fold over the frame events *)

Definition mk_fi (t : bytes) : finfo := mkFI t (atoi_or_0 t) (frame_min_size t).

Definition upd (o : lopts) (seqs : list (skey * sinfo)) (kt : skey * bytes) : list (skey * sinfo) :=
  let '(key, frame) := kt in
  let w := blen frame in
  let fi := mk_fi frame in
  bucket_set seqs key
    match bucket_get seqs key with
    | None => mkSI [fi] (padding_chars (o_style o) w) w
    | Some s =>
      if w <? s_minw s then mkSI (s_frames s ++ [fi]) (padding_chars (o_style o) w) w
      else mkSI (s_frames s ++ [fi]) (s_padding s) (s_minw s)
    end.

Definition ev_of (o : lopts) (it : fitem) : list (skey * bytes) :=
  match classify o None it with IFrame k t => [(k, t)] | _ => [] end.
Definition events (o : lopts) (items : list fitem) : list (skey * bytes) := flat_map (ev_of o) items.

(** what a single file becomes *)
Definition single_of (o : lopts) (it : fitem) : option fileseq :=
  match classify o None it with
  | ISingle base frame ext =>
    if o_single o then
      match new_fileseq (fi_dir it ++ fi_name it) (o_style o) with
      | Ok q => Some (force_parts q base ext frame)
      | _ => None
      end
    else None
  | _ => None
  end.

Definition single_list (o : lopts) (it : fitem) : list fileseq :=
  match single_of o it with Some q => [q] | None => [] end.

Theorem collect_fold : forall o items seqs files seqs' files',
  collect o None items seqs files = Ok (seqs', files') ->
  seqs' = fold_left (upd o) (events o items) seqs /\
  files' = files ++ flat_map (single_list o) items.
Proof.
  intros o items. induction items as [|it rest IH]; intros seqs files seqs' files' H.
  - cbn [collect] in H. injection H as <- <-. cbn [flat_map]. rewrite app_nil_r.
    split; reflexivity.
  - cbn [collect] in H. unfold events. cbn [flat_map]. rewrite fold_left_app. fold (events o rest).
    unfold ev_of at 1. unfold single_list at 1, single_of at 1.
    destruct (classify o None it) as [|base frame ext|key frame] eqn:Ec.
    + exact (IH _ _ _ _ H).
    + destruct (o_single o) eqn:Es.
      * destruct (new_fileseq (fi_dir it ++ fi_name it) (o_style o)) as [q0| | |] eqn:En;
          cbn [bind] in H; try discriminate H.
        destruct (IH _ _ _ _ H) as (E1 & E2). split; [exact E1|].
        rewrite E2, <- app_assoc. reflexivity.
      * exact (IH _ _ _ _ H).
    + cbv zeta in H. exact (IH _ _ _ _ H).
Qed.

(** * the buckets after the fold *)

Definition frames_get (m : list (skey * sinfo)) (k : skey) : list finfo :=
  match bucket_get m k with Some s => s_frames s | None => [] end.

Definition frames_for (k : skey) (evs : list (skey * bytes)) : list finfo :=
  flat_map (fun kt => if key_eq (fst kt) k then [mk_fi (snd kt)] else []) evs.

Lemma upd_frames : forall o m k t k',
  frames_get (upd o m (k, t)) k' = frames_get m k' ++ (if key_eq k k' then [mk_fi t] else []).
Proof.
  intros o m k t k'. unfold frames_get, upd. cbv zeta. rewrite get_set.
  destruct (key_eq k k') eqn:E.
  - apply key_eq_true in E. subst k'.
    destruct (bucket_get m k) as [s|]; [|reflexivity].
    destruct (blen t <? s_minw s); reflexivity.
  - rewrite app_nil_r. reflexivity.
Qed.

Lemma fold_frames : forall o evs m k,
  frames_get (fold_left (upd o) evs m) k = frames_get m k ++ frames_for k evs.
Proof.
  intros o evs. induction evs as [|[k0 t0] evs IH]; intros m k.
  - cbn [fold_left frames_for flat_map]. rewrite app_nil_r. reflexivity.
  - cbn [fold_left]. rewrite IH, upd_frames. unfold frames_for. cbn [flat_map fst snd].
    rewrite <- app_assoc. reflexivity.
Qed.

Lemma upd_keys : forall o m kt, NoDup (map fst m) -> NoDup (map fst (upd o m kt)).
Proof.
  intros o m [k t] N. unfold upd. cbv zeta.
  destruct (bucket_get m k) as [s|] eqn:Eg.
  - match goal with |- context [bucket_set m k ?V] =>
      destruct (bucket_set_some m k V s Eg) as (m1 & m2 & Em & Es) end.
    rewrite Es. rewrite Em in N. rewrite map_app in *. exact N.
  - rewrite (bucket_set_none m k _ Eg). rewrite map_app. cbn [map fst].
    eapply Permutation_NoDup; [apply Permutation_cons_append|]. constructor; [|exact N].
    apply get_none_notin. exact Eg.
Qed.

Lemma fold_keys : forall o evs m, NoDup (map fst m) -> NoDup (map fst (fold_left (upd o) evs m)).
Proof.
  intros o evs. induction evs as [|e evs IH]; intros m N; [exact N|].
  cbn [fold_left]. apply IH. apply upd_keys. exact N.
Qed.

(** a bucket is never empty; a one-frame bucket carries that frame's padding *)
Definition bwf (o : lopts) (ks : skey * sinfo) : Prop :=
  s_frames (snd ks) <> [] /\
  forall fi, s_frames (snd ks) = [fi] -> s_padding (snd ks) = padding_chars (o_style o) (blen (f_text fi)).

Lemma upd_bwf : forall o m kt, Forall (bwf o) m -> Forall (bwf o) (upd o m kt).
Proof.
  intros o m [k t] H. unfold upd. cbv zeta.
  destruct (bucket_get m k) as [s|] eqn:Eg.
  - match goal with |- context [bucket_set m k ?V] =>
      destruct (bucket_set_some m k V s Eg) as (m1 & m2 & Em & Es) end.
    rewrite Es. rewrite Em in H. apply Forall_app in H. destruct H as [H1 H2].
    inversion H2 as [|? ? [Hne _] H3]; subst. cbn [snd] in Hne.
    apply Forall_app. split; [exact H1|]. constructor; [|exact H3].
    assert (Hfr : forall s', s_frames s' = s_frames s ++ [mk_fi t] -> bwf o (k, s')).
    { intros s' E. unfold bwf. cbn [snd]. rewrite E. split.
      - destruct (s_frames s); discriminate.
      - intros fi E'. destruct (s_frames s) as [|a [|b l]]; [congruence|discriminate E'|discriminate E']. }
    apply Hfr. destruct (blen t <? s_minw s); reflexivity.
  - rewrite (bucket_set_none m k _ Eg). apply Forall_app. split; [exact H|].
    constructor; [|constructor]. unfold bwf. cbn [snd s_frames s_padding]. split; [discriminate|].
    intros fi E. injection E as <-. reflexivity.
Qed.

Lemma fold_bwf : forall o evs m, Forall (bwf o) m -> Forall (bwf o) (fold_left (upd o) evs m).
Proof.
  intros o evs. induction evs as [|e evs IH]; intros m H; [exact H|].
  cbn [fold_left]. apply IH. apply upd_bwf. exact H.
Qed.

Lemma frames_for_perm : forall k evs1 evs2, Permutation evs1 evs2 ->
  Permutation (frames_for k evs1) (frames_for k evs2).
Proof. intros k evs1 evs2 P. unfold frames_for. apply Permutation_flat_map. exact P. Qed.

Lemma frames_for_in : forall k evs fi, In fi (frames_for k evs) ->
  exists t, fi = mk_fi t /\ In (k, t) evs.
Proof.
  intros k evs fi H. unfold frames_for in H. apply in_flat_map in H.
  destruct H as ([k0 t0] & Hin & Hfi). cbn [fst snd] in Hfi.
  destruct (key_eq k0 k) eqn:E; [|destruct Hfi].
  apply key_eq_true in E. subst k0. destruct Hfi as [<-|[]].
  exists t0. split; [reflexivity|exact Hin].
Qed.

(** any two frame texts of one key have the same length *)
Definition ev_uniform (evs : list (skey * bytes)) : Prop :=
  forall k t1 t2, In (k, t1) evs -> In (k, t2) evs -> blen t1 = blen t2.

(** a permutation of the events permutes the contents of every bucket, and
    with uniform widths every bucket emits the same sequences *)
Theorem fold_buckets_equiv : forall o evs1 evs2, Permutation evs1 evs2 -> ev_uniform evs1 ->
  forall k s1, In (k, s1) (fold_left (upd o) evs1 []) ->
  exists s2, In (k, s2) (fold_left (upd o) evs2 []) /\
             Permutation (s_frames s1) (s_frames s2) /\
             emit_bucket o k s1 = emit_bucket o k s2.
Proof.
  intros o evs1 evs2 P U k s1 Hin.
  set (m1 := fold_left (upd o) evs1 []) in *. set (m2 := fold_left (upd o) evs2 []).
  assert (N1 : NoDup (map fst m1)) by (apply fold_keys; constructor).
  assert (W1 : Forall (bwf o) m1) by (apply fold_bwf; constructor).
  assert (W2 : Forall (bwf o) m2) by (apply fold_bwf; constructor).
  pose proof (in_get m1 k s1 N1 Hin) as G1.
  assert (F1 : s_frames s1 = frames_for k evs1).
  { pose proof (fold_frames o evs1 [] k) as E. fold m1 in E. unfold frames_get in E.
    rewrite G1 in E. exact E. }
  rewrite Forall_forall in W1, W2.
  destruct (W1 _ Hin) as [Hne1 Hp1]. cbn [snd] in Hne1, Hp1.
  pose proof (frames_for_perm k _ _ P) as PF.
  pose proof (fold_frames o evs2 [] k) as E2. fold m2 in E2. unfold frames_get in E2.
  cbn [bucket_get app] in E2.
  destruct (bucket_get m2 k) as [s2|] eqn:G2.
  - pose proof (get_in m2 k s2 G2) as Hin2. exists s2. split; [exact Hin2|].
    assert (PS : Permutation (s_frames s1) (s_frames s2)) by (rewrite F1, E2; exact PF).
    split; [exact PS|].
    apply emit_bucket_perm.
    + exact PS.
    + intros fi fj Hi Hj. rewrite F1 in Hi, Hj.
      apply frames_for_in in Hi, Hj. destruct Hi as (ti & -> & Hi). destruct Hj as (tj & -> & Hj).
      cbn [mk_fi f_text]. exact (U k ti tj Hi Hj).
    + intros fi E. rewrite (Hp1 fi E).
      destruct (W2 _ Hin2) as [_ Hp2]. cbn [snd] in Hp2. symmetry. apply Hp2.
      rewrite E in PS. apply Permutation_length_1_inv in PS. exact PS.
  - exfalso. apply Hne1. rewrite F1. rewrite <- E2 in PF.
    apply Permutation_sym, Permutation_nil in PF. exact PF.
Qed.

Lemma ev_uniform_perm : forall evs1 evs2, Permutation evs1 evs2 -> ev_uniform evs1 -> ev_uniform evs2.
Proof.
  intros evs1 evs2 P U k t1 t2 H1 H2.
  apply (U k); eapply Permutation_in; try (apply Permutation_sym; exact P); assumption.
Qed.

(** * the second phase *)

Lemma emit_all_cons : forall o k s m a b, emit_bucket o k s = Ok a -> emit_all o m = Ok b ->
  emit_all o ((k, s) :: m) = Ok (a ++ b).
Proof. intros o k s m a b Ha Hb. cbn [emit_all]. rewrite Ha. cbn [bind]. rewrite Hb. reflexivity. Qed.

Lemma emit_all_cons_inv : forall o k s m qs, emit_all o ((k, s) :: m) = Ok qs ->
  exists a b, emit_bucket o k s = Ok a /\ emit_all o m = Ok b /\ qs = a ++ b.
Proof.
  intros o k s m qs H. cbn [emit_all] in H.
  destruct (emit_bucket o k s) as [a| | |]; cbn [bind] in H; try discriminate H.
  destruct (emit_all o m) as [b| | |]; cbn [bind] in H; try discriminate H.
  injection H as <-. exists a, b. repeat split.
Qed.

(** the buckets may be visited in any order (Go's map iteration) *)
Lemma emit_all_perm : forall o m m', Permutation m m' -> forall qs, emit_all o m = Ok qs ->
  exists qs', emit_all o m' = Ok qs' /\ Permutation qs qs'.
Proof.
  intros o m m' P. induction P as [|[k s] l l' P IH|[k1 s1] [k2 s2] l|l l' l'' P1 IH1 P2 IH2]; intros qs H.
  - exists qs. split; [exact H|apply Permutation_refl].
  - apply emit_all_cons_inv in H. destruct H as (a & b & Ha & Hb & ->).
    destruct (IH b Hb) as (b' & Hb' & Pb). exists (a ++ b').
    split; [apply emit_all_cons; assumption|apply Permutation_app_head; exact Pb].
  - apply emit_all_cons_inv in H. destruct H as (a2 & b2 & Ha2 & Hb2 & ->).
    apply emit_all_cons_inv in Hb2. destruct Hb2 as (a1 & b & Ha1 & Hb & ->).
    exists (a1 ++ a2 ++ b).
    split; [apply emit_all_cons; [exact Ha1|apply emit_all_cons; assumption]|].
    rewrite !app_assoc. apply Permutation_app_tail. apply Permutation_app_comm.
  - destruct (IH1 qs H) as (qs' & H' & P'). destruct (IH2 qs' H') as (qs'' & H'' & P'').
    exists qs''. split; [exact H''|]. eapply Permutation_trans; eassumption.
Qed.

(** two bucket lists with the same keys and equivalent buckets emit the same
    sequences, up to order *)
Lemma emit_all_equiv : forall o m1 m2, NoDup (map fst m1) -> NoDup (map fst m2) ->
  (forall k s1, In (k, s1) m1 -> exists s2, In (k, s2) m2 /\ emit_bucket o k s1 = emit_bucket o k s2) ->
  (forall k s2, In (k, s2) m2 -> exists s1, In (k, s1) m1) ->
  forall qs1, emit_all o m1 = Ok qs1 -> exists qs2, emit_all o m2 = Ok qs2 /\ Permutation qs1 qs2.
Proof.
  intros o m1. induction m1 as [|[k s1] m1 IH]; intros m2 N1 N2 H12 H21 qs1 H.
  - destruct m2 as [|[k2 s2] m2].
    + exists qs1. split; [exact H|apply Permutation_refl].
    + destruct (H21 k2 s2 (or_introl eq_refl)) as (s & []).
  - apply emit_all_cons_inv in H. destruct H as (a & b & Ha & Hb & ->).
    destruct (H12 k s1 (or_introl eq_refl)) as (s2 & Hin2 & Eeq).
    destruct (in_split _ _ Hin2) as (x & y & Em2).
    cbn [map fst] in N1. inversion N1 as [|? ? Hk N1']; subst.
    assert (N2' : NoDup (map fst (x ++ y)) /\ ~ In k (map fst (x ++ y))).
    { rewrite map_app in N2. cbn [map fst] in N2. rewrite map_app.
      split; [eapply NoDup_remove_1; exact N2|eapply NoDup_remove_2; exact N2]. }
    destruct N2' as [N2' Hk2].
    destruct (IH (x ++ y) N1' N2') with (qs1 := b) as (b' & Hb' & Pb).
    + intros k' s' Hin. destruct (H12 k' s' (or_intror Hin)) as (s2' & Hin' & E').
      exists s2'. split; [|exact E'].
      apply in_app_or in Hin'. apply in_or_app. destruct Hin' as [Hin'|[Hin'|Hin']]; [left; exact Hin'| |right; exact Hin'].
      exfalso. injection Hin' as -> _. apply Hk. apply in_map_iff. exists (k', s'). split; [reflexivity|exact Hin].
    + intros k' s' Hin.
      assert (Hin' : In (k', s') (x ++ (k, s2) :: y)).
      { apply in_app_or in Hin. apply in_or_app. destruct Hin; [left|right; right]; assumption. }
      destruct (H21 k' s' Hin') as (s & [E|Hs]); [|exists s; exact Hs].
      exfalso. injection E as -> _. apply Hk2. apply in_map_iff. exists (k', s'). split; [reflexivity|exact Hin].
    + exact Hb.
    + rewrite Eeq in Ha.
      destruct (emit_all_perm o ((k, s2) :: x ++ y) (x ++ (k, s2) :: y) (Permutation_middle _ _ _)
                  (a ++ b') (emit_all_cons _ _ _ _ _ _ Ha Hb')) as (qs2 & H2 & P2).
      exists qs2. split; [exact H2|].
      eapply Permutation_trans; [apply Permutation_app_head; exact Pb|exact P2].
Qed.

(** the two phases together, on event lists *)
Theorem emit_fold_perm : forall o evs1 evs2 qs1 qs2, Permutation evs1 evs2 -> ev_uniform evs1 ->
  emit_all o (fold_left (upd o) evs1 []) = Ok qs1 ->
  emit_all o (fold_left (upd o) evs2 []) = Ok qs2 ->
  Permutation qs1 qs2.
Proof.
  intros o evs1 evs2 qs1 qs2 P U H1 H2.
  destruct (emit_all_equiv o (fold_left (upd o) evs1 []) (fold_left (upd o) evs2 [])) with (qs1 := qs1)
    as (qs2' & H2' & PP).
  - apply fold_keys. constructor.
  - apply fold_keys. constructor.
  - intros k s1 Hin. destruct (fold_buckets_equiv o evs1 evs2 P U k s1 Hin) as (s2 & Hin2 & _ & E).
    exists s2. split; assumption.
  - intros k s2 Hin.
    destruct (fold_buckets_equiv o evs2 evs1 (Permutation_sym P) (ev_uniform_perm _ _ P U) k s2 Hin)
      as (s1 & Hin1 & _). exists s1. exact Hin1.
  - exact H1.
  - rewrite H2 in H2'. injection H2' as <-. exact PP.
Qed.

(** * the statement on paths *)

(** any two numbered paths with the same (dir, base, ext) have frame texts of
    equal length *)
Definition uniform_widths (paths : list bytes) : Prop :=
  forall p1 p2 d1 n1 b f1 e d2 n2 f2, In p1 paths -> In p2 paths ->
    item_of_path p1 = mkItem d1 n1 -> item_of_path p2 = mkItem d2 n2 -> d1 = d2 ->
    submatches R_optionalFramePattern n1 3 = Some [b; f1; e] ->
    submatches R_optionalFramePattern n2 3 = Some [b; f2; e] ->
    f1 <> [] -> f2 <> [] -> List.length f1 = List.length f2.

Lemma classify_frame_inv : forall o it k t, classify o None it = IFrame k t ->
  exists b e, k = (fi_dir it, b, e) /\
    submatches R_optionalFramePattern (fi_name it) 3 = Some [b; t; e] /\ t <> [].
Proof.
  intros o it k t H. unfold classify in H.
  destruct (negb (o_hidden o) && has_prefix (fi_name it) [c_dot]); [discriminate H|].
  destruct (submatches R_optionalFramePattern (fi_name it) 3) as [[|b [|f [|e [|y l]]]]|];
    try discriminate H.
  destruct f as [|c f']; [discriminate H|].
  exists b, e.
  destruct b as [|b0 b']; [destruct e as [|e0 e']; [discriminate H|]|];
    injection H as <- <-; (split; [reflexivity|split; [reflexivity|discriminate]]).
Qed.

Lemma events_uniform : forall o paths, uniform_widths paths ->
  ev_uniform (events o (map item_of_path paths)).
Proof.
  intros o paths U k t1 t2 H1 H2. unfold events in H1, H2.
  apply in_flat_map in H1, H2.
  destruct H1 as (it1 & Hi1 & He1). destruct H2 as (it2 & Hi2 & He2).
  apply in_map_iff in Hi1, Hi2.
  destruct Hi1 as (p1 & <- & Hp1). destruct Hi2 as (p2 & <- & Hp2).
  unfold ev_of in He1, He2.
  destruct (classify o None (item_of_path p1)) as [| |k1 u1] eqn:C1; [destruct He1|destruct He1|].
  destruct (classify o None (item_of_path p2)) as [| |k2 u2] eqn:C2; [destruct He2|destruct He2|].
  destruct He1 as [He1|[]]. destruct He2 as [He2|[]].
  injection He1 as -> ->. injection He2 as -> ->.
  apply classify_frame_inv in C1, C2.
  destruct C1 as (b1 & e1 & K1 & S1 & N1). destruct C2 as (b2 & e2 & K2 & S2 & N2).
  rewrite K1 in K2. injection K2 as Ed <- <-.
  unfold blen. f_equal.
  apply (U p1 p2 (fi_dir (item_of_path p1)) (fi_name (item_of_path p1)) b1 t1 e1
           (fi_dir (item_of_path p2)) (fi_name (item_of_path p2)) t2); try assumption.
  - destruct (item_of_path p1); reflexivity.
  - destruct (item_of_path p2); reflexivity.
Qed.

Lemma events_perm : forall o paths paths', Permutation paths paths' ->
  Permutation (events o (map item_of_path paths)) (events o (map item_of_path paths')).
Proof.
  intros o paths paths' P. unfold events. apply Permutation_flat_map. apply Permutation_map. exact P.
Qed.

(** The result of a permuted input is a permutation of the result: the same
    sequences (as values of the model's sequence record, hence the same
    strings, paths and paddings), each as many times. *)
Theorem order_independent_perm : forall paths paths' opts,
  NoDup (map path_clean paths) -> Forall (fun p => name_ok (path_clean p)) paths -> uniform_widths paths ->
  Permutation paths paths' ->
  exists seqs seqs', find_in_list paths opts = Ok seqs /\ find_in_list paths' opts = Ok seqs' /\
    Permutation seqs seqs'.
Proof.
  intros paths paths' opts HN HF HU P.
  assert (HN' : NoDup (map path_clean paths')).
  { eapply Permutation_NoDup; [apply Permutation_map; exact P|exact HN]. }
  assert (HF' : Forall (fun p => name_ok (path_clean p)) paths').
  { eapply Permutation_Forall; [exact P|exact HF]. }
  destruct (find_in_list_decomp paths opts HN HF) as (m1 & fs1 & sg1 & Hc1 & He1 & Hr1 & _).
  destruct (find_in_list_decomp paths' opts HN' HF') as (m2 & fs2 & sg2 & Hc2 & He2 & Hr2 & _).
  set (o := parse_opts opts (mkLO false false default_style)) in *.
  destruct (collect_fold o _ _ _ _ _ Hc1) as (Em1 & Eg1).
  destruct (collect_fold o _ _ _ _ _ Hc2) as (Em2 & Eg2).
  cbn [app] in Eg1, Eg2.
  pose proof (events_perm o _ _ P) as PE.
  pose proof (events_uniform o paths HU) as UE.
  rewrite Em1 in He1. rewrite Em2 in He2.
  pose proof (emit_fold_perm o _ _ _ _ PE UE He1 He2) as Pfs.
  assert (Psg : Permutation sg1 sg2).
  { rewrite Eg1, Eg2. apply Permutation_flat_map. apply Permutation_map. exact P. }
  eexists. eexists. split; [exact Hr1|]. split; [exact Hr2|].
  destruct (o_single o); [apply Permutation_app; assumption|exact Pfs].
Qed.

(** C05, order independence: the SET of sequence strings does not depend on
    the order of the input list (with or without the SingleFiles option) *)
Theorem order_independent : forall paths paths' opts,
  NoDup (map path_clean paths) -> Forall (fun p => name_ok (path_clean p)) paths -> uniform_widths paths ->
  Permutation paths paths' ->
  exists seqs seqs', find_in_list paths opts = Ok seqs /\ find_in_list paths' opts = Ok seqs' /\
    (forall s, In s (map q_string seqs) <-> In s (map q_string seqs')).
Proof.
  intros paths paths' opts HN HF HU P.
  destruct (order_independent_perm paths paths' opts HN HF HU P) as (seqs & seqs' & H1 & H2 & PP).
  exists seqs, seqs'. split; [exact H1|]. split; [exact H2|].
  intros s. split; apply Permutation_in; [|apply Permutation_sym]; apply Permutation_map; exact PP.
Qed.

(** * a decision procedure for the width hypothesis, and examples *)

Definition frame_key (p : bytes) : option (skey * bytes) :=
  let it := item_of_path p in
  match submatches R_optionalFramePattern (fi_name it) 3 with
  | Some [b; f; e] => match f with [] => None | _ => Some ((fi_dir it, b, e), f) end
  | _ => None
  end.

Definition uniform_widthsb (paths : list bytes) : bool :=
  forallb (fun p1 => forallb (fun p2 =>
    match frame_key p1, frame_key p2 with
    | Some (k1, f1), Some (k2, f2) =>
      if key_eq k1 k2 then Nat.eqb (List.length f1) (List.length f2) else true
    | _, _ => true
    end) paths) paths.

Lemma uniform_widthsb_ok : forall paths, uniform_widthsb paths = true -> uniform_widths paths.
Proof.
  intros paths H p1 p2 d1 n1 b f1 e d2 n2 f2 Hp1 Hp2 E1 E2 Ed S1 S2 N1 N2.
  unfold uniform_widthsb in H. rewrite forallb_forall in H.
  pose proof (H p1 Hp1) as H'. rewrite forallb_forall in H'. pose proof (H' p2 Hp2) as H''.
  assert (K1 : frame_key p1 = Some ((d1, b, e), f1)).
  { unfold frame_key. rewrite E1. cbn [fi_name fi_dir]. rewrite S1. destruct f1; [congruence|reflexivity]. }
  assert (K2 : frame_key p2 = Some ((d1, b, e), f2)).
  { unfold frame_key. rewrite E2. cbn [fi_name fi_dir]. rewrite S2, Ed. destruct f2; [congruence|reflexivity]. }
  rewrite K1, K2, key_eq_refl in H''. apply Nat.eqb_eq. exact H''.
Qed.

(** non-vacuity: a list that meets the three hypotheses *)
Example order_hypotheses_satisfiable :
  let paths := [s2b "a/foo.0002.exr"; s2b "a/foo.0010.exr"; s2b "a/foo.0001.exr"; s2b "a/bar.7.exr"; s2b "a/notes.txt"] in
  NoDup (map path_clean paths) /\ Forall (fun p => name_ok (path_clean p)) paths /\ uniform_widths paths.
Proof.
  cbv zeta. split; [|split].
  - apply ListingProofs5.nodupb_NoDup. vm_compute. reflexivity.
  - repeat apply Forall_cons; try apply Forall_nil.
    + eapply (ListingProofs5.name_ok_example _ _ _ _ 2%Z); try (vm_compute; reflexivity).
      * apply ListingProofs5.is_bytes_b. vm_compute. reflexivity.
      * intros ds. vm_compute. discriminate.
      * right. split; [vm_compute; reflexivity|]. unfold small. lia.
    + eapply (ListingProofs5.name_ok_example _ _ _ _ 10%Z); try (vm_compute; reflexivity).
      * apply ListingProofs5.is_bytes_b. vm_compute. reflexivity.
      * intros ds. vm_compute. discriminate.
      * right. split; [vm_compute; reflexivity|]. unfold small. lia.
    + eapply (ListingProofs5.name_ok_example _ _ _ _ 1%Z); try (vm_compute; reflexivity).
      * apply ListingProofs5.is_bytes_b. vm_compute. reflexivity.
      * intros ds. vm_compute. discriminate.
      * right. split; [vm_compute; reflexivity|]. unfold small. lia.
    + eapply (ListingProofs5.name_ok_example _ _ _ _ 7%Z); try (vm_compute; reflexivity).
      * apply ListingProofs5.is_bytes_b. vm_compute. reflexivity.
      * intros ds. vm_compute. discriminate.
      * right. split; [vm_compute; reflexivity|]. unfold small. lia.
    + eapply (ListingProofs5.name_ok_example _ _ _ _ 0%Z); try (vm_compute; reflexivity).
      * apply ListingProofs5.is_bytes_b. vm_compute. reflexivity.
      * intros ds. vm_compute. discriminate.
      * left. reflexivity.
  - apply uniform_widthsb_ok. vm_compute. reflexivity.
Qed.

(** the width hypothesis is needed: with mixed widths the grouping follows the
    running minimum width, which depends on the order (foo_49 alone, or
    foo_49 taking the unpadded four-digit frames with it) *)
Example mixed_widths_order_dependent :
  let paths := [s2b "foo_0510"; s2b "foo_4606"; s2b "foo_3394"; s2b "foo_6925"; s2b "foo_49"] in
  uniform_widthsb paths = false /\
  match find_in_list paths [K_SingleFiles], find_in_list (rev paths) [K_SingleFiles] with
  | Ok a, Ok b =>
    map q_string a = [s2b "foo_49@@"; s2b "foo_510-3394x2884,4606,6925#"] /\
    map q_string b = [s2b "foo_49-3394x3345,4606,6925@@"; s2b "foo_510#"]
  | _, _ => False
  end.
Proof. vm_compute. repeat split; reflexivity. Qed.

Print Assumptions emit_bucket_perm.
Print Assumptions order_independent_perm.
Print Assumptions order_independent.
