(** Listing, stage D (end): without SingleFiles the result is the numbered
    half of the result with SingleFiles; the listing never panics. *)
From Coq Require Import Permutation.
From GFS Require Import Base Dec Regex GenRegex GenPadTables Ranges Pad FrameSet Compress Path Seq Listing
  SpecRange SpecSeq RegexKit RangeRegex DecProofs PadProofs SplitProofs CompressProofs Glue
  FramePathProofs SpecListing ListingProofs1 ListingProofs2 ListingProofs3 ListingProofs4.
Local Open Scope nat_scope.

(** * what depends on which option *)

Lemma append_seq_style : forall o o' dir base fr pad ext, o_style o = o_style o' ->
  append_seq o dir base fr pad ext = append_seq o' dir base fr pad ext.
Proof. intros. unfold append_seq. rewrite H. reflexivity. Qed.

Lemma group_walk_style : forall o o' dir base ext, o_style o = o_style o' ->
  forall fis w pad frames out,
  group_walk o dir base ext fis w pad frames out = group_walk o' dir base ext fis w pad frames out.
Proof.
  intros o o' dir base ext H. induction fis as [|fi rest IH]; intros w pad frames out; cbn [group_walk].
  - destruct frames; [reflexivity|].
    destruct (frames_to_frame_range _ true 0%Z); cbn [bind]; try reflexivity.
    rewrite (append_seq_style o o') by exact H. reflexivity.
  - destruct (negb _ && _).
    + destruct (frames_to_frame_range _ true 0%Z); cbn [bind]; try reflexivity.
      rewrite (append_seq_style o o') by exact H.
      destruct (append_seq o' dir base a pad ext); cbn [bind]; try reflexivity.
      rewrite H. apply IH.
    + apply IH.
Qed.

Lemma emit_bucket_style : forall o o' k s, o_style o = o_style o' -> emit_bucket o k s = emit_bucket o' k s.
Proof.
  intros o o' [[dir base] ext] s H. unfold emit_bucket.
  destruct (s_frames s) as [|f1 [|f2 r]]; [reflexivity| |].
  - rewrite (append_seq_style o o') by exact H. reflexivity.
  - destruct (fi_sort _); [reflexivity|]. rewrite H. apply group_walk_style. exact H.
Qed.

Lemma emit_all_style : forall o o' m, o_style o = o_style o' -> emit_all o m = emit_all o' m.
Proof.
  intros o o' m H. induction m as [|[k s] m IH]; [reflexivity|]. cbn [emit_all].
  rewrite (emit_bucket_style o o' k s H), IH. reflexivity.
Qed.

Lemma classify_hidden : forall o o' tmpl it, o_hidden o = o_hidden o' -> classify o tmpl it = classify o' tmpl it.
Proof. intros. unfold classify. rewrite H. reflexivity. Qed.

Lemma collect_seqs_indep : forall o o', o_hidden o = o_hidden o' -> o_style o = o_style o' ->
  forall items seqs files files' r r',
  collect o None items seqs files = Ok r -> collect o' None items seqs files' = Ok r' -> fst r = fst r'.
Proof.
  intros o o' Hh Hs. induction items as [|it rest IH]; intros seqs files files' r r' H H'; cbn [collect] in *.
  - injection H as <-. injection H' as <-. reflexivity.
  - rewrite (classify_hidden o o' None it Hh) in H.
    destruct (classify o' None it) as [|b t e|key t].
    + eapply IH; eassumption.
    + destruct (o_single o), (o_single o').
      * destruct (new_fileseq _ (o_style o)); try discriminate H.
        destruct (new_fileseq _ (o_style o')); try discriminate H'.
        cbn [bind] in *. eapply IH; eassumption.
      * destruct (new_fileseq _ (o_style o)); try discriminate H. cbn [bind] in *. eapply IH; eassumption.
      * destruct (new_fileseq _ (o_style o')); try discriminate H'. cbn [bind] in *. eapply IH; eassumption.
      * eapply IH; eassumption.
    + rewrite Hs in H. eapply IH; eassumption.
Qed.

Lemma parse_opts_filter : forall opts o0 o0', o_hidden o0 = o_hidden o0' -> o_style o0 = o_style o0' ->
  let o := parse_opts opts o0 in
  let o' := parse_opts (filter (fun z => negb (Z.eqb K_SingleFiles z)) opts) o0' in
  o_hidden o = o_hidden o' /\ o_style o = o_style o' /\ o_single o' = o_single o0'.
Proof.
  induction opts as [|z opts IH]; intros o0 o0' Hh Hs; cbn [parse_opts filter]; [auto|].
  rewrite (Z.eqb_sym K_SingleFiles z).
  unfold K_SingleFiles, K_HiddenFiles, K_FileOptPadStyleHash1, K_FileOptPadStyleHash4 in *.
  destruct (Z.eqb_spec z 1); cbn [negb].
  - apply IH; [exact Hh|exact Hs].
  - cbn [parse_opts]. unfold K_SingleFiles, K_HiddenFiles, K_FileOptPadStyleHash1, K_FileOptPadStyleHash4.
    rewrite (proj2 (Z.eqb_neq z 1)) by assumption.
    destruct (Z.eqb_spec z 0); [|destruct (Z.eqb_spec z 2); [|destruct (Z.eqb_spec z 3)]].
    + destruct (IH (mkLO (o_single o0) true (o_style o0)) (mkLO (o_single o0') true (o_style o0'))) as (A & B & C);
        [reflexivity|exact Hs|]. auto.
    + destruct (IH (mkLO (o_single o0) (o_hidden o0) Hash1) (mkLO (o_single o0') (o_hidden o0') Hash1)) as (A & B & C);
        [exact Hh|reflexivity|]. auto.
    + destruct (IH (mkLO (o_single o0) (o_hidden o0) Hash4) (mkLO (o_single o0') (o_hidden o0') Hash4)) as (A & B & C);
        [exact Hh|reflexivity|]. auto.
    + apply IH; assumption.
Qed.

(** * classification in terms of the cleaned path *)

Lemma map_filter_items : forall paths (g : fitem -> bool) (g' : bytes -> bool),
  (forall p, In p paths -> ipath (item_of_path p) = path_clean p /\ g (item_of_path p) = g' (path_clean p)) ->
  map ipath (filter g (map item_of_path paths)) = filter g' (map path_clean paths).
Proof.
  induction paths as [|p l IH]; intros g g' E; [reflexivity|]. cbn [filter map].
  destruct (E p (or_introl eq_refl)) as [E1 E2]. rewrite E2.
  assert (IH' := IH g g' (fun q Hq => E q (or_intror Hq))).
  destruct (g' (path_clean p)); cbn [map]; rewrite ?E1, IH'; reflexivity.
Qed.

Lemma is_frame_numbered : forall o p, name_ok (path_clean p) ->
  ipath (item_of_path p) = path_clean p /\
  is_frame o (item_of_path p) = visible (o_hidden o) (path_clean p) && numbered (path_clean p) /\
  is_single o (item_of_path p) = visible (o_hidden o) (path_clean p) && negb (numbered (path_clean p)).
Proof.
  intros o p Hp. destruct (item_of_path_ok p Hp) as (d & x & IO & E1 & E2).
  split; [exact E1|].
  destruct (classify_cases o d x _ IO) as (b & t & e & Ho & _ & _ & _ & Hc).
  unfold is_frame, is_single, numbered. rewrite Hc, <- E2, Ho.
  unfold ivisible, visible. rewrite E2.
  destruct (o_hidden o || negb (has_prefix (snd (path_split (path_clean p))) [c_dot])); cbn [negb andb].
  - destruct t as [|c0 t']; [split; reflexivity|]. destruct b, e; split; reflexivity.
  - split; reflexivity.
Qed.

(** * without SingleFiles *)

Theorem no_single_is_filter : forall paths opts,
  NoDup (map path_clean paths) -> Forall (fun p => name_ok (path_clean p)) paths ->
  existsb (Z.eqb K_SingleFiles) opts = true ->
  let hidden := existsb (Z.eqb K_HiddenFiles) opts in
  let opts0 := filter (fun z => negb (Z.eqb K_SingleFiles z)) opts in
  exists fseqs files,
    find_in_list paths opts = Ok (fseqs ++ files) /\
    find_in_list paths opts0 = Ok fseqs /\
    Permutation (flat_map q_paths fseqs)
      (filter (fun p => visible hidden p && numbered p) (map path_clean paths)) /\
    flat_map q_paths files =
      filter (fun p => visible hidden p && negb (numbered p)) (map path_clean paths).
Proof.
  intros paths opts HN HF Hs hidden opts0.
  destruct (find_in_list_decomp paths opts HN HF) as (seqs & fseqs & singles & Hc & He & Hr & Hp & H1 & _).
  destruct (find_in_list_decomp paths opts0 HN HF) as (seqs0 & fseqs0 & singles0 & Hc0 & He0 & Hr0 & _ & _ & H20).
  set (o := parse_opts opts (mkLO false false default_style)) in *.
  set (o0 := parse_opts opts0 (mkLO false false default_style)) in *.
  set (items := map item_of_path paths) in *.
  destruct (parse_opts_filter opts (mkLO false false default_style) (mkLO false false default_style)
              eq_refl eq_refl) as (Hh & Hst & Hs0).
  fold opts0 in Hh, Hst, Hs0. fold o in Hh, Hst. fold o0 in Hh, Hst, Hs0. cbn [o_single] in Hs0.
  assert (Hso : o_single o = true) by (unfold o; rewrite parse_opts_single, Hs; reflexivity).
  assert (Hho : o_hidden o = hidden) by (unfold o; rewrite parse_opts_hidden; reflexivity).
  rewrite Hso in Hr. rewrite Hs0 in Hr0.
  pose proof (collect_seqs_indep o o0 Hh Hst items [] [] [] _ _ Hc Hc0) as Eseq. cbn [fst] in Eseq.
  subst seqs0. rewrite (emit_all_style o o0 seqs Hst) in He. rewrite He in He0. injection He0 as <-.
  exists fseqs, singles. split; [exact Hr|]. split; [exact Hr0|].
  assert (E : forall p, In p paths -> _) by (intros p Hp'; rewrite Forall_forall in HF; exact (is_frame_numbered o p (HF p Hp'))).
  rewrite Hho in E. split.
  - eapply Permutation_trans; [exact Hp|]. apply Permutation_refl'. unfold items.
    apply map_filter_items. intros p Hp'. destruct (E p Hp') as (A & B & _). split; assumption.
  - rewrite (H1 Hso). unfold items.
    apply map_filter_items. intros p Hp'. destruct (E p Hp') as (A & _ & C). split; assumption.
Qed.

(** * no panic, whatever the input *)

Lemma benign_bind : forall (A B : Type) (x : outcome A) (f : A -> outcome B),
  benign x -> (forall a, benign (f a)) -> benign (bind x f).
Proof. intros A B x f Hx Hf. destruct x; cbn [bind benign] in *; try contradiction; auto. Qed.

Lemma new_fileseq_benign : forall s st, benign (new_fileseq s st).
Proof.
  intros s st. unfold new_fileseq, new_single.
  repeat match goal with
         | |- benign (match ?X with _ => _ end) => destruct X
         | |- benign (if ?X then _ else _) => destruct X
         | |- benign (let '(_, _) := ?X in _) => destruct X
         end; exact I.
Qed.

Lemma f2r_benign : forall l sorted z, benign (frames_to_frame_range l sorted z).
Proof.
  intros l sorted z. destruct l as [|a r]; [exact I|].
  destruct (f2r_shape (a :: r) sorted z ltac:(discriminate)) as (c & cs & _ & E). rewrite E. exact I.
Qed.

Lemma append_seq_benign : forall o dir base fr pad ext, benign (append_seq o dir base fr pad ext).
Proof.
  intros. unfold append_seq. apply benign_bind; [apply new_fileseq_benign|]. intros q. exact I.
Qed.

Lemma group_walk_benign : forall o dir base ext fis w pad frames out,
  benign (group_walk o dir base ext fis w pad frames out).
Proof.
  intros o dir base ext. induction fis as [|fi rest IH]; intros w pad frames out; cbn [group_walk].
  - destruct frames; [exact I|]. apply benign_bind; [apply f2r_benign|]. intros fr.
    apply benign_bind; [apply append_seq_benign|]. intros q. exact I.
  - destruct (negb _ && _); [|apply IH].
    apply benign_bind; [apply f2r_benign|]. intros fr.
    apply benign_bind; [apply append_seq_benign|]. intros q. apply IH.
Qed.

Lemma emit_bucket_benign : forall o k s, benign (emit_bucket o k s).
Proof.
  intros o [[dir base] ext] s. unfold emit_bucket.
  destruct (s_frames s) as [|f1 [|f2 r]]; [exact I| |].
  - apply benign_bind; [apply append_seq_benign|]. intros q. exact I.
  - destruct (fi_sort _); [exact I|]. apply group_walk_benign.
Qed.

Lemma emit_all_benign : forall o m, benign (emit_all o m).
Proof.
  intros o m. induction m as [|[k s] m IH]; [exact I|]. cbn [emit_all].
  apply benign_bind; [apply emit_bucket_benign|]. intros a.
  apply benign_bind; [exact IH|]. intros b. exact I.
Qed.

Lemma collect_benign : forall o tmpl items seqs files, benign (collect o tmpl items seqs files).
Proof.
  intros o tmpl. induction items as [|it rest IH]; intros seqs files; cbn [collect]; [exact I|].
  destruct (classify o tmpl it); [apply IH| |apply IH].
  destruct (o_single o); [|apply IH].
  apply benign_bind; [apply new_fileseq_benign|]. intros q. apply IH.
Qed.

Lemma find_items_benign : forall items opts tmpl, benign (find_items items opts tmpl).
Proof.
  intros items opts tmpl. unfold find_items.
  apply benign_bind; [apply collect_benign|]. intros [seqs files].
  apply benign_bind; [apply emit_all_benign|]. intros fseqs. exact I.
Qed.

(** FindSequencesInList returns a list or an error on every input *)
Theorem listing_no_panic : forall paths opts, benign (find_in_list paths opts).
Proof. intros paths opts. apply find_items_benign. Qed.

Print Assumptions no_single_is_filter.
Print Assumptions listing_no_panic.

(** * the hypotheses are satisfiable: a concrete listing *)

Lemma name_ok_example : forall p b f e v,
  is_bytes p -> no_byte 10 p = true -> no_token p = true ->
  submatches R_optionalFramePattern (snd (path_split p)) 3 = Some [b; f; e] ->
  (forall ds, f <> 45 :: ds) -> (f = [] \/ (atoi f = Some v /\ small v)) -> name_ok p.
Proof.
  intros p b f e v Hb Hn Ht Ho Hm Hv. split; [exact Hb|]. split; [exact Hn|]. split; [exact Ht|].
  intros b' f' e' Ho' Hne. rewrite Ho in Ho'. injection Ho' as <- <- <-.
  split; [intros ds E; exfalso; exact (Hm ds E)|]. destruct Hv as [->|Hv]; [congruence|]. exists v. exact Hv.
Qed.

Lemma is_bytes_b : forall s, forallb (fun c => Nat.ltb c 256) s = true -> is_bytes s.
Proof.
  intros s H. unfold is_bytes. apply Forall_forall. intros c Hc.
  rewrite forallb_forall in H. apply Nat.ltb_lt. apply H. exact Hc.
Qed.

Fixpoint nodupb (l : list bytes) : bool :=
  match l with [] => true | a :: r => negb (existsb (beq a) r) && nodupb r end.

Lemma nodupb_NoDup : forall l, nodupb l = true -> NoDup l.
Proof.
  induction l as [|a r IH]; intros H; [constructor|]. cbn [nodupb] in H.
  apply andb_true_iff in H. destruct H as [H1 H2]. constructor; [|apply IH; exact H2].
  intros Hin. apply negb_true_iff in H1.
  assert (existsb (beq a) r = true); [|congruence].
  apply existsb_exists. exists a. split; [exact Hin|apply beq_same].
Qed.

Example listing_example :
  let paths := [s2b "a/foo.0002.exr"; s2b "./a/x/../foo.0001.exr"; s2b "a/foo.10.exr"; s2b "a/notes.txt"; s2b "a/.hidden"] in
  NoDup (map path_clean paths) /\ Forall (fun p => name_ok (path_clean p)) paths.
Proof.
  cbv zeta. split.
  - apply nodupb_NoDup. vm_compute. reflexivity.
  - repeat apply Forall_cons; try apply Forall_nil.
    + eapply (name_ok_example _ _ _ _ 2%Z); try (vm_compute; reflexivity).
      * apply is_bytes_b. vm_compute. reflexivity.
      * intros ds. vm_compute. discriminate.
      * right. split; [vm_compute; reflexivity|]. unfold small. lia.
    + eapply (name_ok_example _ _ _ _ 1%Z); try (vm_compute; reflexivity).
      * apply is_bytes_b. vm_compute. reflexivity.
      * intros ds. vm_compute. discriminate.
      * right. split; [vm_compute; reflexivity|]. unfold small. lia.
    + eapply (name_ok_example _ _ _ _ 10%Z); try (vm_compute; reflexivity).
      * apply is_bytes_b. vm_compute. reflexivity.
      * intros ds. vm_compute. discriminate.
      * right. split; [vm_compute; reflexivity|]. unfold small. lia.
    + eapply (name_ok_example _ _ _ _ 0%Z); try (vm_compute; reflexivity).
      * apply is_bytes_b. vm_compute. reflexivity.
      * intros ds. vm_compute. discriminate.
      * left. reflexivity.
    + eapply (name_ok_example _ _ _ _ 0%Z); try (vm_compute; reflexivity).
      * apply is_bytes_b. vm_compute. reflexivity.
      * intros ds. vm_compute. discriminate.
      * left. reflexivity.
Qed.
