(** C10 - Pad characters and pad widths convert consistently in both pad styles.
    Theorem statements only; proofs live in Proofs/PadProofs.v. *)
From GFS Require Import Base Dec Regex GenRegex GenPadTables Ranges Pad FrameSet Path Seq DecProofs PadProofs TokenProofs.
Local Open Scope Z_scope.

(** width -> pad characters -> width is the identity for every width >= 1,
    under either style (no upper bound on the width) *)
Theorem pad_roundtrip : forall (st : pstyle) (n : Z), 1 <= n ->
  padding_chars_size st (padding_chars st n) = n.
Proof. exact pad_roundtrip_proof. Qed.
Print Assumptions pad_roundtrip.

(** '#' counts 4 under the default style and 1 under hash1; '@' counts 1 *)
Theorem hash_counts : forall st,
  padding_chars_size st [c_hash] = match st with Hash4 => 4 | Hash1 => 1 end.
Proof. exact size_hash. Qed.
Print Assumptions hash_counts.

Theorem at_counts : forall st, padding_chars_size st [c_at] = 1.
Proof. exact size_at. Qed.
Print Assumptions at_counts.

(** the UDIM tokens count 4 *)
Theorem udim_counts : forall st,
  padding_chars_size st (s2b "<UDIM>") = 4 /\ padding_chars_size st (s2b "%(UDIM)d") = 4.
Proof. exact size_udim. Qed.
Print Assumptions udim_counts.

(** %0Nd and %Nd count N; 1 when N is absent, zero, or does not fit an int - for every digit string *)
Theorem printf_counts : forall st ds, all_digits ds ->
  padding_chars_size st (37%nat :: ds ++ [100%nat]) =
  match atoi ds with Some v => if v <? 1 then 1 else v | None => 1 end.
Proof. exact printf_token_counts. Qed.
Print Assumptions printf_counts.

(** $FN counts N; 1 when N is absent or zero *)
Theorem houdini_counts : forall st ds, all_digits ds ->
  padding_chars_size st (36%nat :: 70%nat :: ds) =
  match atoi ds with Some v => if v <? 1 then 1 else v | None => 1 end.
Proof. exact houdini_token_counts. Qed.
Print Assumptions houdini_counts.

(** switching the pad style of a sequence that has padding never changes its
    width, so every frame path is unchanged *)
Theorem style_switch_keeps_width : forall q st, 1 <= q_zfill q ->
  q_zfill (set_padding_style q st) = q_zfill q.
Proof. exact style_switch_keeps_width_proof. Qed.
Print Assumptions style_switch_keeps_width.

Theorem style_switch_keeps_paths : forall q st, 1 <= q_zfill q ->
  forall f, q_frame_int (set_padding_style q st) f = q_frame_int q f.
Proof. exact style_switch_keeps_paths_proof. Qed.
Print Assumptions style_switch_keeps_paths.

(** non-vacuity: a concrete padded sequence meets the hypothesis *)
Example style_switch_example :
  match new_fileseq (s2b "/a/foo.1-3#.exr") Hash4 with
  | Ok q => 1 <= q_zfill q /\ q_pad (set_padding_style q 0) = s2b "####"
  | _ => False
  end.
Proof. vm_compute. split; [discriminate | reflexivity]. Qed.

From GFS Require Import AuditProofs.

(** every string over {#,@}, both styles: the width is the sum of the per-character widths *)
Theorem pad_width_is_the_sum_over_the_characters : forall st cs, pad_string cs ->
  padding_chars_size st cs = fold_right (fun c acc => pad_char_size st c + acc) 0 cs.
Proof. exact pad_size_is_additive. Qed.
Print Assumptions pad_width_is_the_sum_over_the_characters.

(** what a style switch does to every field: the pad characters are rewritten for the kept width; an unknown style number means the default style *)
Theorem style_switch_rewrites_the_pad_characters : forall q z,
  set_padding_style q z =
  mkQ (q_dir q) (q_base q) (q_ext q)
      (padding_chars (style_of_int z) (q_zfill q)) (Z.max 1 (q_zfill q)) (q_fs q) (style_of_int z).
Proof. exact set_padding_style_exact. Qed.
Print Assumptions style_switch_rewrites_the_pad_characters.

