(** C04 - Frame and Index yield the real file path of each frame.
    Statements only; proofs in Proofs/FramePathProofs.v (and DecProofs.v). *)
From GFS Require Import Base Dec Regex GenRegex Ranges Pad FrameSet Path Seq DecProofs FramePathProofs.
Local Open Scope Z_scope.

(** the path of frame v: dirname + basename + v zero-padded to the pad width + extension *)
Theorem frame_path : forall q f v, q_fs q = Some f ->
  q_frame_int q v = q_dir q ++ q_base q ++ zfill_int v (q_zfill q) ++ q_ext q.
Proof. exact frame_path_spec. Qed.
Print Assumptions frame_path.

(** zero padding is printf %0Nd: the sign counts towards the width, never truncates, and the
    text still reads as the same number *)
Theorem zfill_is_printf : forall v w,
  Z.of_nat (List.length (zfill_int v w)) = Z.max (Z.of_nat (List.length (itoa v))) w /\
  atoi_big (zfill_int v w) = Some v.
Proof. exact zfill_int_printf. Qed.
Print Assumptions zfill_is_printf.

(** the path at index i is the path of the i-th frame; outside [0,len) the empty string *)
Theorem index_path : forall q s f i, q_fs q = Some f -> new_frameset s = Ok f ->
  (0 <= i < fs_len f -> q_index q i = q_frame_int q (nth (Z.to_nat i) (fs_frames f) 0)) /\
  ((i < 0 \/ fs_len f <= i) -> q_index q i = []).
Proof. exact index_spec. Qed.
Print Assumptions index_path.

(** the len paths are pairwise distinct *)
Theorem frame_paths_distinct : forall q s f, q_fs q = Some f -> new_frameset s = Ok f -> NoDup (q_paths q).
Proof. exact paths_distinct. Qed.
Print Assumptions frame_paths_distinct.

Theorem index_without_frames : forall q i, q_fs q = None -> q_index q i = q_string q.
Proof. exact index_no_frameset. Qed.
Print Assumptions index_without_frames.

(** a concrete single-file path (one the split pattern does not match: no pad
    token) gives itself back at index 0, whether or not a frame number was
    recognised in it - unless the recognised frame text is a negative zero
    ("-0", "-000"), which a frame set cannot represent: known finding K1 *)
Theorem single_file_roundtrip : forall p st q,
  submatches R_splitPattern p 4 = None ->
  new_fileseq p st = Ok q ->
  (forall name frame ext, submatches R_singleFramePattern (snd (path_split p)) 3 = Some [name; frame; ext] ->
       not_neg_zero frame) ->
  q_index q 0 = p.
Proof. exact FramePathProofs.single_file_roundtrip. Qed.
Print Assumptions single_file_roundtrip.

(** the full statement without the guard is false of the faithful model: the witness of K1 *)
Theorem single_file_roundtrip_refuted :
  exists p q, new_fileseq p Hash4 = Ok q /\ q_index q 0 <> p.
Proof.
  exists (s2b "foo.-0.exr"). eexists. split; [vm_compute; reflexivity|]. vm_compute. discriminate.
Qed.
Print Assumptions single_file_roundtrip_refuted.

(** the captures of the single-frame pattern tile the string; the frame is -?digits *)
Theorem single_frame_captures_tile : forall p name frame ext,
  submatches R_singleFramePattern p 3 = Some [name; frame; ext] ->
  p = name ++ frame ++ ext /\ numeral frame.
Proof. exact single_frame_tiles. Qed.
Print Assumptions single_frame_captures_tile.

Example roundtrip_example :
  match new_fileseq (s2b "/a/foo.-0012.tar.gz") Hash1 with
  | Ok q => q_index q 0 = s2b "/a/foo.-0012.tar.gz" /\ q_zfill q = 5
  | _ => False
  end.
Proof. vm_compute. split; reflexivity. Qed.
