(** C17 - seqls lists every selected file exactly once, every run.
    What is PROVED here is the worker pipeline of cmd/seqls/manager.go as a
    transition system (Model/Pipeline.v): loader, n workers, closer, printer
    over unbuffered channels, for EVERY schedule, every n >= 1 and every job
    list.  Partial: the Go scheduler/channels and fastwalk's own worker pool are
    not modelled; which directories become jobs, and what each job lists, is
    checked against the built binary on generated trees by the check itself. *)
From Coq Require Import Permutation.
From GFS Require Import Base Pipeline PipelineProofs.

Section C17.
Variable job : Type.
Variable run : job -> option (list bytes).

(** every complete run prints exactly the successful jobs' results (as a multiset) *)
Theorem pipeline_conserves_results : forall n jobs s, 1 <= n ->
  steps run (init n jobs) s -> final s -> Permutation (printed s) (results run jobs).
Proof. exact (pipeline_conserves job run). Qed.

(** no reachable non-final state is stuck *)
Theorem pipeline_never_deadlocks : forall n jobs s, 1 <= n ->
  steps run (init n jobs) s -> ~ final s -> exists s', step run s s'.
Proof. exact (pipeline_no_deadlock job run). Qed.

(** every run is finite: a measure strictly decreases at each step *)
Theorem pipeline_always_terminates : forall s s', step run s s' -> measure s' < measure s.
Proof. exact (pipeline_terminates job run). Qed.

(** the printed multiset of lines is the same on every complete run, whatever the scheduling *)
Theorem printed_lines_schedule_independent : forall n jobs s s', 1 <= n ->
  steps run (init n jobs) s -> final s -> steps run (init n jobs) s' -> final s' ->
  Permutation (List.concat (printed s)) (List.concat (printed s')).
Proof. exact (pipeline_lines_multiset job run). Qed.

(** a bad argument (a job that fails) never suppresses or alters the others *)
Theorem failing_job_is_isolated : forall n jobs1 bad jobs2 s s', run bad = None ->
  steps run (init n (jobs1 ++ bad :: jobs2)) s -> final s ->
  steps run (init n (jobs1 ++ jobs2)) s' -> final s' -> Permutation (printed s) (printed s').
Proof. exact (bad_job_isolated job run). Qed.
End C17.

Print Assumptions pipeline_conserves_results.
Print Assumptions pipeline_never_deadlocks.
Print Assumptions pipeline_always_terminates.
Print Assumptions printed_lines_schedule_independent.
Print Assumptions failing_job_is_isolated.

(** non-vacuity: a complete run exists (2 workers, 3 jobs, one failing) *)
Example complete_run :
  exists s, steps PipelineExample.run1 (init 2 PipelineExample.jobs1) s /\ final s /\
            Permutation (printed s) (results PipelineExample.run1 PipelineExample.jobs1).
Proof. exact PipelineExample.complete_run_exists. Qed.
