(** C17 - seqls lists every selected file exactly once, every run.
    What is PROVED here is the worker pipeline of cmd/seqls/manager.go as a
    transition system (Model/Pipeline.v): loader, n workers, closer, printer
    over unbuffered channels, for EVERY schedule, every n >= 1 and every job
    list; and the directory walk that decides WHICH directories become jobs
    (Model/Seqls.v walk_root, the model the check runs against the binary on
    every generated tree): fuel-free specification, termination on every tree
    whose real directories nest finitely (whatever the links), exact visit on
    link-free trees, each link target followed at most once.  Partial: the Go scheduler/channels and fastwalk's own worker pool are
    not modelled; which directories become jobs, and what each job lists, is
    checked against the built binary on generated trees by the check itself. *)
From Coq Require Import Permutation.
From GFS Require Import Base Pipeline PipelineProofs.
From GFS Require Pad Seq Path Listing SpecListing Seqls WalkLts WalkFn GenWalkFn OnDirEnt GenOnDirEnt DiskProofs WalkProofs WalkSched WalkFnProofs OnDirEntProofs SeqlsCover ArgsProofs AuditProofs.
From GFS Require Fastwalk GenFastwalk FastwalkProofs.

Section C17.
Variable job : Type.
Variable run : job -> option (list bytes).

(** every complete run prints exactly the successful jobs' results (as a multiset) *)
Theorem pipeline_conserves_results : forall n jobs s, 1 <= n ->
  steps run (init n jobs) s -> final s -> Permutation (printed s) (results run jobs).
Proof. exact (pipeline_conserves job run). Qed.

(** no reachable non-final state is stuck *)
Theorem pipeline_never_deadlocks : forall n jobs s, 1 <= n ->
  steps run (init n jobs) s -> ~ final s -> exists s', step run s s'.
Proof. exact (pipeline_no_deadlock job run). Qed.

(** every run is finite: a measure strictly decreases at each step *)
Theorem pipeline_always_terminates : forall s s', step run s s' -> measure s' < measure s.
Proof. exact (pipeline_terminates job run). Qed.

(** the printed multiset of lines is the same on every complete run, whatever the scheduling *)
Theorem printed_lines_schedule_independent : forall n jobs s s', 1 <= n ->
  steps run (init n jobs) s -> final s -> steps run (init n jobs) s' -> final s' ->
  Permutation (List.concat (printed s)) (List.concat (printed s')).
Proof. exact (pipeline_lines_multiset job run). Qed.

(** a bad argument (a job that fails) never suppresses or alters the others *)
Theorem failing_job_is_isolated : forall n jobs1 bad jobs2 s s', run bad = None ->
  steps run (init n (jobs1 ++ bad :: jobs2)) s -> final s ->
  steps run (init n (jobs1 ++ jobs2)) s' -> final s' -> Permutation (printed s) (printed s').
Proof. exact (bad_job_isolated job run). Qed.
End C17.

Print Assumptions pipeline_conserves_results.
Print Assumptions pipeline_never_deadlocks.
Print Assumptions pipeline_always_terminates.
Print Assumptions printed_lines_schedule_independent.
Print Assumptions failing_job_is_isolated.

(** non-vacuity: a complete run exists (2 workers, 3 jobs, one failing) *)
Example complete_run :
  exists s, steps PipelineExample.run1 (init 2 PipelineExample.jobs1) s /\ final s /\
            Permutation (printed s) (results PipelineExample.run1 PipelineExample.jobs1).
Proof. exact PipelineExample.complete_run_exists. Qed.

Import Pad Seq Path Listing SpecListing Seqls WalkLts WalkFn DiskProofs WalkProofs WalkSched WalkFnProofs SeqlsCover.

(** ---- the directory walk (Model/Seqls.v), the model the check compares with the binary ---- *)

(** the fuel handed out by walk_root is always enough: its answer is the fuel-free specification,
    on every tree whose real directories nest finitely - links may be cyclic, aliased, dangling *)
Theorem walk_is_its_specification : forall t all root real c jobs c', acyclic t ->
  walk_root t all root real c = (jobs, c') <-> WalkRoot t all root real c jobs c'.
Proof. exact walk_root_spec. Qed.

(** the recursive walk terminates on every such tree, from any cache *)
Theorem walk_always_terminates : forall t all sp ents c, acyclic t ->
  exists jobs c', Walk t all sp ents c jobs c'.
Proof. exact walk_terminates. Qed.

(** no directory named "." is all it takes for real directories to nest finitely *)
Theorem trees_without_dot_entries_are_acyclic : forall t,
  (forall n, In n t -> tn_kind n = KDir -> tn_name n <> [c_dot]) -> acyclic t.
Proof. exact no_dot_acyclic. Qed.

(** without links: the jobs are exactly the directories reachable from the root through
    entries that are not skipped, each real directory once, spelled as the root re-rooted *)
Theorem walk_visits_each_directory_exactly_once : forall t all root real c,
  wf_tree t -> no_links t -> ~ (all = false /\ hidden_dir root = true) ->
  let jobs := fst (walk_root t all root real c) in
  NoDup (map snd jobs) /\
  (forall s r, In (s, r) jobs <-> reach t all root real s r) /\
  (forall r, In r (map snd jobs) <-> reachable t all root real r) /\
  (forall s r, In (s, r) jobs -> s = spelled_of root real r) /\
  snd (walk_root t all root real c) = c.
Proof. exact walk_visits_exactly. Qed.

(** with links: a target is recursed into at most once, over any number of roots sharing the cache *)
Theorem each_link_target_followed_at_most_once : forall fuel t all sp ents c,
  let r := walk_entries' fuel t all sp ents c in
  NoDup (w_followed r) /\
  (forall tgt, In tgt (w_followed r) -> mem tgt c = false /\ mem tgt (w_cache r) = true) /\
  (forall x, mem x c = true -> mem x (w_cache r) = true) /\
  (NoDup c -> NoDup (w_cache r)).
Proof. exact walk_follows_once. Qed.

Print Assumptions walk_is_its_specification.
Print Assumptions walk_always_terminates.
Print Assumptions trees_without_dot_entries_are_acyclic.
Print Assumptions walk_visits_each_directory_exactly_once.
Print Assumptions each_link_target_followed_at_most_once.

(** ---- the walk under ANY schedule (Model/WalkLts.v: one entry of any pending directory per step,
    the cache lookup-and-insert atomic, as under fastwalk's worker pool) ---- *)

(** the depth-first model the check runs is one of the schedules *)
Theorem depth_first_model_is_a_schedule : forall t all root real cache jobs cache',
  acyclic t -> walk_root t all root real cache = (jobs, cache') ->
  exists s, wsteps t all (winit t all root real cache) s /\ wfinal s /\
            ws_jobs s = jobs /\ ws_cache s = cache' /\
            Permutation (ws_jobs s) jobs /\ (forall x, mem x (ws_cache s) = mem x cache').
Proof. exact dfs_is_a_schedule. Qed.

(** whatever the scheduling, a tree whose links are "flat" (at most one link per target, no link
    below a link target: the domain of the exact-listing and determinism clauses) is listed as the
    depth-first model lists it, up to order *)
Theorem every_schedule_lists_what_the_model_lists : forall t all root real cache s,
  wf_tree t -> flat_links t ->
  (forall n, In n t -> tn_kind n = KLinkDir -> mem (tn_target n) cache = false) ->
  wsteps t all (winit t all root real cache) s -> wfinal s ->
  Permutation (ws_jobs s) (fst (walk_root t all root real cache)).
Proof. exact any_schedule_is_the_model. Qed.

Theorem listing_jobs_are_schedule_independent : forall t all root real s1 s2,
  wf_tree t -> flat_links t ->
  wsteps t all (winit t all root real []) s1 -> wfinal s1 ->
  wsteps t all (winit t all root real []) s2 -> wfinal s2 ->
  Permutation (ws_jobs s1) (ws_jobs s2).
Proof. exact any_schedule_same_jobs_empty_cache. Qed.

(** every schedule terminates, with any links at all (cyclic, aliased, nested) *)
Theorem every_schedule_terminates : forall t all root real cache,
  acyclic t ->
  (exists measure : WalkLts.wstate -> nat,
     measure (winit t all root real cache) <= wbound (List.length t) /\
     forall s s', wsteps t all (winit t all root real cache) s -> wstep t all s s' -> measure s' < measure s) /\
  (forall k s, wstepsn t all k (winit t all root real cache) s -> k <= wbound (List.length t)) /\
  (forall s, wsteps t all (winit t all root real cache) s -> exists s', wsteps t all s s' /\ wfinal s') /\
  (forall s, wfinal s \/ exists s', wstep t all s s').
Proof. exact any_schedule_terminates. Qed.

(** K5, machine-checked: with a link below another link's target the listing DOES depend on the
    schedule (no cycle involved) - the statement of the property is false outside its quantifier's
    "at most one link per target" domain, which is why the check treats such trees as a finding *)
Theorem nested_links_listing_depends_on_the_schedule_refuted :
  exists t all root real s1 s2,
    wf_tree t /\ link_acyclic t /\ ~ flat_links t /\ NoDup (map tn_target (links t)) /\
    wsteps t all (winit t all root real []) s1 /\ wfinal s1 /\
    wsteps t all (winit t all root real []) s2 /\ wfinal s2 /\
    ~ Permutation (ws_jobs s1) (ws_jobs s2).
Proof. exact nested_links_schedule_dependence_refuted. Qed.

(** ---- the callback seqls hands to fastwalk (loadRecursive's walkFn), TRANSLATED statement by
    statement from cmd/seqls/manager.go on every run (Gen/GenWalkFn.v) and interpreted by
    Model/WalkFn.v: per entry it decides exactly what one step of the walk model decides ---- *)

(** job, traversal and cache of the translated callback = the clause of the walk model ([wnode]) *)
Theorem translated_callback_is_the_walk_step : forall t n sp all gc mc paths ans em gc',
  cache_rel gc mc paths ->
  (tn_kind n = KLinkDir -> mem (tn_target n) paths = false) ->
  callback_result GenWalkFn.callback
                  (fst (kind_inputs (tn_kind n))) (snd (kind_inputs (tn_kind n)))
                  (tn_target n) (join_path sp (tn_name n)) all [] gc = (ans, em, gc') ->
  let path := join_path sp (tn_name n) in
  let o := wnode t all sp n mc in
  wo_jobs o = (if em then [(path, real_of n)] else []) /\
  wo_new o = (if traverses (fst (kind_inputs (tn_kind n))) ans
              then [mkWork path (children t (real_of n))] else []) /\
  cache_rel gc' (wo_cache o) (if newly_followed n mc then path :: paths else paths).
Proof. exact callback_is_wnode. Qed.

(** the read-probe / write-lock-recheck protocol is linearizable: whatever other goroutines insert
    between the probe and the lock, answer and emission are those of an atomic lookup-and-insert at
    the moment the write lock is held (the atomic step the any-schedule model takes) *)
Theorem cache_protocol_is_linearizable : forall typ sd tgt path all interf cache a e c a' e' c',
  callback_result GenWalkFn.callback typ sd tgt path all interf cache = (a, e, c) ->
  callback_result GenWalkFn.callback typ sd tgt path all [] (interf ++ cache) = (a', e', c') ->
  a = a' /\ e = e' /\
  (forall x, mem x c' = mem x interf || mem x c) /\
  (typ = TSymlink -> sd = true -> mem tgt cache = false -> c = c').
Proof. exact generated_callback_linearizable. Qed.

(** files and links to files are never listed as directories, never read, never cached *)
Theorem callback_ignores_non_directories : forall typ sd tgt path all interf cache,
  typ = TOther \/ (typ = TSymlink /\ sd = false) ->
  callback_result GenWalkFn.callback typ sd tgt path all interf cache = (ANil, false, cache) /\
  traverses typ ANil = false.
Proof. exact generated_callback_never_lists_a_file. Qed.

Print Assumptions translated_callback_is_the_walk_step.
Print Assumptions cache_protocol_is_linearizable.
Print Assumptions callback_ignores_non_directories.

(** ---- end to end on the model: `seqls -r dir` prints the strings of sequences that expand to
    exactly the visible files of exactly the reachable directories (C17's first clause, by
    composing the walk theorem with C06 and C05) ---- *)
Theorem seqls_r_prints_exactly_the_selected_files : forall f cwd t a root real,
  sf_recurse f = true -> sf_seqs f = false -> sf_abs f = false ->
  classify_arg t (path_clean a) = ADir root real ->
  wf_tree t -> no_links t -> ~ (sf_all f = false /\ hidden_dir root = true) ->
  tree_names_ok (sf_all f) t root real ->
  let jobs := fst (walk_root t (sf_all f) root real []) in
  let seqs := flat_map (fun sr => dir_job_seqs f t (fst sr) (snd sr)) jobs in
  seqls_lines f cwd t [a] = map q_string seqs /\
  NoDup (map snd jobs) /\
  (forall s r, In (s, r) jobs <-> reach t (sf_all f) root real s r) /\
  Permutation (flat_map q_paths seqs)
              (flat_map (fun sr => dir_files (sf_all f) t (fst sr) (snd sr)) jobs).
Proof. exact seqls_r_end_to_end. Qed.

(** with -s: only the numbered sequences of each reachable directory *)
Theorem seqls_r_s_prints_exactly_the_numbered_files : forall f t root real,
  wf_tree t -> no_links t -> ~ (sf_all f = false /\ hidden_dir root = true) ->
  sf_seqs f = true -> tree_names_ok (sf_all f) t root real ->
  let jobs := fst (walk_root t (sf_all f) root real []) in
  Permutation (flat_map (fun sr => flat_map q_paths (dir_job_seqs f t (fst sr) (snd sr))) jobs)
              (flat_map (fun sr => filter (fun p => visible (sf_all f) p && numbered p)
                                          (map (fun n => dir_prefix (fst sr) ++ n) (non_dirs (entries t (snd sr))))) jobs).
Proof. intros f t root real Hwf Hnl Hroot Hs Hok. exact (proj2 (seqls_recursive_cover_numbered f t root real Hwf Hnl Hroot Hs Hok)). Qed.

Print Assumptions depth_first_model_is_a_schedule.
Print Assumptions every_schedule_lists_what_the_model_lists.
Print Assumptions listing_jobs_are_schedule_independent.
Print Assumptions every_schedule_terminates.
Print Assumptions nested_links_listing_depends_on_the_schedule_refuted.
Print Assumptions seqls_r_prints_exactly_the_selected_files.
Print Assumptions seqls_r_s_prints_exactly_the_numbered_files.

(** ---- the arguments: a bad argument (an unmatched or unparsable pattern, an existing file) never
    suppresses or alters what is listed for the others (Proofs/ArgsProofs.v) ---- *)
Import ArgsProofs.

Theorem bad_argument_leaves_the_directory_jobs_alone : forall f t args1 bad args2,
  ~ is_dir_arg t bad ->
  snd (jobs_of f t (args1 ++ bad :: args2)) = snd (jobs_of f t (args1 ++ args2)).
Proof. exact bad_argument_keeps_directory_jobs. Qed.

Theorem bad_argument_only_adds_its_own_lines : forall f cwd t args1 bad args2,
  sf_abs f = false -> ~ is_dir_arg t bad -> args1 ++ args2 <> [] ->
  Permutation (seqls_lines f cwd t (args1 ++ bad :: args2))
              (seqls_lines f cwd t (args1 ++ args2) ++
               if dup_arg bad (args1 ++ args2) then []
               else match classify_arg t (path_clean bad) with
                    | APattern p => pattern_job_lines f t p
                    | _ => []
                    end).
Proof. exact bad_argument_is_isolated_in_the_output. Qed.

Theorem a_repeated_argument_is_listed_once : forall f t args a,
  In (path_clean a) (map path_clean args) ->
  jobs_of f t (args ++ [a]) = jobs_of f t args.
Proof. exact duplicate_arguments_are_listed_once. Qed.

Print Assumptions bad_argument_leaves_the_directory_jobs_alone.
Print Assumptions bad_argument_only_adds_its_own_lines.
Print Assumptions a_repeated_argument_is_listed_once.

(** ---- what fastwalk does with the callback's answer: onDirEnt and walk, TRANSLATED into decision
    trees from fastwalk.go on every run (Gen/GenOnDirEnt.v) ---- *)
Import OnDirEnt GenOnDirEnt OnDirEntProofs.

(** every entry type x every answer: what is handed to the coordinator, whether the callback ran,
    what comes back *)
Theorem fastwalk_acts_on_each_entry_as_modelled : forall typ ans,
  run_tree ondirent_tree typ true ans =
  match typ with
  | TDir => mkOR 0 [false] RetNil
  | TSymlink =>
    match ans with
    | CTraverse => mkOR 1 [true] RetNil
    | CSkipDir => mkOR 1 [] RetNil
    | CNil => mkOR 1 [] RetNil
    | e => mkOR 1 [] (RetErr e)
    end
  | TOther =>
    match ans with
    | CNil => mkOR 1 [] RetNil
    | e => mkOR 1 [] (RetErr e)
    end
  end.
Proof. exact ondirent_decides. Qed.

(** a link is read as a directory exactly when the walk model traverses it *)
Theorem a_link_is_handed_over_iff_the_model_traverses_it : forall a,
  r_enq (run_tree ondirent_tree TSymlink true (cbans_of a)) = (if traverses TSymlink a then [true] else []).
Proof. exact ondirent_enqueues_iff_traverses. Qed.

(** SkipDir / TraverseLink answered for a link can never abort the walk of the other directories *)
Theorem control_answers_never_abort_the_walk : forall a,
  r_ret (run_tree ondirent_tree TSymlink true (cbans_of a)) <> RetErr CSkipDir /\
  r_ret (run_tree ondirent_tree TSymlink true (cbans_of a)) <> RetErr CTraverse.
Proof. exact ondirent_never_leaks_control_answers. Qed.

(** a directory is read exactly when its callback does not answer SkipDir; a link announced by
    onDirEnt is read without a second callback *)
Theorem a_directory_is_read_unless_skipped : forall ans,
  run_tree walk_tree TDir true ans =
  match ans with
  | CNil => mkOR 1 [] RetReadDir
  | CSkipDir => mkOR 1 [] RetNil
  | e => mkOR 1 [] (RetErr e)
  end /\
  run_tree walk_tree TDir false ans = mkOR 0 [] RetReadDir.
Proof. exact walk_decides. Qed.

Print Assumptions fastwalk_acts_on_each_entry_as_modelled.
Print Assumptions a_link_is_handed_over_iff_the_model_traverses_it.
Print Assumptions control_answers_never_abort_the_walk.
Print Assumptions a_directory_is_read_unless_skipped.

(** ---- fastwalk.Walk: the termination-detection protocol of the concurrent directory walker ----
    The coordinator's select loop is TRANSLATED from cmd/seqls/internal/fastwalk/fastwalk.go on every
    run (Gen/GenFastwalk.v, [GenFastwalk.coordinator]); the worker side is modelled by hand
    (Model/Fastwalk.v) and its source text is pinned by the translator.  For every tree, every number
    of workers, every channel capacity and EVERY schedule. *)

Import Fastwalk FastwalkProofs.

(** tie T: the program the source reads as today is the one the proofs are about *)
Lemma generated_coordinator_is_the_proved_one : GenFastwalk.coordinator = reference_coord.
Proof. reflexivity. Qed.

(** when Walk returns, every directory (not below a SkipDir) has been walked exactly once *)
Theorem fastwalk_walks_every_directory_exactly_once : forall nw cap root s, 1 <= cap ->
  reachable GenFastwalk.coordinator cap nw root s -> s_returned s = true ->
  Permutation (s_walked s) (live root).
Proof. rewrite generated_coordinator_is_the_proved_one. exact fastwalk_complete. Qed.

(** at no moment has a directory been walked twice, or one that is not in the tree *)
Theorem fastwalk_never_walks_twice : forall nw cap root s,
  reachable GenFastwalk.coordinator cap nw root s ->
  exists rest, Permutation (s_walked s ++ rest) (live root).
Proof. rewrite generated_coordinator_is_the_proved_one. exact fastwalk_never_twice. Qed.

(** the walk cannot get stuck before it returns *)
Theorem fastwalk_never_deadlocks : forall nw cap root s, 1 <= nw -> 1 <= cap ->
  reachable GenFastwalk.coordinator cap nw root s -> s_returned s = false ->
  exists l s', step GenFastwalk.coordinator cap s l = Some s'.
Proof. rewrite generated_coordinator_is_the_proved_one. exact fastwalk_no_deadlock. Qed.

(** every schedule is finite: at most 7 steps per directory *)
Theorem fastwalk_always_terminates : forall nw cap root ls s,
  run GenFastwalk.coordinator cap (init nw root) ls = Some s ->
  List.length ls + 2 <= 7 * List.length (live root).
Proof. rewrite generated_coordinator_is_the_proved_one. exact fastwalk_schedule_bound. Qed.

(** the theorem has teeth: without the final re-check of the enqueue channel it is false *)
Theorem fastwalk_without_recheck_is_wrong :
  exists nw cap root ls s, 1 <= cap /\ run early_return_coord cap (init nw root) ls = Some s /\
    s_returned s = true /\ ~ Permutation (s_walked s) (live root).
Proof. exact early_return_is_wrong. Qed.

(** the search used by the check is sound: a reported schedule really is a failing run *)
Theorem fastwalk_search_is_sound : forall fuel c nw cap root sch w,
  explore fuel c nw cap root = Incomplete sch w ->
  exists s, run c cap (init nw root) sch = Some s /\ s_returned s = true /\ s_walked s = w /\
            ~ Permutation w (live root).
Proof. exact explore_sound. Qed.

Print Assumptions fastwalk_walks_every_directory_exactly_once.
Print Assumptions fastwalk_never_walks_twice.
Print Assumptions fastwalk_never_deadlocks.
Print Assumptions fastwalk_always_terminates.
Print Assumptions fastwalk_without_recheck_is_wrong.
Print Assumptions fastwalk_search_is_sound.

Import AuditProofs.

(** ---- composition: the worker pipeline run on the jobs the walk produces prints, whatever the
    scheduling, exactly the lines of the sequential model; and the exact listing WITH links ---- *)
(** pipeline theorem instantiated with the seqls jobs *)
Theorem any_worker_schedule_prints_the_model_lines : forall n f cwd t args s, 1 <= n ->
  Pipeline.steps (srun f cwd t) (Pipeline.init n (sjobs f t (norm_args args))) s -> Pipeline.final s ->
  Permutation (List.concat (Pipeline.printed s)) (seqls_lines f cwd t args).
Proof. exact pipeline_prints_seqls_lines. Qed.
Print Assumptions any_worker_schedule_prints_the_model_lines.

(** an independent specification with one link edge ([lreach]) of what is listed when links are flat *)
Theorem listing_with_flat_links_is_exactly_the_reachable_pairs : forall t all root real,
  wf_tree t -> flat_links t -> skipped all root = false ->
  forall s r, In (s, r) (fst (walk_root t all root real [])) <-> lreach t all root real s r.
Proof. exact dfs_lists_exactly_the_reachable_pairs. Qed.
Print Assumptions listing_with_flat_links_is_exactly_the_reachable_pairs.

(** every spelled path once, every pair once; a real directory may appear under two spellings *)
Theorem each_reachable_spelling_is_listed_exactly_once : forall t all root real,
  wf_tree t -> flat_links t -> names_ok t -> skipped all root = false ->
  let jobs := fst (walk_root t all root real []) in
  NoDup (map fst jobs) /\ NoDup jobs /\
  (forall s r, lreach t all root real s r -> count_occ job_dec jobs (s, r) = 1) /\
  (forall s r, ~ lreach t all root real s r -> count_occ job_dec jobs (s, r) = 0) /\
  (forall s r r', lreach t all root real s r -> lreach t all root real s r' -> r = r').
Proof. exact dfs_lists_each_reachable_pair_exactly_once. Qed.
Print Assumptions each_reachable_spelling_is_listed_exactly_once.

