(** C01 - Frame-range strings expand to exactly the frame list the shorthand
    denotes.  Statements only; proof in Proofs/ParseProofs.v.

    [spec_frames] (Spec/SpecRange.v) is the documented shorthand written
    independently of the implementation: blanks and '#', '@' ignored; comma
    list of  N | A-B | A-BxN | A-ByN | A-B:N  with  N ::= '-'? digit+ ; every
    component expanded in its own direction (stride |N| for x, the complement
    of that for y, strides |N| .. 1 for ':'); concatenation, first occurrence
    kept; [None] when the string is outside the grammar, a step is zero or a
    number does not fit an int. *)
From GFS Require Import Base Dec Ranges FrameSet SpecRange ParseProofs.

Theorem parse_denotes : forall s,
  match new_frameset s with
  | Ok f => spec_frames s = Some (fs_frames f) /\ fs_range f = s
  | Err _ => spec_frames s = None
  | Panic _ => False
  | OutOfFuel => False
  end.
Proof. exact ParseProofs.parse_denotes. Qed.
Print Assumptions parse_denotes.

(** non-vacuity: both branches are inhabited *)
Example accepted : match new_frameset (s2b "10-1y3, 1-10:-3 #") with Ok f => fs_frames f = [9;8;6;5;3;2;1;4;7;10]%Z | _ => False end.
Proof. vm_compute. reflexivity. Qed.
Example rejected : spec_frames (s2b "1-5x0") = None /\ spec_frames (s2b "99999999999999999999") = None /\ spec_frames (s2b "1,,2") = None.
Proof. vm_compute. repeat split. Qed.
