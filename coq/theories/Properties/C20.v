(** C20 - The exported handle table keeps an object alive exactly while referenced.
    Statements only; proofs in Proofs/ExportProofs.v.

    The programs run by the model are the ones gfsgen TRANSLATES from
    /repo/exp/cpp/export/storage.go on every run (Gen/GenStorage.v);
    [gen_programs_match] ties them to the programs the protocol proof is about.
    Schedules are arbitrary interleavings of atomic blocks (a lock..unlock region
    or one atomic instruction); callers follow the ownership discipline
    ([disciplined_g]: Incref/Decref only on a handle the thread owns a reference
    to; references may be handed from one thread to another).
    [orbit_distinct seed n]: the xorshift orbit does not repeat within the n Adds
    performed - Marsaglia's full-period claim, an explicit premise.
    Partial: Go's memory model (sync/atomic, RWMutex) is represented by atomic blocks. *)
From GFS Require Import Base Export GenStorage ExportProofs.
Local Open Scope Z_scope.

Theorem generated_programs_are_the_protocol :
  frameset_progs = expected_progs /\ fileseq_progs = expected_progs.
Proof. exact gen_programs_match. Qed.
Print Assumptions generated_programs_are_the_protocol.

(** for EVERY disciplined schedule and every prefix of it: ids in the table are distinct
    and non-zero; a handle's counter equals the number of references owned; the handle
    resolves while that number is positive; it is absent once it is zero, or a removal
    is pending in the thread that released the last reference *)
Theorem refcount_invariant_frameset : forall seed threads,
  orbit_distinct seed (count_adds threads) -> refcount_invariant_at frameset_progs seed threads.
Proof. exact ExportProofs.refcount_invariant_frameset. Qed.
Print Assumptions refcount_invariant_frameset.

Theorem refcount_invariant_fileseq : forall seed threads,
  orbit_distinct seed (count_adds threads) -> refcount_invariant_at fileseq_progs seed threads.
Proof. exact ExportProofs.refcount_invariant_fileseq. Qed.
Print Assumptions refcount_invariant_fileseq.

(** the pending removal is carried out by that thread's next step *)
Theorem pending_removal_is_carried_out : forall seed threads,
  orbit_distinct seed (count_adds threads) -> pending_removal_removes_at frameset_progs seed threads.
Proof. exact pending_removal_removes_frameset. Qed.
Print Assumptions pending_removal_is_carried_out.

(** once all references are released the live-object count is back to its starting value *)
Theorem released_means_removed_frameset : forall seed threads,
  orbit_distinct seed (count_adds threads) -> released_means_removed_at frameset_progs seed threads.
Proof. exact ExportProofs.released_means_removed_frameset. Qed.
Print Assumptions released_means_removed_frameset.

Theorem released_means_removed_fileseq : forall seed threads,
  orbit_distinct seed (count_adds threads) -> released_means_removed_at fileseq_progs seed threads.
Proof. exact ExportProofs.released_means_removed_fileseq. Qed.
Print Assumptions released_means_removed_fileseq.

(** a lookup by a thread that owns a reference finds the object *)
Theorem owner_lookup_succeeds_frameset : forall seed threads,
  orbit_distinct seed (count_adds threads) -> owner_lookup_succeeds_at frameset_progs seed threads.
Proof. exact ExportProofs.owner_lookup_succeeds_frameset. Qed.
Print Assumptions owner_lookup_succeeds_frameset.

(** operations on unknown or already released handles are harmless no-ops (any state, any thread) *)
Theorem stale_handles_are_noops : stale_is_noop_at frameset_progs /\ stale_is_noop_at fileseq_progs.
Proof. exact (conj stale_is_noop_frameset stale_is_noop_fileseq). Qed.
Print Assumptions stale_handles_are_noops.

(** the id generator: never 0 from a non-zero state, and injective (so the orbit is purely periodic) *)
Theorem ids_are_nonzero : forall x, 0 < x < two64 -> xor64 x <> 0.
Proof. exact xor64_nonzero. Qed.
Print Assumptions ids_are_nonzero.

Theorem id_step_is_injective : forall x y, 0 <= x < two64 -> 0 <= y < two64 -> xor64 x = xor64 y -> x = y.
Proof. exact xor64_injective. Qed.
Print Assumptions id_step_is_injective.

(** non-vacuity: a disciplined run in which two threads release the same handle, block by block *)
Example disciplined_run_exists : disciplined_g expected_progs 88172645463325252 ex_threads ex_sched.
Proof. exact ex_disciplined. Qed.

(** ---- the exported wrappers (export.go): every handle parameter is resolved through the table's
    Get and the object is used only under the ok test, or the call is a bare Incref/Decref.
    The table is regenerated from the source on every run (Gen/GenWrappers.v); together with
    [stale_handles_are_noops] this is why a wrapper called with an unknown or released handle
    cannot touch an object.  The defaults they return are checked on the implementation
    (TestVerifWrappers). *)
From GFS Require GenWrappers.
Theorem every_exported_wrapper_guards_its_handle :
  forallb (fun w => match snd w with GenWrappers.Unguarded => false | _ => true end) GenWrappers.wrappers = true.
Proof. vm_compute. reflexivity. Qed.
Lemma wrapper_table_is_not_empty : (40 <=? List.length GenWrappers.wrappers)%nat = true.
Proof. vm_compute. reflexivity. Qed.
Print Assumptions every_exported_wrapper_guards_its_handle.
