(** C05 - Listing a set of paths covers every file exactly once (exact cover).
    Statements only; proofs in Proofs/ListingProofs1-5.v (about 2,400 lines, on
    top of the regex, parser, compressor and padding proofs).

    [name_ok p] (Spec/SpecListing.v) is what a cleaned path may hold for the
    guarantee to be true of the code.  Each conjunct beyond "is a byte string" is
    a documented finding, not a silent narrowing: no newline (K2), no pad token
    # @ %d $F <UDIM> anywhere in the path (K4), the frame text is not a negative
    zero (K1) and fits an int.  [visible hidden p]: not a dot-file unless the
    hidden-files option is given.  [numbered p]: the file name holds a frame
    number and something else.

    [uniform_widths paths]: files of one basename/extension share one digit width. *)
From Coq Require Import Permutation.
From GFS Require Import Base Dec GenPadTables Ranges Pad FrameSet Path Seq Listing SpecListing
     ListingProofs4 ListingProofs5 OrderProofs.
Local Open Scope Z_scope.

(** with single files enabled: no input file is dropped, none is reported twice,
    no path is invented - under either pad style, for mixed digit widths, negative
    frames, bare relative names and range-like digits in names *)
Theorem listing_exact_cover : forall paths opts,
  NoDup (map path_clean paths) -> Forall (fun p => name_ok (path_clean p)) paths ->
  existsb (Z.eqb K_SingleFiles) opts = true ->
  exists seqs, find_in_list paths opts = Ok seqs /\
    Permutation (flat_map q_paths seqs)
                (filter (visible (existsb (Z.eqb K_HiddenFiles) opts)) (map path_clean paths)).
Proof. exact ListingProofs4.listing_exact_cover. Qed.
Print Assumptions listing_exact_cover.

(** without the single-files option the result is that same result minus the entries
    that are not numbered sequences; hidden names appear only with the hidden-files option *)
Theorem no_single_is_filter : forall paths opts,
  NoDup (map path_clean paths) -> Forall (fun p => name_ok (path_clean p)) paths ->
  existsb (Z.eqb K_SingleFiles) opts = true ->
  let hidden := existsb (Z.eqb K_HiddenFiles) opts in
  let opts0 := filter (fun z => negb (Z.eqb K_SingleFiles z)) opts in
  exists fseqs files,
    find_in_list paths opts = Ok (fseqs ++ files) /\
    find_in_list paths opts0 = Ok fseqs /\
    Permutation (flat_map q_paths fseqs)
      (filter (fun p => visible hidden p && numbered p) (map path_clean paths)) /\
    flat_map q_paths files =
      filter (fun p => visible hidden p && negb (numbered p)) (map path_clean paths).
Proof. exact ListingProofs5.no_single_is_filter. Qed.
Print Assumptions no_single_is_filter.

(** when the files of each basename/extension share one digit width, the result - as a set
    of sequence strings, and even as a multiset of sequences - does not depend on the order
    of the input list (for every option set) *)
Theorem order_independent : forall paths paths' opts,
  NoDup (map path_clean paths) -> Forall (fun p => name_ok (path_clean p)) paths ->
  uniform_widths paths -> Permutation paths paths' ->
  exists seqs seqs', find_in_list paths opts = Ok seqs /\ find_in_list paths' opts = Ok seqs' /\
    (forall s, In s (map q_string seqs) <-> In s (map q_string seqs')).
Proof. exact OrderProofs.order_independent. Qed.
Print Assumptions order_independent.

Theorem listing_never_panics : forall paths opts, benign (find_in_list paths opts).
Proof. exact listing_no_panic. Qed.
Print Assumptions listing_never_panics.

(** non-vacuity: a concrete list (mixed widths, an unclean spelling, a frame-less and a
    hidden file) meets the hypotheses *)
Example hypotheses_satisfiable :
  let paths := [s2b "a/foo.0002.exr"; s2b "./a/x/../foo.0001.exr"; s2b "a/foo.10.exr"; s2b "a/notes.txt"; s2b "a/.hidden"] in
  NoDup (map path_clean paths) /\ Forall (fun p => name_ok (path_clean p)) paths.
Proof. exact listing_example. Qed.

(** the guard is needed: the witness of K1 (negative zero) *)
Example exact_cover_refuted_without_guard :
  match find_in_list [s2b "s-000.exr"] [K_SingleFiles] with
  | Ok seqs => flat_map q_paths seqs = [s2b "s0000.exr"]
  | _ => False
  end.
Proof. vm_compute. reflexivity. Qed.
