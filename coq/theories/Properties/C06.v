(** C06 - Scanning a directory equals listing its non-directory entries.
    Statements only; proofs in Proofs/DiskProofs.v.  Proof on the model; the
    operating system is an oracle value: [ents] is what Open/Readdir/Stat
    reported (entry names hold no '/', are not "", ".", ".."), [None] an error.
    Partial: that Readdir/Stat really report this is observed on real temporary
    directories by the check, not proved. *)
From GFS Require Import Base Dec GenPadTables Ranges Pad FrameSet Path Seq Listing DiskProofs.
Local Open Scope Z_scope.

(** every spelling whose cleaned form is not "." : literal equality with the list API *)
Theorem on_disk_is_in_list : forall path ents opts,
  Forall (fun e => entry_name_ok (fst e)) ents ->
  Forall (fun e => ~ In c_bslash (fst e)) ents ->
  (forall n, ~ In (n, KLinkDangling) ents) ->
  ~ In c_bslash (path_clean path) ->
  path_clean path <> [c_dot] ->
  find_on_disk path (Some ents) opts None =
  find_in_list (map (fun n => dir_prefix path ++ n) (non_dirs ents)) opts.
Proof. exact DiskProofs.on_disk_is_in_list. Qed.
Print Assumptions on_disk_is_in_list.

(** the spellings "", ".", "./", "a/.." : the scan reports "./name", the list API "name";
    both list exactly the same entries (equality modulo filepath.Clean of the directory) *)
Theorem on_disk_is_in_list_current_dir : forall path ents opts,
  Forall (fun e => entry_name_ok (fst e)) ents ->
  (forall n, ~ In (n, KLinkDangling) ents) ->
  path_clean path = [c_dot] ->
  find_on_disk path (Some ents) opts None =
    find_items (map (mkItem [c_dot; c_slash]) (non_dirs ents)) opts None
  /\
  find_in_list (map (fun n => dir_prefix path ++ n) (non_dirs ents)) opts =
    find_items (map (mkItem []) (non_dirs ents)) opts None.
Proof. exact on_disk_is_in_list_dot. Qed.
Print Assumptions on_disk_is_in_list_current_dir.

(** sub-directories and links to directories are never handed to the lister; every
    item lies directly under the directory *)
Theorem only_non_directories_under_dir : forall path ents items,
  disk_items (dir_prefix path) ents = Ok items ->
  map (fun it => (fi_dir it, fi_name it)) items = map (fun n => (dir_prefix path, n)) (non_dirs ents).
Proof. exact on_disk_paths_under_dir. Qed.
Print Assumptions only_non_directories_under_dir.

Theorem unreadable_directory_is_an_error : forall path opts t, exists e, find_on_disk path None opts t = Err e.
Proof. exact on_disk_unreadable. Qed.
Print Assumptions unreadable_directory_is_an_error.

Theorem dangling_link_is_an_error : forall path ents opts t n, In (n, KLinkDangling) ents ->
  exists e, find_on_disk path (Some ents) opts t = Err e.
Proof. exact on_disk_dangling. Qed.
Print Assumptions dangling_link_is_an_error.

(** ListFiles is the scan with the SingleFiles option *)
Theorem list_files_is_the_scan : forall path rd, list_files path rd = find_on_disk path rd [K_SingleFiles] None.
Proof. exact list_files_is_single_files. Qed.
Print Assumptions list_files_is_the_scan.

(** the laws of filepath.Clean the equality rests on, proved from its model *)
Theorem clean_is_idempotent : forall p, path_clean (path_clean p) = path_clean p.
Proof. exact path_clean_idem. Qed.
Print Assumptions clean_is_idempotent.

Example scan_example :
  find_on_disk (s2b "a//b/") (Some [(s2b "foo.0001.exr", KFile); (s2b "sub", KDir); (s2b "foo.0002.exr", KLinkFile); (s2b "l", KLinkDir)]) [] None
  = find_in_list [s2b "a/b/foo.0001.exr"; s2b "a/b/foo.0002.exr"] [].
Proof. vm_compute. reflexivity. Qed.

From GFS Require Import SpecListing AuditProofs.

(** every path of every reported sequence lies directly under the directory and is one of its visible non-directory entries, each once *)
Theorem reported_paths_are_exactly_the_visible_entries : forall path ents opts,
  Forall (fun e => entry_name_ok (fst e)) ents ->
  Forall (fun e => ~ In c_bslash (fst e)) ents ->
  (forall n, ~ In (n, KLinkDangling) ents) ->
  ~ In c_bslash (path_clean path) ->
  path_clean path <> [c_dot] ->
  NoDup (non_dirs ents) ->
  Forall (fun n => name_ok (dir_prefix path ++ n)) (non_dirs ents) ->
  existsb (Z.eqb K_SingleFiles) opts = true ->
  let hidden := existsb (Z.eqb K_HiddenFiles) opts in
  exists seqs, find_on_disk path (Some ents) opts None = Ok seqs /\
    (forall q p, In q seqs -> In p (q_paths q) ->
       exists n, In n (non_dirs ents) /\ p = dir_prefix path ++ n /\
                 p = path_clean (dir_prefix path ++ n) /\ visible hidden p = true) /\
    (forall n, In n (non_dirs ents) -> visible hidden (dir_prefix path ++ n) = true ->
       exists q, In q seqs /\ In (dir_prefix path ++ n) (q_paths q)) /\
    NoDup (flat_map q_paths seqs).
Proof. exact scanned_paths_are_the_directory_entries. Qed.
Print Assumptions reported_paths_are_exactly_the_visible_entries.

