(** C13 - Integer range containers behave exactly like their enumerated values.
    Statements only; proofs in Proofs/RangeBasics.v and Proofs/AppendProofs.v.
    [enum r] is start, start+step, ... up to the last value not past end
    (Spec/SpecRanges.v); [wf r]: non-zero step whose sign agrees with the
    direction.  No bound on magnitudes. *)
From GFS Require Import IntLoop GenAuLoop IntLoopProofs.
From GFS Require Import Base Dec Ranges FrameSet SpecRanges SpecRange RangeBasics AppendProofs StringProofs.
Local Open Scope Z_scope.

Theorem enum_is_the_walk : forall r v, wf r -> (In v (enum r) <-> on_grid r v).
Proof. exact enum_on_grid. Qed.
Print Assumptions enum_is_the_walk.

Theorem new_range_is_wf : forall s e st,
  (st = 0 \/ (s < e /\ 0 < st) \/ (s > e /\ st < 0) \/ (s = e /\ st <> 0)) -> wf (new_range s e st).
Proof. exact new_range_wf. Qed.
Print Assumptions new_range_is_wf.

Theorem range_iterates_enum : forall r, wf r -> ir_iter r = enum r.
Proof. exact ir_iter_enum. Qed.
Print Assumptions range_iterates_enum.

Theorem range_len : forall r, wf r -> ir_len r = Z.of_nat (List.length (enum r)).
Proof. intros r H. rewrite enum_length. exact (ir_len_count r H). Qed.
Print Assumptions range_len.

Theorem range_end : forall r, wf r -> ir_end r = last (enum r) (r_start r).
Proof. exact ir_end_last. Qed.
Print Assumptions range_end.

Theorem range_min : forall r, wf r -> ir_min r = lmin (enum r) (r_start r).
Proof. exact ir_min_spec. Qed.
Print Assumptions range_min.

Theorem range_max : forall r, wf r -> ir_max r = lmax (enum r) (r_start r).
Proof. exact ir_max_spec. Qed.
Print Assumptions range_max.

Theorem range_contains : forall r v, wf r -> (ir_contains r v = true <-> In v (enum r)).
Proof. exact ir_contains_In. Qed.
Print Assumptions range_contains.

Theorem range_value_in : forall r i, wf r -> 0 <= i < Z.of_nat (enum_count r) ->
  ir_value r i = Some (nth (Z.to_nat i) (enum r) 0).
Proof. exact ir_value_nth. Qed.
Print Assumptions range_value_in.

Theorem range_value_out : forall r i, wf r -> (i < 0 \/ Z.of_nat (enum_count r) <= i) -> ir_value r i = None.
Proof. exact ir_value_out. Qed.
Print Assumptions range_value_out.

Theorem range_index : forall r v, wf r -> ir_index r v = position v (enum r).
Proof. exact ir_index_position. Qed.
Print Assumptions range_index.

(** appending uniquely, whatever the sign of the step given: the appended
    enumeration (in the direction a -> b, stride |s|) minus what is already there *)
Theorem append_unique_is_dedup_concat : forall bl a b s, WF bl -> s <> 0 ->
  WF (append_unique bl a b s) /\
  enum_all (append_unique bl a b s) = enum_all bl ++ dedup_first (walk a b (Z.abs s)) (enum_all bl).
Proof. exact append_unique_spec. Qed.
Print Assumptions append_unique_is_dedup_concat.

Theorem append_unique_zero_step : forall bl a b, append_unique bl a b 0 = bl.
Proof. exact append_unique_zero. Qed.
Print Assumptions append_unique_zero_step.

(** every AppendUnique history from the empty container *)
Theorem append_history : forall ops : list (Z * Z * Z),
  let app bl (t : Z * Z * Z) := let '(a, b, s) := t in append_unique bl a b s in
  let bl := fold_left app ops [] in
  WF bl /\
  enum_all bl = dedup_first (flat_map (fun t : Z * Z * Z =>
                   let '(a, b, s) := t in if s =? 0 then [] else walk a b (Z.abs s)) ops) [].
Proof. exact append_history_spec. Qed.
Print Assumptions append_history.

(** the views of a multi-range agree with its enumeration *)
Theorem ranges_views : forall bl, Forall wf bl ->
  rs_iter bl = enum_all bl /\
  rs_len bl = Z.of_nat (List.length (enum_all bl)) /\
  (forall v, rs_contains bl v = true <-> In v (enum_all bl)) /\
  (forall i, 0 <= i < Z.of_nat (List.length (enum_all bl)) ->
             rs_value bl i = Some (nth (Z.to_nat i) (enum_all bl) 0)) /\
  (forall i, i < 0 \/ Z.of_nat (List.length (enum_all bl)) <= i -> rs_value bl i = None) /\
  (forall v, rs_index bl v = position v (enum_all bl)) /\
  rs_start bl = hd 0 (enum_all bl) /\ rs_end bl = last (enum_all bl) 0.
Proof.
  intros bl H.
  exact (conj (rs_iter_enum_all bl H) (conj (rs_len_length bl H) (conj (fun v => rs_contains_In bl v H)
        (conj (fun i => rs_value_nth bl i H) (conj (fun i => rs_value_out bl i H)
        (conj (fun v => rs_index_position bl v H) (conj (rs_start_hd bl H) (rs_end_last bl H)))))))).
Qed.
Print Assumptions ranges_views.

(** the printed form of any such container parses back as a frame range to the
    same values ([fits_block]: the numbers printed fit a Go int, as they do for
    every container the implementation can hold) *)
Theorem printed_form_reparses : forall bl, WF bl -> bl <> [] -> Forall fits_block bl ->
  exists f, new_frameset (rs_string itoa bl) = Ok f /\ fs_frames f = enum_all bl.
Proof. exact rs_string_reparses. Qed.
Print Assumptions printed_form_reparses.

(** non-vacuity *)
Example wf_example : wf (new_range 10 1 (-3)) /\ enum (new_range 10 1 (-3)) = [10; 7; 4; 1].
Proof. split; [right; left; cbn; lia | reflexivity]. Qed.
Example WF_example : WF (append_unique (append_unique [] 1 10 2) 10 1 (-3)).
Proof. apply append_unique_spec; [apply append_unique_spec; [apply WF_nil | lia] | lia]. Qed.

(** ** The loop of AppendUnique on machine integers (D20)

    [append_unique] above runs its loop body a number of times computed in closed form.  The Go
    loop decides trip by trip, on 64-bit integers that wrap around.  gfsgen reads the loop
    control of the current ranges.go ([au_loop_ctl], Gen/GenAuLoop.v); on every 64-bit start, end
    and step (step not the smallest int, span fitting an int) that control ends after exactly
    [au_count] trips, and the body has seen exactly the values the range enumerates, none of
    them wrapped: the closed-form count of the model is the count of the code. *)
Theorem append_unique_loop_ends_and_visits_the_enumeration_on_int64 : forall start end_ step,
  au_domain start end_ step ->
  loop_visits au_loop_ctl (au_count start end_ (au_step start end_ step)) start end_ step =
  Some (enum (mkR start end_ (au_step start end_ step))).
Proof. exact generated_loop_control_visits_enum. Qed.
Print Assumptions append_unique_loop_ends_and_visits_the_enumeration_on_int64.

(** The loop control before the D20 repair (step, then test whether the value is past the end)
    never ends when the range ends on the largest int, or descends to the smallest: whatever the
    fuel, the loop is still running.  [NewFrameSet("1,9223372036854775807")] is the witness on
    the code. *)
Theorem the_earlier_loop_control_never_ends_at_the_int_edges : forall fuel start step,
  is_int64 start ->
  loop_visits CtlTestPast fuel start int_max step = None /\
  (int_min < start -> loop_visits CtlTestPast fuel start int_min step = None).
Proof. exact test_past_never_ends_at_the_int_edges. Qed.
Print Assumptions the_earlier_loop_control_never_ends_at_the_int_edges.

Example loop_at_the_top_of_the_int_range_example :
  au_domain (int_max - 4) int_max 1 /\
  loop_visits au_loop_ctl 5 (int_max - 4) int_max 1 =
  Some [int_max - 4; int_max - 3; int_max - 2; int_max - 1; int_max] /\
  loop_visits CtlTestPast 1000 (int_max - 4) int_max 1 = None.
Proof. exact loop_at_the_top_of_the_int_range. Qed.
