(** C08 - Normalize is the sorted set; Invert is its complement within [min,max].
    Statements only; proofs in Proofs/NormProofs.v and Proofs/FrameSetProofs.v. *)
From GFS Require Import Base Dec Ranges FrameSet SpecRanges SpecRange RangeBasics AppendProofs NormProofs FrameSetProofs CompressProofs StringProofs.
Local Open Scope Z_scope.

Theorem normalize_is_sorted_set : forall s f, new_frameset s = Ok f -> fs_frames f <> [] ->
  fs_frames (fs_normalize f) = sort_dedup (fs_frames f).
Proof. exact normalize_members. Qed.
Print Assumptions normalize_is_sorted_set.

Theorem invert_is_complement : forall s f, new_frameset s = Ok f -> fs_frames f <> [] ->
  fs_frames (fs_invert f) = complement (fs_frames f).
Proof. exact invert_members. Qed.
Print Assumptions invert_is_complement.

(** the results are well-formed, ascending, duplicate-free block lists *)
Theorem normalized_well_formed : forall invert bl, Forall wf bl -> bl <> [] -> WF (normalized invert bl).
Proof. exact normalized_WF. Qed.
Print Assumptions normalized_well_formed.

(** idempotence and order-insensitivity: two accepted strings with the same
    members give the same normalized / inverted block list, hence the same string *)
Theorem normalize_depends_on_members_only : forall invert s1 f1 s2 f2,
  new_frameset s1 = Ok f1 -> new_frameset s2 = Ok f2 ->
  fs_frames f1 <> [] -> fs_frames f2 <> [] ->
  (forall v, In v (fs_frames f1) <-> In v (fs_frames f2)) ->
  normalized invert (fs_blocks f1) = normalized invert (fs_blocks f2).
Proof. exact normalize_members_only. Qed.
Print Assumptions normalize_depends_on_members_only.

(** the range strings they produce re-parse to those same lists.
    [span_ok l]: differences of members fit a Go int (a step is such a
    difference).  It is needed: [span_needed] in Proofs/StringProofs.v exhibits
    "-9223372036854775808,9223372036854775807", whose normalized form would print
    a step of 2^64-1 (in Go the scan over Min..Max would not even terminate). *)
Theorem normalize_string_reparses : forall s f, new_frameset s = Ok f -> fs_frames f <> [] ->
  span_ok (fs_frames f) ->
  exists g, new_frameset (fs_range (fs_normalize f)) = Ok g /\ fs_frames g = fs_frames (fs_normalize f).
Proof. exact StringProofs.normalize_string_reparses. Qed.
Print Assumptions normalize_string_reparses.

Theorem inverted_string_reparses : forall s f, new_frameset s = Ok f ->
  fs_frames (fs_invert f) <> [] -> span_ok (fs_frames f) ->
  exists g, new_frameset (fs_range (fs_invert f)) = Ok g /\ fs_frames g = fs_frames (fs_invert f).
Proof. exact StringProofs.inverted_string_reparses. Qed.
Print Assumptions inverted_string_reparses.

(** an empty complement gives the empty range string *)
Theorem inverted_empty : forall s f, new_frameset s = Ok f -> fs_frames f <> [] ->
  fs_frames (fs_invert f) = [] -> fs_range (fs_invert f) = [].
Proof. exact inverted_empty_string. Qed.
Print Assumptions inverted_empty.

(** a padded inverted range has the same members (it differs by leading zeros only: C11) *)
Theorem inverted_padded_members : forall s f w, new_frameset s = Ok f ->
  fs_frames (fs_invert f) <> [] -> span_ok (fs_frames f) ->
  exists g, new_frameset (fs_inverted_frame_range f w) = Ok g /\ fs_frames g = fs_frames (fs_invert f).
Proof. exact inverted_padded_same_members. Qed.
Print Assumptions inverted_padded_members.

(** Normalize is idempotent at the level of the produced string *)
Theorem normalize_idempotent : forall s f g, new_frameset s = Ok f -> fs_frames f <> [] ->
  new_frameset (fs_range (fs_normalize f)) = Ok g ->
  fs_range (fs_normalize g) = fs_range (fs_normalize f).
Proof. exact normalize_idempotent_string. Qed.
Print Assumptions normalize_idempotent.

(** the size guard is satisfiable by every realistic frame set *)
Example span_ok_example : span_ok [1; 4; 5; 7; 10; 20]%Z.
Proof. apply small_span_ok. repeat constructor; unfold CompressProofs.small; lia. Qed.

Example normalize_example :
  match new_frameset (s2b "10-1x3,5,5,20") with
  | Ok f => fs_frames (fs_normalize f) = [1; 4; 5; 7; 10; 20] /\ fs_frames (fs_invert f) = [2;3;6;8;9;11;12;13;14;15;16;17;18;19]
  | _ => False
  end.
Proof. vm_compute. split; reflexivity. Qed.

From GFS Require Import AuditProofs.

(** stripping leading zeros from the padded inverted range gives the unpadded one *)
Theorem padded_inverse_differs_by_leading_zeros_only : forall f w,
  strip_leading_zeros (fs_inverted_frame_range f w) = fs_range (fs_invert f).
Proof. exact inverted_padded_differs_by_leading_zeros_only. Qed.
Print Assumptions padded_inverse_differs_by_leading_zeros_only.

