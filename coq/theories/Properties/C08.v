(** C08 - Normalize is the sorted set; Invert is its complement within [min,max].
    Statements only; proofs in Proofs/NormProofs.v and Proofs/FrameSetProofs.v. *)
From GFS Require Import Base Dec Ranges FrameSet SpecRanges SpecRange RangeBasics AppendProofs NormProofs FrameSetProofs.
Local Open Scope Z_scope.

Theorem normalize_is_sorted_set : forall s f, new_frameset s = Ok f -> fs_frames f <> [] ->
  fs_frames (fs_normalize f) = sort_dedup (fs_frames f).
Proof. exact normalize_members. Qed.
Print Assumptions normalize_is_sorted_set.

Theorem invert_is_complement : forall s f, new_frameset s = Ok f -> fs_frames f <> [] ->
  fs_frames (fs_invert f) = complement (fs_frames f).
Proof. exact invert_members. Qed.
Print Assumptions invert_is_complement.

(** the results are well-formed, ascending, duplicate-free block lists *)
Theorem normalized_well_formed : forall invert bl, Forall wf bl -> bl <> [] -> WF (normalized invert bl).
Proof. exact normalized_WF. Qed.
Print Assumptions normalized_well_formed.

(** idempotence and order-insensitivity: two accepted strings with the same
    members give the same normalized / inverted block list, hence the same string *)
Theorem normalize_depends_on_members_only : forall invert s1 f1 s2 f2,
  new_frameset s1 = Ok f1 -> new_frameset s2 = Ok f2 ->
  fs_frames f1 <> [] -> fs_frames f2 <> [] ->
  (forall v, In v (fs_frames f1) <-> In v (fs_frames f2)) ->
  normalized invert (fs_blocks f1) = normalized invert (fs_blocks f2).
Proof. exact normalize_members_only. Qed.
Print Assumptions normalize_depends_on_members_only.

(** STILL MISSING (full statements, not yet proved):
      normalize_string_reparses : ... new_frameset (fs_range (fs_normalize f)) = Ok g /\ fs_frames g = fs_frames (fs_normalize f)
      inverted_string_reparses, inverted_padded_same_members.
    They need the itoa/atoi round trip through the range regexes; until proved,
    the correspondence/oracle run re-parses every produced string. *)

Example normalize_example :
  match new_frameset (s2b "10-1x3,5,5,20") with
  | Ok f => fs_frames (fs_normalize f) = [1; 4; 5; 7; 10; 20] /\ fs_frames (fs_invert f) = [2;3;6;8;9;11;12;13;14;15;16;17;18;19]
  | _ => False
  end.
Proof. vm_compute. split; reflexivity. Qed.
