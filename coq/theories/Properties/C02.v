(** C02 - FrameSet queries are mutually consistent views of one duplicate-free
    list.  Statements only; proofs in Proofs/FrameSetProofs.v. *)
From GFS Require Import Base Dec Ranges FrameSet SpecRanges RangeBasics AppendProofs FrameSetProofs.
Local Open Scope Z_scope.

(** for EVERY accepted string: one duplicate-free list L = Frames(), and length,
    frame-at-index, index-of-frame, membership, start and end all describe L *)
Theorem frameset_views_agree : forall s f, new_frameset s = Ok f ->
  let L := fs_frames f in
  NoDup L /\
  fs_len f = Z.of_nat (List.length L) /\
  (forall i, 0 <= i < Z.of_nat (List.length L) -> fs_frame f i = Some (nth (Z.to_nat i) L 0)) /\
  (forall i, i < 0 \/ Z.of_nat (List.length L) <= i -> fs_frame f i = None) /\
  (forall v, fs_index f v = position v L) /\
  (forall v, fs_has_frame f v = true <-> In v L) /\
  fs_start f = hd 0 L /\
  fs_end f = last L 0.
Proof. exact fs_views. Qed.
Print Assumptions frameset_views_agree.

(** frame-at-index and index-of-frame are inverse bijections between [0,len)
    and the members; a non-member has index -1 and membership false *)
Theorem frame_index_bijection : forall s f, new_frameset s = Ok f ->
  (forall v, In v (fs_frames f) ->
     0 <= fs_index f v < fs_len f /\ fs_frame f (fs_index f v) = Some v) /\
  (forall i, 0 <= i < fs_len f ->
     exists v, fs_frame f i = Some v /\ In v (fs_frames f) /\ fs_index f v = i) /\
  (forall v, ~ In v (fs_frames f) -> fs_index f v = -1 /\ fs_has_frame f v = false).
Proof. exact fs_bijection. Qed.
Print Assumptions frame_index_bijection.

(** non-vacuity: an overlapping, descending, stepped string is accepted *)
Example accepted_example :
  match new_frameset (s2b "1-10x3,20-15,7-1y2") with
  | Ok f => fs_frames f = [1; 4; 7; 10; 20; 19; 18; 17; 16; 15; 6; 2]
  | _ => False
  end.
Proof. vm_compute. reflexivity. Qed.
