(** C12 - Setters, Copy and Split preserve everything they do not change.
    Statements only; proofs in Proofs/SetterProofs.v.  Histories are lists of
    setter calls ([sop]); [components] is the record of the seven fields;
    [comp_step] the independent per-field description of each setter;
    [unchanged_by o q q'] lists everything setter [o] must leave alone;
    [roundtrippable q]: the current components are in the unambiguous domain of
    C03 (outside it a re-parse cannot give the components back, e.g. after
    SetDirname("C:\\win")), which is where Copy and Split promise something.
    Copy's independence is immediate in a functional model. *)
From GFS Require Import Base Dec Ranges Pad FrameSet Path Seq SpecRange SpecSeq SetterProofs.
Local Open Scope Z_scope.

(** after ANY history: the string is dirname+basename+range+pad+extension of the current
    components, and the components are the per-field replay of the history *)
Theorem setters_compose : forall ops q,
  let q' := run_sops q ops in
  q_string q' = q_dir q' ++ q_base q' ++ q_frange q' ++ q_pad q' ++ q_ext q' /\
  components q' = fold_left comp_step ops (components q).
Proof. exact SetterProofs.setters_compose. Qed.
Print Assumptions setters_compose.

(** each setter leaves alone everything it is not about *)
Theorem setters_touch_only_their_field : forall q o, unchanged_by o q (apply_sop q o).
Proof. exact setter_frames. Qed.
Print Assumptions setters_touch_only_their_field.

(** a failed SetFrameRange leaves the sequence untouched *)
Theorem failed_set_frame_range : forall q r,
  (forall f, new_frameset r <> Ok f) -> set_frame_range q r = (q, false).
Proof. exact SetterProofs.failed_set_frame_range. Qed.
Print Assumptions failed_set_frame_range.

(** a directory gains a missing trailing separator, an extension a missing leading dot *)
Theorem dirname_gets_separator : forall q d, existsb (Nat.eqb 92) d = false ->
  q_dir (set_dirname q d) = (if ends_with_byte d 47%nat then d else d ++ [47%nat]).
Proof. exact dirname_separator. Qed.
Print Assumptions dirname_gets_separator.

Theorem ext_gets_dot : forall q e, q_ext (set_ext q e) = (if has_prefix e [46%nat] then e else 46%nat :: e).
Proof. exact ext_dot. Qed.
Print Assumptions ext_gets_dot.

(** frame paths follow the current components *)
Theorem paths_follow_components : forall q f v, q_fs q = Some f ->
  q_frame_int q v = q_dir q ++ q_base q ++ zfill_int v (q_zfill q) ++ q_ext q.
Proof. exact SetterProofs.paths_follow_components. Qed.
Print Assumptions paths_follow_components.

(** Copy: identical components, pad style and frame paths *)
Theorem copy_spec : forall q, roundtrippable q ->
  exists c, q_copy q = Some c /\
    q_dir c = q_dir q /\ q_base c = q_base q /\ q_ext c = q_ext q /\ q_pad c = q_pad q /\
    q_zfill c = q_zfill q /\ q_style c = q_style q /\ q_frange c = q_frange q /\
    q_string c = q_string q /\ q_paths c = q_paths q /\
    match q_fs q, q_fs c with
    | Some f, Some g => fs_range g = fs_range f /\ fs_frames g = fs_frames f
    | None, None => True
    | _, _ => False
    end /\
    seq_inv c.
Proof. exact SetterProofs.copy_spec. Qed.
Print Assumptions copy_spec.

(** Split: one sequence per comma component with the same dirname, basename, pad, pad style
    and extension; the frame paths concatenated in order (first occurrence kept, for
    overlapping components such as 1-5,3-8) are exactly the original's *)
Theorem split_spec : forall q f, roundtrippable q -> q_fs q = Some f ->
  let parts := q_split q in
  let ranges := split_commas (q_frange q) [] in
  List.length parts = List.length ranges /\
  Forall (fun o => exists c, o = Some c /\
            q_dir c = q_dir q /\ q_base c = q_base q /\ q_ext c = q_ext q /\
            q_pad c = q_pad q /\ q_zfill c = q_zfill q /\ q_style c = q_style q) parts /\
  Forall2 (fun r o => exists c, o = Some c /\ q_frange c = r /\
            q_string c = q_dir q ++ q_base q ++ r ++ q_pad q ++ q_ext q /\
            spec_frames r = Some (frames_of_part o) /\
            q_paths c = map (q_frame_int q) (frames_of_part o)) ranges parts /\
  dedup_first (flat_map frames_of_part parts) [] = fs_frames f /\
  dedup_first_paths (flat_map paths_of parts) [] = q_paths q.
Proof. exact SetterProofs.split_spec. Qed.
Print Assumptions split_spec.

(** non-vacuity: parsed sequences of both styles are in the domain *)
Example domain_inhabited :
  roundtrippable (ex_seq (s2b "/a/foo.1-3,7-9x2#.exr") Hash1) /\
  roundtrippable (ex_seq (s2b "/a/foo.1-5,3-8@.exr") Hash4).
Proof. pose proof roundtrippable_examples as H. tauto. Qed.
