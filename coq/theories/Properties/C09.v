(** C09 - FramesToFrameRange is a right-inverse of range parsing.
    Statements only; proofs in Proofs/CompressProofs.v and Proofs/Glue.v.
    [small v] bounds the values by 2^62 so that values and their differences
    fit a Go int (the property speaks of ints). *)
From GFS Require Import Base Dec Ranges Pad FrameSet Compress SpecRange RangeRegex CompressProofs Glue.
Local Open Scope Z_scope.

Theorem f2r_right_inverse : forall l sorted z, NoDup l -> Forall small l ->
  exists s, frames_to_frame_range l sorted z = Ok s /\
    (l = [] -> s = []) /\
    (l <> [] -> exists f, new_frameset s = Ok f /\ fs_frames f = (if sorted then zsort l else l)).
Proof. exact f2r_right_inverse_proof. Qed.
Print Assumptions f2r_right_inverse.

(** sorted=true means ascending order of the same values *)
Theorem zsort_is_sort : forall l, Permutation.Permutation l (zsort l) /\ Sorted.StronglySorted Z.le (zsort l).
Proof. exact zsort_sorted_perm. Qed.
Print Assumptions zsort_is_sort.

(** with zfill >= 2 every frame numeral of the string has at least that many characters *)
Theorem f2r_zero_padded : forall l sorted z s, NoDup l -> frames_to_frame_range l sorted z = Ok s -> 2 <= z ->
  Forall (fun part => forall c, parse_comp part = Some c ->
            match c with
            | CSingle _ => z <= Z.of_nat (num_len part)
            | CRange _ _ | CStep _ _ _ _ =>
                z <= Z.of_nat (num_len part) /\
                z <= Z.of_nat (num_len (skipn (S (num_len part)) part))
            end) (split_commas s []).
Proof. exact f2r_padded. Qed.
Print Assumptions f2r_zero_padded.

Example f2r_example :
  frames_to_frame_range [10; 8; 6; 4; 1; 2; 3; 20]%Z false 3 = Ok (s2b "010-004x-2,001-003,020").
Proof. vm_compute. reflexivity. Qed.

From GFS Require Import AuditProofs.

(** unconditional form: each comma part of the produced string parses under the specification grammar and is padded *)
Theorem every_part_of_the_result_parses_and_is_padded : forall l sorted z s,
  l <> [] -> frames_to_frame_range l sorted z = Ok s ->
  Forall (fun part => exists c, parse_comp part = Some c /\ part_padded z part c) (split_commas s []).
Proof. exact f2r_every_part_parses_padded. Qed.
Print Assumptions every_part_of_the_result_parses_and_is_padded.

