(** C07 - FindSequenceOnDisk returns exactly the pattern's on-disk frames, never panics.
    Statements only; proofs in Proofs/DiskProofs.v and Proofs/TotalProofs.v.
    Proof on the model, the operating system being an oracle function [rd].
    Partial: "every frame path of the result exists on disk" and "all files of one
    width are returned" rest on the listing's exact cover (C05) applied to the
    template branch; here they are covered by the check's oracle on real
    directories, and by the proved facts below about WHICH entries are considered. *)
From GFS Require Import Base Dec Regex GenRegex GenPadTables Ranges Pad FrameSet Path Seq Listing DiskProofs TotalProofs.
Local Open Scope Z_scope.

(** never a panic (and no fuel artefact), for every pattern, option set and directory content *)
Theorem find_one_no_panic : forall pat st opts rd, total (find_seq_on_disk pat st opts rd).
Proof. exact find_seq_on_disk_total. Qed.
Print Assumptions find_one_no_panic.

(** an unparsable pattern is a nil result *)
Theorem unparsable_pattern_is_nil : forall pat st opts rd e,
  new_fileseq pat (style_of_int (eff_style st opts)) = Err e -> find_seq_on_disk pat st opts rd = Ok None.
Proof. exact find_seq_bad_pattern. Qed.
Print Assumptions unparsable_pattern_is_nil.

(** a missing / unreadable directory is an error *)
Theorem missing_directory_is_an_error : forall pat st opts rd t,
  new_fileseq pat (style_of_int (eff_style st opts)) = Ok t -> rd (lookup_dir t) = None ->
  exists e, find_seq_on_disk pat st opts rd = Err e.
Proof. exact find_seq_missing_dir. Qed.
Print Assumptions missing_directory_is_an_error.

(** a returned sequence has the pattern's basename and extension *)
Theorem result_has_pattern_base_ext : forall pat st opts rd q,
  find_seq_on_disk pat st opts rd = Ok (Some q) ->
  exists t, new_fileseq pat (style_of_int (eff_style st opts)) = Ok t /\ q_base q = q_base t /\ q_ext q = q_ext t.
Proof. exact find_seq_base_ext. Qed.
Print Assumptions result_has_pattern_base_ext.

(** StrictPadding: only a sequence whose pad width is the pattern's *)
Theorem strict_padding_width : forall pat st opts rd q t,
  In K_StrictPadding opts -> find_seq_on_disk pat st opts rd = Ok (Some q) ->
  new_fileseq pat (style_of_int (eff_style st opts)) = Ok t -> q_pad t <> [] -> q_zfill q = q_zfill t.
Proof. exact find_seq_strict. Qed.
Print Assumptions strict_padding_width.

(** siblings that merely share the prefix and suffix are ignored: an entry enters the
    template bucket only if its name is basename ++ frame ++ extension with [frame] a
    number that fits an int - nothing between, overlapping prefix/suffix and
    non-numeric middles are skipped, and nothing is ever treated as a single file *)
Theorem only_numbered_siblings : forall o t it k fr,
  classify o (Some t) it = IFrame k fr ->
  fi_name it = q_base t ++ fr ++ q_ext t /\ (exists v, atoi fr = Some v) /\
  (exists m, rmatch R_rangePatterns_1 fr = Some m) /\ k = (q_dir t, q_base t, q_ext t).
Proof. exact template_only_numbered_siblings. Qed.
Print Assumptions only_numbered_siblings.

Theorem template_never_yields_single : forall o t it b f e, classify o (Some t) it <> ISingle b f e.
Proof. exact template_never_single. Qed.
Print Assumptions template_never_yields_single.

Example lookup_example :
  match find_seq_on_disk (s2b "d/foo.#.exr") 1 []
          (fun _ => Some [(s2b "foo.0001.exr", KFile); (s2b "foo.exr", KFile); (s2b "foo.bar.exr", KFile); (s2b "foo.0003.exr", KFile)]) with
  | Ok (Some q) => q_string q = s2b "d/foo.1,3#.exr"
  | _ => False
  end.
Proof. vm_compute. reflexivity. Qed.
