(** C07 - FindSequenceOnDisk returns exactly the pattern's on-disk frames, never panics.
    Statements only; proofs in Proofs/DiskProofs.v and Proofs/TotalProofs.v.
    Proof on the model, the operating system being an oracle function [rd].
    [tmpl_ok t] (LookupProofs.v): the pattern's directory ends in '/', no '/' in
    basename or extension, no newline or pad token in directory+basename, the
    extension is empty or starts with '.'.  [frames_ok h t names]: the directory's
    non-directory names are distinct; every name taken by the pattern has a frame
    text that is not a negative zero (K1) and is small; and the "digit base" finding
    K6 is excluded (a pattern WITHOUT pad token whose basename ends in a digit,
    with exactly one matching file: see [digit_base_refuted]).
    Partial: what Readdir/Stat report is observed on real directories, not proved. *)
From Coq Require Import Permutation.
From GFS Require Import Base Dec Regex GenRegex GenPadTables Ranges Pad FrameSet Path Seq Listing DiskProofs TotalProofs LookupProofs.
Local Open Scope Z_scope.

(** never a panic (and no fuel artefact), for every pattern, option set and directory content *)
Theorem find_one_no_panic : forall pat st opts rd, total (find_seq_on_disk pat st opts rd).
Proof. exact find_seq_on_disk_total. Qed.
Print Assumptions find_one_no_panic.

(** an unparsable pattern is a nil result *)
Theorem unparsable_pattern_is_nil : forall pat st opts rd e,
  new_fileseq pat (style_of_int (eff_style st opts)) = Err e -> find_seq_on_disk pat st opts rd = Ok None.
Proof. exact find_seq_bad_pattern. Qed.
Print Assumptions unparsable_pattern_is_nil.

(** a missing / unreadable directory is an error *)
Theorem missing_directory_is_an_error : forall pat st opts rd t,
  new_fileseq pat (style_of_int (eff_style st opts)) = Ok t -> rd (lookup_dir t) = None ->
  exists e, find_seq_on_disk pat st opts rd = Err e.
Proof. exact find_seq_missing_dir. Qed.
Print Assumptions missing_directory_is_an_error.

(** a returned sequence has the pattern's basename and extension *)
Theorem result_has_pattern_base_ext : forall pat st opts rd q,
  find_seq_on_disk pat st opts rd = Ok (Some q) ->
  exists t, new_fileseq pat (style_of_int (eff_style st opts)) = Ok t /\ q_base q = q_base t /\ q_ext q = q_ext t.
Proof. exact find_seq_base_ext. Qed.
Print Assumptions result_has_pattern_base_ext.

(** StrictPadding: only a sequence whose pad width is the pattern's *)
Theorem strict_padding_width : forall pat st opts rd q t,
  In K_StrictPadding opts -> find_seq_on_disk pat st opts rd = Ok (Some q) ->
  new_fileseq pat (style_of_int (eff_style st opts)) = Ok t -> q_pad t <> [] -> q_zfill q = q_zfill t.
Proof. exact find_seq_strict. Qed.
Print Assumptions strict_padding_width.

(** soundness: every frame path of the returned sequence is the template's directory plus the
    name of a regular file (or link to one) of the scanned directory that the pattern takes *)
Theorem find_one_sound : forall pat st opts rd q t,
  find_seq_on_disk pat st opts rd = Ok (Some q) ->
  new_fileseq pat (style_of_int (eff_style st opts)) = Ok t ->
  tmpl_ok t ->
  (forall ents, rd (lookup_dir t) = Some ents -> frames_ok (lookup_hidden opts) t (non_dirs ents)) ->
  exists ents, rd (lookup_dir t) = Some ents /\
    q_dir q = q_dir t /\ q_base q = q_base t /\ q_ext q = q_ext t /\
    (1 <= q_zfill q)%Z /\ (exists f, q_fs q = Some f) /\
    forall p, In p (q_paths q) ->
      exists n, In n (non_dirs ents) /\ taken (lookup_hidden opts) t n = true /\ p = q_dir t ++ n.
Proof. exact LookupProofs.find_one_sound. Qed.
Print Assumptions find_one_sound.

(** completeness: when the files named basename+digits+extension share one digit width, ALL of
    them are returned (unless StrictPadding rejects that width) *)
Theorem find_one_complete_uniform : forall pat st opts rd t ents w,
  new_fileseq pat (style_of_int (eff_style st opts)) = Ok t ->
  tmpl_ok t ->
  rd (lookup_dir t) = Some ents ->
  (forall n, ~ In (n, KLinkDangling) ents) ->
  frames_ok (lookup_hidden opts) t (non_dirs ents) ->
  let names := tnames (lookup_hidden opts) t (non_dirs ents) in
  names <> [] ->
  (forall n, In n names -> blen (frame_text t n) = w) ->
  (lookup_strict opts = false \/ q_pad t = [] \/ q_zfill t = w) ->
  exists q, find_seq_on_disk pat st opts rd = Ok (Some q) /\
    q_dir q = q_dir t /\ q_base q = q_base t /\ q_ext q = q_ext t /\ q_zfill q = w /\
    Permutation (q_paths q) (map (fun n => q_dir t ++ n) names).
Proof. exact LookupProofs.find_one_complete_uniform. Qed.
Print Assumptions find_one_complete_uniform.

(** with StrictPadding a width other than the pattern's gives nil *)
Theorem strict_rejects_other_width : forall pat st opts rd t ents w,
  new_fileseq pat (style_of_int (eff_style st opts)) = Ok t ->
  tmpl_ok t ->
  rd (lookup_dir t) = Some ents ->
  (forall n, ~ In (n, KLinkDangling) ents) ->
  frames_ok (lookup_hidden opts) t (non_dirs ents) ->
  let names := tnames (lookup_hidden opts) t (non_dirs ents) in
  names <> [] ->
  (forall n, In n names -> blen (frame_text t n) = w) ->
  lookup_strict opts = true -> q_pad t <> [] -> q_zfill t <> w ->
  find_seq_on_disk pat st opts rd = Ok None.
Proof. exact find_one_strict_rejects_uniform. Qed.
Print Assumptions strict_rejects_other_width.

(** nothing taken: nil *)
Theorem nothing_matching_is_nil : forall pat st opts rd t ents,
  new_fileseq pat (style_of_int (eff_style st opts)) = Ok t ->
  rd (lookup_dir t) = Some ents -> (forall n, ~ In (n, KLinkDangling) ents) ->
  tnames (lookup_hidden opts) t (non_dirs ents) = [] ->
  find_seq_on_disk pat st opts rd = Ok None.
Proof. exact find_one_none_taken. Qed.
Print Assumptions nothing_matching_is_nil.

(** the digit-base guard is needed: pattern "a1-2.exr" with the single file a15.exr returns
    a sequence whose only path, a105.exr, does not exist (known finding K6) *)
Example digit_base_refuted :
  match find_seq_on_disk (s2b "d/a1-2.exr") 1 [] (fun _ => Some [(s2b "a15.exr", KFile)]) with
  | Ok (Some q) => q_paths q = [s2b "d/a105.exr"]
  | _ => False
  end.
Proof. vm_compute. reflexivity. Qed.

(** siblings that merely share the prefix and suffix are ignored: an entry enters the
    template bucket only if its name is basename ++ frame ++ extension with [frame] a
    number that fits an int - nothing between, overlapping prefix/suffix and
    non-numeric middles are skipped, and nothing is ever treated as a single file *)
Theorem only_numbered_siblings : forall o t it k fr,
  classify o (Some t) it = IFrame k fr ->
  fi_name it = q_base t ++ fr ++ q_ext t /\ (exists v, atoi fr = Some v) /\
  (exists m, rmatch R_rangePatterns_1 fr = Some m) /\ k = (q_dir t, q_base t, q_ext t).
Proof. exact template_only_numbered_siblings. Qed.
Print Assumptions only_numbered_siblings.

Theorem template_never_yields_single : forall o t it b f e, classify o (Some t) it <> ISingle b f e.
Proof. exact template_never_single. Qed.
Print Assumptions template_never_yields_single.

Example lookup_example :
  match find_seq_on_disk (s2b "d/foo.#.exr") 1 []
          (fun _ => Some [(s2b "foo.0001.exr", KFile); (s2b "foo.exr", KFile); (s2b "foo.bar.exr", KFile); (s2b "foo.0003.exr", KFile)]) with
  | Ok (Some q) => q_string q = s2b "d/foo.1,3#.exr"
  | _ => False
  end.
Proof. vm_compute. reflexivity. Qed.

From GFS Require Import AuditProofs.

(** non-vacuity: every hypothesis of find_one_sound / find_one_complete_uniform proved for one concrete
    directory with adversarial siblings, and both theorems applied to it *)
Example lookup_theorems_apply_to_a_concrete_directory := AuditProofs.find_one_theorems_instantiated.
