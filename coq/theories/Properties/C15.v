(** C15 - No input crashes the parsing API; IsFrameRange agrees with the parser.
    Statements only; proofs in Proofs/TotalProofs.v and Proofs/ParseProofs.v.
    Every modelled entry point returns a value or an error for EVERY byte string:
    never [Panic], never the model's own [OutOfFuel].  The remaining entry points
    (PadFrameRange, PaddingChars, accessors, setters, Copy, Split, Normalize, ...)
    are plain total Gallina functions.  Partial: Format with arbitrary templates,
    Frame with arbitrary Stringers and the standard library are outside the model;
    the check drives mutated byte strings through the real API. *)
From GFS Require Import Base Dec Ranges Pad FrameSet Compress Path Seq Listing Seqinfo TotalProofs.
Local Open Scope Z_scope.

Theorem new_frameset_never_panics : forall s, total (new_frameset s).
Proof. exact new_frameset_total. Qed.
Print Assumptions new_frameset_never_panics.

Theorem new_fileseq_never_panics : forall s st, total (new_fileseq s st).
Proof. exact new_fileseq_total. Qed.
Print Assumptions new_fileseq_never_panics.

Theorem frames_to_frame_range_never_fails : forall l sorted z, exists s, frames_to_frame_range l sorted z = Ok s.
Proof. exact f2r_total. Qed.
Print Assumptions frames_to_frame_range_never_fails.

Theorem find_in_list_never_panics : forall paths opts, total (find_in_list paths opts).
Proof. exact find_in_list_total. Qed.
Print Assumptions find_in_list_never_panics.

Theorem find_on_disk_never_panics : forall path rd opts tmpl, total (find_on_disk path rd opts tmpl).
Proof. exact find_on_disk_total. Qed.
Print Assumptions find_on_disk_never_panics.

Theorem find_seq_on_disk_never_panics : forall pat st opts rd, total (find_seq_on_disk pat st opts rd).
Proof. exact find_seq_on_disk_total. Qed.
Print Assumptions find_seq_on_disk_never_panics.

Theorem seqinfo_parse_never_panics : forall pat o rf, total (seqinfo_parse pat o rf).
Proof. exact seqinfo_parse_total. Qed.
Print Assumptions seqinfo_parse_never_panics.

(** IsFrameRange(s) is true exactly when NewFrameSet(s) succeeds *)
Theorem is_frame_range_iff_parser : forall s, is_frame_range s = true <-> exists f, new_frameset s = Ok f.
Proof. exact is_frame_range_agrees. Qed.
Print Assumptions is_frame_range_iff_parser.

Example odd_inputs :
  total (new_fileseq [255; 10; 35; 0; 37; 100]%nat Hash4) /\ is_frame_range (s2b "1-5x0") = false /\ is_frame_range (s2b " 1 - 5 #") = true.
Proof. vm_compute. repeat split. Qed.

From GFS Require Import Checked CheckedProofs.

(** ---- the crash sites of the Go code, with their guards: the model's primitives are total
    (a slice out of bounds is just an empty list there), so the totality theorems above say nothing
    about Go's index-out-of-range and nil-dereference panics.  Model/Checked.v restates the
    functions that contain such a site with CHECKED primitives (Panic exactly when Go panics) and
    the guard the Go code has; the theorems: with the guard the checked function is the unchecked one
    (so it never panics), without the guard it does panic on a concrete input. ---- *)
(** with its guard, each of the seven sites returns exactly what the total model function returns *)
Theorem every_anchored_crash_site_is_guarded :
  (* a1  sequence.go:777-781 *)
  (forall o tmpl it, classify_chk o tmpl it = Ok (classify o tmpl it)) /\
  (* a2  sequence.go:907-916 *)
  (forall base padding, single_frame_pad_chk base padding = Ok (single_frame_pad base padding)) /\
  (* b   fileseq.go:189-192, and every other index of the loop *)
  (forall i frames, f2r_better_chk i frames = Ok (f2r_better i frames)) /\
  (forall frames sorted z,
     frames_to_frame_range_chk frames sorted z = frames_to_frame_range frames sorted z /\
     exists s, frames_to_frame_range_chk frames sorted z = Ok s) /\
  (* c   the walk over Split() with its nil test *)
  (forall A (use : fileseq -> A) q, split_walk_chk use q = Ok (split_uses use q)) /\
  (* d   sequence.go:467-472 and 82-85 *)
  (forall style,
     (forall q, set_padding_style_chk q style = Ok (set_padding_style q style)) /\
     (forall sequence, new_fileseq_pad_chk sequence style = new_fileseq sequence (style_of_int style))) /\
  (* e   cmd/seqinfo/seqinfo.go:270-275, 280-285 *)
  (forall path st,
     reparse_frame_chk path st = reparse_frame path st /\ exists v, reparse_frame_chk path st = Ok v).
Proof. exact anchored_panic_sites_are_guarded. Qed.
Print Assumptions every_anchored_crash_site_is_guarded.

(** without its guard, each site panics on some input: the statements above are not vacuous *)
Theorem every_guard_is_needed :
  (exists o tmpl it, classify_unguarded o tmpl it = Panic Site_template_slice) /\
  (exists base padding, single_frame_pad_unguarded base padding = Panic Site_single_frame_index) /\
  (exists base padding, single_frame_pad_unguarded2 base padding = Panic Site_single_frame_index) /\
  (exists i frames, f2r_better_unguarded i frames = Panic Site_f2r_lookahead) /\
  (exists q, split_walk_unguarded q_frange q = Panic Site_split_nil) /\
  (exists q style, set_padding_style_unguarded q style = Panic Site_padder_nil) /\
  (exists sequence style, new_fileseq_pad_unguarded sequence style = Panic Site_padder_nil) /\
  (exists path st, reparse_frame_unguarded path st = Panic Site_seqinfo_nil).
Proof. exact anchored_guards_are_needed. Qed.
Print Assumptions every_guard_is_needed.

(** the public entry points built from the checked sites are the model functions the other theorems speak about *)
Theorem checked_entry_points_are_the_model :
  (forall items opts tmpl, find_items_chk items opts tmpl = find_items items opts tmpl) /\
  (forall frames sorted z, frames_to_frame_range_chk frames sorted z = frames_to_frame_range frames sorted z) /\
  (forall pl pattern o refmt, seqinfo_run_chk pl pattern o refmt = seqinfo_run pl pattern o refmt).
Proof. exact checked_entry_points_agree. Qed.
Print Assumptions checked_entry_points_are_the_model.

