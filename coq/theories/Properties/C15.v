(** C15 - No input crashes the parsing API; IsFrameRange agrees with the parser.
    Statements only; proofs in Proofs/TotalProofs.v and Proofs/ParseProofs.v.
    Every modelled entry point returns a value or an error for EVERY byte string:
    never [Panic], never the model's own [OutOfFuel].  The remaining entry points
    (PadFrameRange, PaddingChars, accessors, setters, Copy, Split, Normalize, ...)
    are plain total Gallina functions.  Partial: Format with arbitrary templates,
    Frame with arbitrary Stringers and the standard library are outside the model;
    the check drives mutated byte strings through the real API. *)
From GFS Require Import Base Dec Ranges Pad FrameSet Compress Path Seq Listing Seqinfo TotalProofs.
Local Open Scope Z_scope.

Theorem new_frameset_never_panics : forall s, total (new_frameset s).
Proof. exact new_frameset_total. Qed.
Print Assumptions new_frameset_never_panics.

Theorem new_fileseq_never_panics : forall s st, total (new_fileseq s st).
Proof. exact new_fileseq_total. Qed.
Print Assumptions new_fileseq_never_panics.

Theorem frames_to_frame_range_never_fails : forall l sorted z, exists s, frames_to_frame_range l sorted z = Ok s.
Proof. exact f2r_total. Qed.
Print Assumptions frames_to_frame_range_never_fails.

Theorem find_in_list_never_panics : forall paths opts, total (find_in_list paths opts).
Proof. exact find_in_list_total. Qed.
Print Assumptions find_in_list_never_panics.

Theorem find_on_disk_never_panics : forall path rd opts tmpl, total (find_on_disk path rd opts tmpl).
Proof. exact find_on_disk_total. Qed.
Print Assumptions find_on_disk_never_panics.

Theorem find_seq_on_disk_never_panics : forall pat st opts rd, total (find_seq_on_disk pat st opts rd).
Proof. exact find_seq_on_disk_total. Qed.
Print Assumptions find_seq_on_disk_never_panics.

Theorem seqinfo_parse_never_panics : forall pat o rf, total (seqinfo_parse pat o rf).
Proof. exact seqinfo_parse_total. Qed.
Print Assumptions seqinfo_parse_never_panics.

(** IsFrameRange(s) is true exactly when NewFrameSet(s) succeeds *)
Theorem is_frame_range_iff_parser : forall s, is_frame_range s = true <-> exists f, new_frameset s = Ok f.
Proof. exact is_frame_range_agrees. Qed.
Print Assumptions is_frame_range_iff_parser.

Example odd_inputs :
  total (new_fileseq [255; 10; 35; 0; 37; 100]%nat Hash4) /\ is_frame_range (s2b "1-5x0") = false /\ is_frame_range (s2b " 1 - 5 #") = true.
Proof. vm_compute. repeat split. Qed.
