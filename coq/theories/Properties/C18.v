(** C18 - seqinfo reports the library's parse of each pattern, one entry per pattern.
    Proved: the collection of the concurrent parses into a map keyed by the
    pattern does not depend on the order in which they finish, and holds exactly
    one entry per distinct pattern; the ORDER of the option stages is translated
    from func parse of cmd/seqinfo/seqinfo.go on every run (Gen/GenSeqinfo.v) and
    proved to be the documented one (reformat, component overrides in any order,
    inversion, index, frame), each override being the library setter.  The stage
    interpreter is compared on every check with the built binary and with the
    library's own setters.  Partial: the printers, JSON encoding and
    text/template are observed, not proved. *)
From Coq Require Import Permutation.
From Coq Require Import Sorted.
From GFS Require Import Base Pad FrameSet Seq Seqinfo GenSeqinfo SetterProofs CollectProofs SeqinfoProofs.

Theorem collect_is_order_independent : forall (A : Type) (f : bytes -> A) (pats arrivals : list bytes),
  Permutation pats arrivals ->
  forall k, map_get (collect (map (fun p => (p, f p)) arrivals)) k = if existsb (beq k) pats then Some (f k) else None.
Proof. exact collect_order_independent. Qed.
Print Assumptions collect_is_order_independent.

Theorem one_entry_per_distinct_pattern : forall (A : Type) (f : bytes -> A) (arrivals : list bytes),
  NoDup (map fst (collect (map (fun p => (p, f p)) arrivals))) /\
  (forall k, In k (map fst (collect (map (fun p => (p, f p)) arrivals))) <-> In k arrivals).
Proof. exact collect_one_entry_per_pattern. Qed.
Print Assumptions one_entry_per_distinct_pattern.

(** a pattern that fails to parse yields an error entry and nothing else changes:
    entries are a function of their own pattern only (instance of the theorem above
    with f := the parse of one pattern) *)
Example collect_example :
  map_get (collect [(s2b "b", 2); (s2b "a", 1); (s2b "b", 2)]) (s2b "b") = Some 2.
Proof. vm_compute. reflexivity. Qed.

(** ---- the option pipeline, in the order the source applies it ---- *)

(** tie T: the statement order gfsgen reads from the source today passes the boolean test *)
Lemma generated_pipeline_is_ok : pipeline_ok GenSeqinfo.pipeline = true.
Proof. vm_compute. reflexivity. Qed.

(** the tool applies: reformat, then the overrides, then inversion, then index/frame selection -
    stated on the GENERATED list, robust to a reordering of the (commuting) overrides *)
Theorem options_are_applied_in_the_documented_order : forall pattern o refmt,
  seqinfo_run GenSeqinfo.pipeline pattern o refmt = seqinfo_parse pattern o refmt.
Proof. exact (fun pattern o refmt => pipeline_ok_runs_as_documented _ pattern o refmt generated_pipeline_is_ok). Qed.

Theorem documented_order_is_sorted_by_class :
  StronglySorted (fun a b => (stage_class a <= stage_class b)%nat) reference_pipeline /\
  NoDup reference_pipeline /\ (forall s, In s reference_pipeline).
Proof. exact stage_order_is_the_documented_one. Qed.

(** the component overrides commute: their relative order cannot be observed *)
Theorem component_overrides_commute : forall st o refmt pl1 pl2 q,
  Permutation pl1 pl2 -> Forall (fun s => stage_class s = 1%nat) pl1 ->
  run_stages st o refmt pl1 q = run_stages st o refmt pl2 q.
Proof. exact overrides_commute_gen. Qed.

(** each override IS the library setter: the entry is the read-out of the setters' history (C12) *)
Theorem overrides_act_as_the_library_setters : forall pattern o refmt q0,
  overrides_only o ->
  new_fileseq pattern (if so_hash1 o then Hash1 else Hash4) = Ok q0 ->
  (nonempty (so_range o) = true -> range_parses (so_range o) = true) ->
  exists q, seqinfo_parse pattern o refmt = Ok (fill_result q) /\
            q = run_sops q0 (override_ops o) /\
            components q = fold_left comp_step (override_ops o) (components q0).
Proof.
  intros pattern o refmt q0 Ho Hq Hr. exists (run_sops q0 (override_ops o)).
  rewrite <- seqinfo_run_reference. split; [apply overrides_are_the_setters; assumption|split; [reflexivity|]].
  apply (setters_compose (override_ops o) q0).
Qed.

Theorem no_option_reports_the_library_parse : forall pattern o refmt, no_options o ->
  seqinfo_parse pattern o refmt =
  match new_fileseq pattern (if so_hash1 o then Hash1 else Hash4) with
  | Ok q => Ok (fill_result q)
  | Err _ => Ok (err_result pattern)
  | Panic n => Panic n
  | OutOfFuel => OutOfFuel
  end.
Proof. intros pattern o refmt H. rewrite <- seqinfo_run_reference. apply no_options_is_the_library_parse. exact H. Qed.

(** an entry is either the read-out of a sequence or an error entry carrying only its pattern *)
Theorem error_entries_carry_only_their_pattern : forall pl pattern o refmt r,
  seqinfo_run pl pattern o refmt = Ok r ->
  (sr_error r = true -> r = err_result pattern) /\ (sr_error r = false -> exists q, r = fill_result q).
Proof. exact error_entry_carries_only_its_pattern. Qed.

(** a pattern that fails to parse yields its error entry and leaves every other entry as it would be without it *)
Theorem bad_pattern_is_isolated : forall o bad k pats e,
  new_fileseq bad (if so_hash1 o then Hash1 else Hash4) = Err e ->
  In k pats -> k <> bad ->
  let f := fun p => seqinfo_run reference_pipeline p o None in
  map_get (collect (map (fun p => (p, f p)) (bad :: pats))) bad = Some (Ok (err_result bad)) /\
  map_get (collect (map (fun p => (p, f p)) (bad :: pats))) k =
  map_get (collect (map (fun p => (p, f p)) pats)) k.
Proof. exact bad_pattern_does_not_affect_the_others. Qed.

(** every invocation produces an entry: the pipeline never panics or runs out of fuel *)
Theorem every_pattern_gets_an_entry : forall pattern o refmt,
  exists r, seqinfo_run GenSeqinfo.pipeline pattern o refmt = Ok r.
Proof.
  intros pattern o refmt. rewrite options_are_applied_in_the_documented_order, <- seqinfo_run_reference.
  apply seqinfo_run_total.
Qed.

Print Assumptions options_are_applied_in_the_documented_order.
Print Assumptions documented_order_is_sorted_by_class.
Print Assumptions component_overrides_commute.
Print Assumptions overrides_act_as_the_library_setters.
Print Assumptions no_option_reports_the_library_parse.
Print Assumptions error_entries_carry_only_their_pattern.
Print Assumptions bad_pattern_is_isolated.
Print Assumptions every_pattern_gets_an_entry.
