(** C18 - seqinfo reports the library's parse of each pattern, one entry per pattern.
    Proved: the collection of the concurrent parses into a map keyed by the
    pattern does not depend on the order in which they finish, and holds exactly
    one entry per distinct pattern.  The option pipeline is the executable
    definition [seqinfo_parse] (Model/Seqinfo.v), compared on every check with
    the built binary and with the library's own setters.  Partial: the printers,
    JSON encoding and text/template are observed, not proved. *)
From Coq Require Import Permutation.
From GFS Require Import Base Seqinfo CollectProofs.

Theorem collect_is_order_independent : forall (A : Type) (f : bytes -> A) (pats arrivals : list bytes),
  Permutation pats arrivals ->
  forall k, map_get (collect (map (fun p => (p, f p)) arrivals)) k = if existsb (beq k) pats then Some (f k) else None.
Proof. exact collect_order_independent. Qed.
Print Assumptions collect_is_order_independent.

Theorem one_entry_per_distinct_pattern : forall (A : Type) (f : bytes -> A) (arrivals : list bytes),
  NoDup (map fst (collect (map (fun p => (p, f p)) arrivals))) /\
  (forall k, In k (map fst (collect (map (fun p => (p, f p)) arrivals))) <-> In k arrivals).
Proof. exact collect_one_entry_per_pattern. Qed.
Print Assumptions one_entry_per_distinct_pattern.

(** a pattern that fails to parse yields an error entry and nothing else changes:
    entries are a function of their own pattern only (instance of the theorem above
    with f := the parse of one pattern) *)
Example collect_example :
  map_get (collect [(s2b "b", 2); (s2b "a", 1); (s2b "b", 2)]) (s2b "b") = Some 2.
Proof. vm_compute. reflexivity. Qed.
