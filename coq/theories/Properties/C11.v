(** C11 - Zero-padding a range string changes nothing but leading zeros.
    Statements only; proofs in Proofs/PadRangeProofs.v and Proofs/Glue.v.
    [pad_comp w p] (PadRangeProofs.v) pads the start/end numerals of a component
    that reads as a range and passes any other component through; [tcomp] is the
    regex-free reading of a component proved equal to the generated regexes. *)
From GFS Require Import Base Dec Ranges Pad FrameSet SpecRange RangeRegex DecProofs PadRangeProofs Glue.
Local Open Scope Z_scope.

Theorem pad_width_below_2 : forall s w, w < 2 -> pad_frame_range s w = s.
Proof. exact pad_small_width. Qed.
Print Assumptions pad_width_below_2.

(** same comma-separated components, in the same order, each padded in place *)
Theorem pad_componentwise : forall s w, 2 <= w ->
  split_on c_comma (pad_frame_range s w) = map (pad_comp w) (split_on c_comma s).
Proof. exact pad_components. Qed.
Print Assumptions pad_componentwise.

(** start and end numerals are zero-filled (sign counts), the step text is untouched *)
Theorem pad_numerals : forall w p a b md n, 2 <= w ->
  (tcomp p = Some [a] -> tcomp (pad_comp w p) = Some [zfill_string a w]) /\
  (tcomp p = Some [a; b] -> tcomp (pad_comp w p) = Some [zfill_string a w; zfill_string b w]) /\
  (tcomp p = Some [a; b; md; n] -> tcomp (pad_comp w p) = Some [zfill_string a w; zfill_string b w; md; n]).
Proof. exact pad_numerals_wide. Qed.
Print Assumptions pad_numerals.

Theorem zfill_string_len : forall (t : bytes) w,
  Z.of_nat (List.length (zfill_string t w)) = Z.max (Z.of_nat (List.length t)) w.
Proof. exact zfill_string_length. Qed.
Print Assumptions zfill_string_len.

(** numbers already that wide are unchanged *)
Theorem pad_wide_enough : forall w p a, tcomp p = Some [a] -> w <= Z.of_nat (List.length a) -> pad_comp w p = p.
Proof. exact pad_comp_wide_enough. Qed.
Print Assumptions pad_wide_enough.

Theorem pad_is_idempotent : forall s w, pad_frame_range (pad_frame_range s w) w = pad_frame_range s w.
Proof. exact pad_idempotent. Qed.
Print Assumptions pad_is_idempotent.

(** the padded string parses to exactly the same frame list (or both are rejected) *)
Theorem pad_preserves_frames : forall s w,
  match new_frameset (pad_frame_range s w), new_frameset s with
  | Ok f, Ok g => fs_frames f = fs_frames g
  | Err _, Err _ => True
  | _, _ => False
  end.
Proof. exact pad_preserves_frames_proof. Qed.
Print Assumptions pad_preserves_frames.

Example pad_example : pad_frame_range (s2b "1,a,-2-5x2") 3 = s2b "001,a,-02-005x2".
Proof. vm_compute. reflexivity. Qed.

From GFS Require Import AuditProofs.

(** all three component shapes: numbers already that wide leave the text unchanged *)
Theorem wide_enough_components_are_unchanged : forall w p l, tcomp p = Some l -> numbers_wide w l ->
  pad_comp w p = p /\ pad_part p w = p.
Proof. exact pad_wide_enough_every_shape. Qed.
Print Assumptions wide_enough_components_are_unchanged.

