(** C16 - Independent library calls are safe to run concurrently.
    Two obligations.  (1) [no_shared_writes]: the table of writes to
    package-level state that gfsgen extracts from /repo's source on every run
    (Gen/GenEffects.v: every assignment / ++ / delete outside init-only code whose
    target is a package-level variable or a field of a padding mapper) is empty.
    (2) For threads without shared writes, EVERY schedule leaves the shared store
    untouched, gives every thread the result of its solo run, and contains no
    conflicting pair of accesses (Model/Conc.v).
    Partial: gfsgen's syntactic alias analysis and the Go memory model are in the
    trusted base; the race detector on fresh processes validates them on every run. *)
From Coq Require Import List String.
Import ListNotations.
From GFS Require Import GenEffects Conc ConcProofs.

Theorem no_shared_writes : shared_writes = [].
Proof. reflexivity. Qed.
Print Assumptions no_shared_writes.

Theorem read_only_noninterference :
  forall (loc val lstate : Type) (loc_eqb : loc -> loc -> bool) sched (s : store loc val) ts,
  read_only loc val lstate ts ->
  let st' := run _ _ _ loc_eqb sched (s, ts) in
  fst st' = s /\
  (forall j, option_map (goal loc val lstate loc_eqb s) (nth_error (snd st') j) =
             option_map (goal loc val lstate loc_eqb s) (nth_error ts j)).
Proof. exact read_only_noninterference_proof. Qed.
Print Assumptions read_only_noninterference.

Theorem finished_thread_has_solo_result :
  forall (loc val lstate : Type) (loc_eqb : loc -> loc -> bool) sched (s : store loc val) ts j acts l l',
  read_only loc val lstate ts -> nth_error ts j = Some (acts, l) ->
  nth_error (snd (run _ _ _ loc_eqb sched (s, ts))) j = Some ([], l') ->
  l' = run_alone _ _ _ loc_eqb s acts l.
Proof. exact finished_thread_result_proof. Qed.
Print Assumptions finished_thread_has_solo_result.

Theorem no_race :
  forall (loc val lstate : Type) (loc_eqb : loc -> loc -> bool) ts, read_only loc val lstate ts ->
  forall t1 t2 a b, In t1 ts -> In t2 ts -> In a (fst t1) -> In b (fst t2) -> ~ conflicting _ _ _ loc_eqb a b.
Proof. exact no_race_proof. Qed.
Print Assumptions no_race.

(** non-vacuity: two reader threads *)
Example readers_are_read_only :
  read_only nat nat nat [([ARead _ _ _ 0 (fun v l => v + l); ALocal _ _ _ S], 1); ([ARead _ _ _ 0 (fun v _ => v)], 0)].
Proof. intros t Ht a Ha. cbn in Ht. destruct Ht as [<-|[<-|[]]]; cbn in Ha; intuition; subst; reflexivity. Qed.
