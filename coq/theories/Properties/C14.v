(** C14 - Huge ranges are answered arithmetically, never by enumeration.
    Statements only; proofs in Proofs/HugeProofs.v (on top of RangeBasics.v).
    Correctness at any magnitude: the theorems are over unbounded Z.  "No
    enumeration" is rendered as: parsing A-B / A-BxN yields ONE block built by a
    constructor application, and every answer is the closed form below; the
    Examples evaluate 10^18-frame ranges by vm_compute, which could not terminate
    otherwise.  Partial: the implementation's time and allocation are MEASURED by
    the check (2 s / 1 MiB per case), not proved. *)
From GFS Require Import Base Dec Ranges FrameSet SpecRanges HugeProofs.
Local Open Scope Z_scope.

Theorem plain_range_is_one_block : forall a b, fits_int a = true -> fits_int b = true ->
  new_frameset (plain_text a b) = Ok (mkFS (plain_text a b) [new_range a b (if a >? b then -1 else 1)]).
Proof. exact plain_range_one_block. Qed.
Print Assumptions plain_range_is_one_block.

Theorem stepped_range_is_one_block : forall a b n,
  fits_int a = true -> fits_int b = true -> fits_int n = true -> n <> 0 ->
  new_frameset (stepped_text a b n) = Ok (mkFS (stepped_text a b n) [new_range a b (dir_step a b n)]).
Proof. exact stepped_range_one_block. Qed.
Print Assumptions stepped_range_is_one_block.

(** length, start/end, frame-at-index, membership and index-of-frame in closed form *)
Theorem one_block_closed_forms : forall fr r, wf r -> let f := mkFS fr [r] in
  fs_len f = Z.of_nat (enum_count r) /\ fs_start f = r_start r /\
  fs_end f = r_start r + r_step r * (Z.of_nat (enum_count r) - 1) /\
  (forall i, 0 <= i < Z.of_nat (enum_count r) -> fs_frame f i = Some (r_start r + r_step r * i)) /\
  (forall i, i < 0 \/ Z.of_nat (enum_count r) <= i -> fs_frame f i = None) /\
  (forall v, fs_has_frame f v = true <-> on_grid r v) /\
  (forall v, on_grid r v -> exists k, 0 <= k < Z.of_nat (enum_count r) /\ v = r_start r + r_step r * k /\ fs_index f v = k) /\
  (forall v, ~ on_grid r v -> fs_index f v = -1).
Proof. exact single_block_answers. Qed.
Print Assumptions one_block_closed_forms.

(** 10^18 frames: answered at once inside Coq *)
Example huge_example :
  match new_frameset (s2b "1-1000000000000000000x7") with
  | Ok f => fs_len f = 142857142857142858 /\ fs_frame f 100000000000000000 = Some 700000000000000001 /\
            fs_index f 700000000000000001 = 100000000000000000 /\ fs_has_frame f 700000000000000002 = false
  | _ => False
  end.
Proof. vm_compute. repeat split. Qed.
