(** C03 - A sequence string decomposes losslessly into dir, base, range, pad, ext.
    Statements only; proofs in Proofs/SplitProofs.v (the generated split regex,
    for all strings of the domain) and Proofs/SeqProofs.v.

    [unambiguous d b r p e] (Spec/SpecSeq.v) is the property's domain: the
    directory is empty or ends in '/', the basename holds no '/', neither
    holds a newline or a pad token, the tail of dir++base cannot be read as the
    beginning of a frame range, the range is empty or a range of the grammar
    as it stands, the pad is one of the five token forms, the extension is empty
    or starts with '.' and holds no newline. *)
From GFS Require Import Base Dec Regex GenRegex Ranges Pad FrameSet Path Seq SpecRange SpecSeq SplitProofs SeqProofs.
Local Open Scope Z_scope.

Theorem split_roundtrip : forall d b r p e st, unambiguous d b r p e = true ->
  exists q, new_fileseq (d ++ b ++ r ++ p ++ e) st = Ok q /\
    q_dir q = d /\ q_base q = b /\ q_frange q = r /\ q_pad q = p /\ q_ext q = e /\
    q_zfill q = padding_chars_size st p /\ q_style q = st /\
    q_string q = d ++ b ++ r ++ p ++ e /\
    q_format_default q = d ++ b ++ r ++ p ++ e /\
    (r = [] -> q_fs q = None) /\
    (r <> [] -> exists f, q_fs q = Some f /\ spec_frames r = Some (fs_frames f)).
Proof. exact split_roundtrip_full. Qed.
Print Assumptions split_roundtrip.

(** the tie to the translated regular expression: its four captures on every
    string of the domain *)
Theorem split_pattern_captures : forall d b r p e, unambiguous d b r p e = true ->
  submatches R_splitPattern (d ++ b ++ r ++ p ++ e) 4 = Some [d ++ b; r; p; e].
Proof. exact split_captures. Qed.
Print Assumptions split_pattern_captures.

(** non-vacuity: the domain is inhabited by non-trivial tuples *)
Example domain_example :
  unambiguous (s2b "/a/b/") (s2b "filex") (s2b "-5--1,3-9x2") (s2b "$F3") (s2b ".tar.gz") = true /\
  unambiguous (s2b "") (s2b "foo.") (s2b "") (s2b "%04d") (s2b "") = true.
Proof. vm_compute. split; reflexivity. Qed.
