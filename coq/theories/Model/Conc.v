(** A small model of independent library calls running concurrently (C16):
    threads are lists of atomic actions over a shared store (the package-level
    state) and a private local state.  Definitions only. *)
From Coq Require Import List Arith.
Import ListNotations.

Section Conc.
Variables loc val lstate : Type.

Inductive action : Type :=
| ARead (x : loc) (k : val -> lstate -> lstate)       (* read shared location x into the local state *)
| AWrite (x : loc) (f : lstate -> val)                 (* write shared location x *)
| ALocal (k : lstate -> lstate).                       (* work on the thread's own values *)

Definition writes_shared (a : action) : bool :=
  match a with AWrite _ _ => true | _ => false end.

Definition store := loc -> val.
Variable loc_eqb : loc -> loc -> bool.
Definition upd (s : store) (x : loc) (v : val) : store := fun y => if loc_eqb y x then v else s y.

(** a thread: remaining actions and local state *)
Definition thread : Type := (list action * lstate)%type.

Definition astep (s : store) (a : action) (l : lstate) : store * lstate :=
  match a with
  | ARead x k => (s, k (s x) l)
  | AWrite x f => (upd s x (f l), l)
  | ALocal k => (s, k l)
  end.

Fixpoint set_nth {A} (l : list A) (n : nat) (v : A) : list A :=
  match l, n with
  | [], _ => []
  | _ :: r, O => v :: r
  | x :: r, S n' => x :: set_nth r n' v
  end.

(** the scheduler lets thread i execute its next action (no-op when finished) *)
Definition sstep (st : store * list thread) (i : nat) : store * list thread :=
  let '(s, ts) := st in
  match nth_error ts i with
  | Some (a :: rest, l) => let '(s', l') := astep s a l in (s', set_nth ts i (rest, l'))
  | _ => st
  end.

Definition run (sched : list nat) (st : store * list thread) : store * list thread :=
  fold_left sstep sched st.

(** running one thread alone, to completion *)
Fixpoint run_alone (s : store) (acts : list action) (l : lstate) : lstate :=
  match acts with
  | [] => l
  | a :: rest => let '(s', l') := astep s a l in run_alone s' rest l'
  end.

(** a data race: two different threads access the same location, at least one writing;
    without shared writes there is nothing to conflict on *)
Definition access (a : action) : option (loc * bool) :=
  match a with ARead x _ => Some (x, false) | AWrite x _ => Some (x, true) | ALocal _ => None end.
Definition conflicting (a b : action) : Prop :=
  match access a, access b with
  | Some (x, wa), Some (y, wb) => loc_eqb x y = true /\ (wa = true \/ wb = true)
  | _, _ => False
  end.
End Conc.
