(** Model of which directories cmd/seqls lists (cmd/seqls/manager.go:
    preparePaths, load, loadRecursive over fastwalk) and of the lines it prints
    for them, over an abstract directory tree.  The worker pipeline that carries
    the jobs is Model/Pipeline.v.  No proofs in this file. *)
From GFS Require Import Base Dec Regex GenRegex GenPadTables Ranges Pad FrameSet Compress Path Seq Listing.
Local Open Scope Z_scope.

(** a tree: every entry with the REAL path of its parent directory; a link to a
    directory carries the real path of its target *)
Record tnode : Type := mkTN { tn_parent : bytes; tn_name : bytes; tn_kind : ekind; tn_target : bytes }.
Definition tree : Type := list tnode.

Definition children (t : tree) (real : bytes) : list tnode := filter (fun n => beq (tn_parent n) real) t.
Definition entries (t : tree) (real : bytes) : list (bytes * ekind) := map (fun n => (tn_name n, tn_kind n)) (children t real).

Definition join_path (dir name : bytes) : bytes := dir ++ c_slash :: name.        (* fastwalk: dirName + "/" + baseName *)
Definition real_join (real name : bytes) : bytes := if beq real [c_dot] then name else real ++ c_slash :: name.

(** the hidden-directory test of loadRecursive (with the ".." repair) *)
Definition hidden_dir (spelled : bytes) : bool :=
  let name := snd (path_split spelled) in
  Nat.ltb 1 (List.length name) && negb (beq name [c_dot; c_dot]) && has_prefix name [c_dot].

(** the recursive walk: returns the listing jobs (spelled path, real path) in visiting
    order and the cache of link targets already followed *)
Fixpoint walk_entries (fuel : nat) (t : tree) (all : bool) (spelled : bytes) (ents : list tnode)
         (cache : list bytes) : list (bytes * bytes) * list bytes :=
  match fuel with
  | O => ([], cache)
  | S fuel' =>
    match ents with
    | [] => ([], cache)
    | n :: rest =>
      let sp := join_path spelled (tn_name n) in
      let '(jobs1, cache1) :=
          match tn_kind n with
          | KDir =>
            if negb all && hidden_dir sp then ([], cache)
            else
              let real := real_join (tn_parent n) (tn_name n) in
              let '(j, c) := walk_entries fuel' t all sp (children t real) cache in
              ((sp, real) :: j, c)
          | KLinkDir =>
            let tgt := tn_target n in
            let first := negb (existsb (beq tgt) cache) in
            let cache' := if first then tgt :: cache else cache in
            if negb all && hidden_dir sp then ([], cache')
            else if first then
              let '(j, c) := walk_entries fuel' t all sp (children t tgt) cache' in
              ((sp, tgt) :: j, c)
            else ([(sp, tgt)], cache')
          | _ => ([], cache)
          end in
      let '(jobs2, cache2) := walk_entries fuel' t all spelled rest cache1 in
      (jobs1 ++ jobs2, cache2)
    end
  end.

Definition walk_root (t : tree) (all : bool) (root real : bytes) (cache : list bytes)
  : list (bytes * bytes) * list bytes :=
  if negb all && hidden_dir root then ([], cache)
  else
    let fuel := S (List.length t * S (List.length t)) in
    let '(j, c) := walk_entries fuel t all root (children t real) cache in
    ((root, real) :: j, c).

(** preparePaths: clean, drop duplicates, classify against the tree *)
Inductive argk : Type := ADir (spelled real : bytes) | APattern (p : bytes) | AIgnored.

Definition is_dir_real (t : tree) (real : bytes) : bool :=
  beq real [c_dot] ||
  existsb (fun n => match tn_kind n with KDir => beq (real_join (tn_parent n) (tn_name n)) real | _ => false end) t.
Definition link_target (t : tree) (p : bytes) : option bytes :=
  match filter (fun n => match tn_kind n with KLinkDir => beq (real_join (tn_parent n) (tn_name n)) p | _ => false end) t with
  | n :: _ => Some (tn_target n)
  | [] => None
  end.
Definition is_file_real (t : tree) (p : bytes) : bool :=
  existsb (fun n => match tn_kind n with KFile | KLinkFile => beq (real_join (tn_parent n) (tn_name n)) p | _ => false end) t.

Definition classify_arg (t : tree) (a : bytes) : argk :=
  let c := path_clean a in
  if is_dir_real t c then ADir c c
  else match link_target t c with
       | Some tgt => ADir c tgt
       | None => if is_file_real t c then AIgnored else APattern c
       end.

Fixpoint dedup_bytes (l : list bytes) (seen : list bytes) : list bytes :=
  match l with
  | [] => []
  | x :: r => if existsb (beq x) seen then dedup_bytes r seen else x :: dedup_bytes r (x :: seen)
  end.

Record sflags : Type := mkSF { sf_recurse : bool; sf_all : bool; sf_seqs : bool; sf_hash1 : bool; sf_abs : bool }.

Definition file_opts (f : sflags) : list Z :=
  (if sf_all f then [K_HiddenFiles] else []) ++
  (if sf_seqs f then [] else [K_SingleFiles]) ++
  (if sf_hash1 f then [K_FileOptPadStyleHash1] else []).

(** jobs in loader order: patterns first, then directories *)
Definition jobs_of (f : sflags) (t : tree) (args : list bytes) : list bytes * list (bytes * bytes) :=
  let cl := dedup_bytes (map path_clean args) [] in
  let ks := map (classify_arg t) cl in
  let pats := flat_map (fun k => match k with APattern p => [p] | _ => [] end) ks in
  let roots := flat_map (fun k => match k with ADir s r => [(s, r)] | _ => [] end) ks in
  if sf_recurse f then
    (pats, fst (fold_left (fun acc sr =>
                             let '(js, cache) := acc in
                             let '(j, c) := walk_root t (sf_all f) (fst sr) (snd sr) cache in
                             (js ++ j, c)) roots ([], [])))
  else (pats, roots).

(** what one job prints *)
Definition dir_job_lines (f : sflags) (t : tree) (spelled real : bytes) : list bytes :=
  match find_on_disk spelled (Some (entries t real)) (file_opts f) None with
  | Ok qs => map q_string qs
  | _ => []
  end.

Definition pattern_job_lines (f : sflags) (t : tree) (p : bytes) : list bytes :=
  match new_fileseq p default_style with
  | Ok q0 =>
    let path := q_dir q0 ++ q_base q0 ++ q_pad q0 ++ q_ext q0 in      (* Format "{{dir}}{{base}}{{pad}}{{ext}}" *)
    let rd (d : bytes) : option (list (bytes * ekind)) :=
        let c := path_clean d in
        if is_dir_real t c then Some (entries t c)
        else match link_target t c with Some tgt => Some (entries t tgt) | None => None end in
    match find_seq_on_disk path K_PadStyleDefault (file_opts f) rd with
    | Ok (Some q) => [q_string q]
    | _ => []
    end
  | _ => []
  end.

Definition absolute (cwd s : bytes) : bytes :=
  match s with
  | 47%nat :: _ => path_clean s
  | _ => path_clean (cwd ++ c_slash :: s)
  end.

(** the lines seqls prints (as a list; the order is the loader's, the tool's is any) *)
Definition seqls_lines (f : sflags) (cwd : bytes) (t : tree) (args : list bytes) : list bytes :=
  let args := match args with [] => [[c_dot]] | _ => args end in
  let '(pats, dirs) := jobs_of f t args in
  let ls := flat_map (pattern_job_lines f t) pats ++ flat_map (fun sr => dir_job_lines f t (fst sr) (snd sr)) dirs in
  if sf_abs f then map (absolute cwd) ls else ls.
