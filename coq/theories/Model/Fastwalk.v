(** Model of the termination-detection protocol of the concurrent directory
    walker cmd/seqls/internal/fastwalk/fastwalk.go (from golang.org/x/tools),
    as an executable labelled transition system.

    Goroutines: the coordinator ([Walk]: the [for { select ... }] loop over the
    [todo] stack and the counter [out]) and [nw] workers ([doWork]).  Channels:
    [workc], [enqueuec] and [resc] are BUFFERED with the same capacity [cap]
    (numWorkers in the Go code; the model keeps the number of workers and the
    capacity independent).  A buffered channel is a FIFO queue; a send is
    enabled when the queue holds fewer than [cap] items, a receive when it is
    not empty.  One transition = one channel operation together with the
    straight-line code that follows it in the same goroutine.

    Only the error-free case is modelled: the callback answers nil or SkipDir,
    so every result sent on [resc] is nil and [resc] is just a counter.
    [donec] is closed only after the coordinator has returned; the model stops
    at that point ([s_returned]), so the [<-w.donec] cases never fire before.

    The bodies of the three coordinator select cases are DATA ([coord]): that
    is the part a translator regenerates from the Go source.

    This file contains definitions only; the proofs are in
    Proofs/FastwalkProofs.v. *)
From GFS Require Import Base.

(** * Directory trees *)

(** a directory: its name, whether the callback answers SkipDir for it, its
    sub-directories *)
Inductive tree : Type := Node : nat -> bool -> list tree -> tree.

Definition t_name (t : tree) : nat := match t with Node n _ _ => n end.
Definition t_skip (t : tree) : bool := match t with Node _ sk _ => sk end.
Definition t_kids (t : tree) : list tree := match t with Node _ _ kids => kids end.

(** directories a complete walk reads, in preorder: the node itself (the
    callback runs for it even when it answers SkipDir) and, unless it is
    skipped, everything below *)
Fixpoint live (t : tree) : list nat :=
  match t with
  | Node n sk kids => n :: (if sk then [] else flat_map live kids)
  end.

(** the same for a list of pending items *)
Definition lives (l : list tree) : list nat := flat_map live l.

(** what [walk] enqueues for an item: nothing when the callback says SkipDir *)
Definition to_enqueue (t : tree) : list tree :=
  match t with Node _ sk kids => if sk then [] else kids end.

(** * The coordinator's select-case bodies, as data *)

Inductive cstmt : Type :=
| CPopTodo            (* todo = todo[:len(todo)-1] *)
| CPushTodo           (* todo = append(todo, it)   - [it] is the item just received from enqueuec *)
| CIncOut             (* out++ *)
| CDecOut             (* out-- *)
| CReturnIfErr        (* if err != nil { return err }  - a no-op in the error-free model *)
| CIfIdle (body : list cstmt)                     (* if out == 0 && len(todo) == 0 { body } *)
| CTryRecvEnqueue (got dflt : list cstmt)         (* select { case it := <-w.enqueuec: got   default: dflt } *)
| CReturnNil.         (* return nil *)

Record coord : Type := mkCoord {
  c_on_send    : list cstmt;     (* body of  case workc <- workItem      *)
  c_on_enqueue : list cstmt;     (* body of  case it := <-w.enqueuec     *)
  c_on_result  : list cstmt }.   (* body of  case err := <-w.resc        *)

(** the Go code as written *)
Definition reference_coord : coord :=
  mkCoord [CPopTodo; CIncOut]
          [CPushTodo]
          [CDecOut; CReturnIfErr; CIfIdle [CTryRecvEnqueue [CPushTodo] [CReturnNil]]].

(** the seeded defect the completeness theorem excludes: quit without
    re-checking enqueuec *)
Definition early_return_coord : coord :=
  mkCoord [CPopTodo; CIncOut]
          [CPushTodo]
          [CDecOut; CReturnIfErr; CIfIdle [CReturnNil]].

(** the part of the state the coordinator statements act on *)
Record cstate : Type := mkCS {
  k_todo : list tree;
  k_out  : Z;
  k_enqc : list tree;
  k_it   : option tree;      (* the variable [it], when a receive has bound it *)
  k_ret  : bool }.

Definition is_nil {A : Type} (l : list A) : bool :=
  match l with [] => true | _ => false end.

(** One statement.  [CPopTodo] on an empty [todo] and [CPushTodo] when no
    receive has bound [it] are no-ops (neither happens with the two
    coordinators above).  After [CReturnNil] the remaining statements of every
    enclosing list are not executed. *)
Fixpoint exec_stmt (st : cstmt) (k : cstate) {struct st} : cstate :=
  match st with
  | CPopTodo => mkCS (removelast (k_todo k)) (k_out k) (k_enqc k) (k_it k) (k_ret k)
  | CPushTodo =>
      match k_it k with
      | Some it => mkCS (k_todo k ++ [it]) (k_out k) (k_enqc k) (k_it k) (k_ret k)
      | None => k
      end
  | CIncOut => mkCS (k_todo k) (k_out k + 1)%Z (k_enqc k) (k_it k) (k_ret k)
  | CDecOut => mkCS (k_todo k) (k_out k - 1)%Z (k_enqc k) (k_it k) (k_ret k)
  | CReturnIfErr => k
  | CIfIdle body =>
      if Z.eqb (k_out k) 0 && is_nil (k_todo k)
      then (fix go (l : list cstmt) (k : cstate) {struct l} : cstate :=
              match l with
              | [] => k
              | x :: r => let k' := exec_stmt x k in if k_ret k' then k' else go r k'
              end) body k
      else k
  | CTryRecvEnqueue got dflt =>
      let go := fix go (l : list cstmt) (k : cstate) {struct l} : cstate :=
              match l with
              | [] => k
              | x :: r => let k' := exec_stmt x k in if k_ret k' then k' else go r k'
              end in
      match k_enqc k with
      | it :: rest => go got (mkCS (k_todo k) (k_out k) rest (Some it) (k_ret k))
      | [] => go dflt k
      end
  | CReturnNil => mkCS (k_todo k) (k_out k) (k_enqc k) (k_it k) true
  end.

Fixpoint exec_stmts (l : list cstmt) (k : cstate) {struct l} : cstate :=
  match l with
  | [] => k
  | x :: r => let k' := exec_stmt x k in if k_ret k' then k' else exec_stmts r k'
  end.

(** * States *)

Inductive wstate : Type :=
| WIdle                          (* blocked on the receive from workc *)
| WBusy (pending : list tree)    (* inside walk(): sub-directories still to enqueue *)
| WDone.                         (* walk finished, result not yet sent on resc *)

Record state : Type := mkSt {
  s_todo : list tree;          (* coordinator's stack; top = LAST element, as in the Go slice *)
  s_out : Z;                   (* results outstanding *)
  s_workc : list tree;         (* buffered channels as FIFO queues; capacity cap *)
  s_enqc : list tree;
  s_resc : nat;                (* number of (nil) results buffered *)
  s_workers : list wstate;
  s_walked : list nat;         (* names of directories whose walk() started, in order *)
  s_returned : bool }.

Definition init (nw : nat) (root : tree) : state :=
  mkSt [root] 0%Z [] [] 0 (repeat WIdle nw) [] false.

(** the last element of a list *)
Fixpoint last_opt {A : Type} (l : list A) : option A :=
  match l with
  | [] => None
  | x :: r => match r with [] => Some x | _ :: _ => last_opt r end
  end.

(** replace element [i] of [l] (no effect when [i] is out of range) *)
Fixpoint wupd (i : nat) (w : wstate) (l : list wstate) : list wstate :=
  match l, i with
  | [], _ => []
  | _ :: r, O => w :: r
  | x :: r, S i' => x :: wupd i' w r
  end.

(** * Transitions *)

Inductive label : Type :=
| LSend                      (* coordinator: case workc <- workItem   (enabled: todo non-empty, workc not full) *)
| LRecvEnq                   (* coordinator: case it := <-w.enqueuec  (enabled: enqc non-empty) *)
| LRecvRes                   (* coordinator: case err := <-w.resc     (enabled: resc > 0) *)
| LTake (w : nat)            (* worker w idle, workc non-empty: takes the head item; its walk starts *)
| LEnqueue (w : nat)         (* worker w busy with k :: rest, enqc not full: sends k on enqueuec *)
| LFinish (w : nat)          (* worker w busy with nothing left to enqueue: walk returns *)
| LResult (w : nat).         (* worker w done, resc not full: sends its result, back to the top of its loop *)

(** put the coordinator's part back into the state *)
Definition with_cstate (s : state) (workc : list tree) (resc : nat) (k : cstate) : state :=
  mkSt (k_todo k) (k_out k) workc (k_enqc k) resc (s_workers s) (s_walked s) (k_ret k).

(** executable step function: [None] when the label is not enabled or the walk
    has returned *)
Definition step (c : coord) (cap : nat) (s : state) (l : label) : option state :=
  if s_returned s then None else
  match l with
  | LSend =>
      match last_opt (s_todo s) with
      | Some item =>
          if Nat.ltb (List.length (s_workc s)) cap
          then Some (with_cstate s (s_workc s ++ [item]) (s_resc s)
                       (exec_stmts (c_on_send c)
                          (mkCS (s_todo s) (s_out s) (s_enqc s) None false)))
          else None
      | None => None
      end
  | LRecvEnq =>
      match s_enqc s with
      | item :: rest =>
          Some (with_cstate s (s_workc s) (s_resc s)
                  (exec_stmts (c_on_enqueue c)
                     (mkCS (s_todo s) (s_out s) rest (Some item) false)))
      | [] => None
      end
  | LRecvRes =>
      match s_resc s with
      | S resc' =>
          Some (with_cstate s (s_workc s) resc'
                  (exec_stmts (c_on_result c)
                     (mkCS (s_todo s) (s_out s) (s_enqc s) None false)))
      | O => None
      end
  | LTake w =>
      match nth_error (s_workers s) w, s_workc s with
      | Some WIdle, item :: rest =>
          Some (mkSt (s_todo s) (s_out s) rest (s_enqc s) (s_resc s)
                  (wupd w (WBusy (to_enqueue item)) (s_workers s))
                  (s_walked s ++ [t_name item]) false)
      | _, _ => None
      end
  | LEnqueue w =>
      match nth_error (s_workers s) w with
      | Some (WBusy (k :: rest)) =>
          if Nat.ltb (List.length (s_enqc s)) cap
          then Some (mkSt (s_todo s) (s_out s) (s_workc s) (s_enqc s ++ [k]) (s_resc s)
                       (wupd w (WBusy rest) (s_workers s)) (s_walked s) false)
          else None
      | _ => None
      end
  | LFinish w =>
      match nth_error (s_workers s) w with
      | Some (WBusy []) =>
          Some (mkSt (s_todo s) (s_out s) (s_workc s) (s_enqc s) (s_resc s)
                  (wupd w WDone (s_workers s)) (s_walked s) false)
      | _ => None
      end
  | LResult w =>
      match nth_error (s_workers s) w with
      | Some WDone =>
          if Nat.ltb (s_resc s) cap
          then Some (mkSt (s_todo s) (s_out s) (s_workc s) (s_enqc s) (S (s_resc s))
                       (wupd w WIdle (s_workers s)) (s_walked s) false)
          else None
      | _ => None
      end
  end.

(** run a schedule; [None] as soon as one label is not enabled *)
Fixpoint run (c : coord) (cap : nat) (s : state) (ls : list label) : option state :=
  match ls with
  | [] => Some s
  | l :: r => match step c cap s l with
              | Some s' => run c cap s' r
              | None => None
              end
  end.

(** every label that might be enabled in [s] *)
Definition all_labels (s : state) : list label :=
  [LSend; LRecvEnq; LRecvRes] ++
  flat_map (fun w => [LTake w; LEnqueue w; LFinish w; LResult w])
           (seq 0 (List.length (s_workers s))).

(** * Boolean equality on states (for the seen-set of the search) *)

Fixpoint list_eqb {A : Type} (eqb : A -> A -> bool) (l1 l2 : list A) : bool :=
  match l1, l2 with
  | [], [] => true
  | x :: r1, y :: r2 => if eqb x y then list_eqb eqb r1 r2 else false
  | _, _ => false
  end.

Fixpoint tree_eqb (a b : tree) {struct a} : bool :=
  match a, b with
  | Node n1 s1 k1, Node n2 s2 k2 =>
      if Nat.eqb n1 n2 then
        if Bool.eqb s1 s2 then
          (fix go (l1 l2 : list tree) {struct l1} : bool :=
             match l1, l2 with
             | [], [] => true
             | x :: r1, y :: r2 => if tree_eqb x y then go r1 r2 else false
             | _, _ => false
             end) k1 k2
        else false
      else false
  end.

Definition wstate_eqb (a b : wstate) : bool :=
  match a, b with
  | WIdle, WIdle => true
  | WBusy p, WBusy q => list_eqb tree_eqb p q
  | WDone, WDone => true
  | _, _ => false
  end.

(** nested conditionals rather than [&&]: evaluation stops at the first
    difference also under call-by-value (vm_compute, extracted code) *)
Definition state_eqb (a b : state) : bool :=
  if Nat.eqb (s_resc a) (s_resc b) then
  if Z.eqb (s_out a) (s_out b) then
  if Bool.eqb (s_returned a) (s_returned b) then
  if list_eqb Nat.eqb (s_walked a) (s_walked b) then
  if list_eqb wstate_eqb (s_workers a) (s_workers b) then
  if list_eqb tree_eqb (s_todo a) (s_todo b) then
  if list_eqb tree_eqb (s_workc a) (s_workc b) then
  list_eqb tree_eqb (s_enqc a) (s_enqc b)
  else false else false else false else false else false else false else false.

(** * Multiset equality on name lists *)

(** remove the first occurrence of [x]; [None] when there is none *)
Fixpoint remove_one (x : nat) (l : list nat) : option (list nat) :=
  match l with
  | [] => None
  | y :: r => if Nat.eqb x y then Some r
              else match remove_one x r with
                   | Some r' => Some (y :: r')
                   | None => None
                   end
  end.

(** [l1] and [l2] have the same elements with the same multiplicities *)
Fixpoint same_names (l1 l2 : list nat) : bool :=
  match l1 with
  | [] => is_nil l2
  | x :: r => match remove_one x l2 with
              | Some l2' => same_names r l2'
              | None => false
              end
  end.

(** * Exhaustive breadth-first exploration *)

Inductive verdict : Type :=
| AllComplete (nstates : nat)
| Incomplete (schedule : list label) (walked : list nat)
| ExploreOutOfFuel.

Fixpoint mem_state (s : state) (seen : list state) : bool :=
  match seen with
  | [] => false
  | x :: r => if state_eqb s x then true else mem_state s r
  end.

(** the successors of [s], each with its schedule (most recent label first) *)
Definition succs (c : coord) (cap : nat) (s : state) (sch : list label)
  : list (state * list label) :=
  flat_map (fun l => match step c cap s l with
                     | Some s' => [(s', l :: sch)]
                     | None => []
                     end) (all_labels s).

(** add the candidates not seen before to the seen-set and to the queue *)
Fixpoint add_new (cands : list (state * list label)) (seen : list state)
                 (back : list (state * list label))
  : list state * list (state * list label) :=
  match cands with
  | [] => (seen, back)
  | (s', sch) :: r =>
      if mem_state s' seen then add_new r seen back
      else add_new r (s' :: seen) ((s', sch) :: back)
  end.

(** The queue is [front ++ rev back]; [n] states have been taken off it.  One
    unit of fuel per state taken off the queue or per reversal of [back]. *)
Fixpoint bfs (fuel : nat) (c : coord) (cap : nat) (want : list nat)
             (seen : list state) (front back : list (state * list label)) (n : nat)
  : verdict :=
  match fuel with
  | O => ExploreOutOfFuel
  | S fuel' =>
      match front with
      | [] =>
          match back with
          | [] => AllComplete n
          | _ :: _ => bfs fuel' c cap want seen (rev back) [] n
          end
      | (s, sch) :: front' =>
          if s_returned s then
            if same_names (s_walked s) want
            then bfs fuel' c cap want seen front' back (S n)
            else Incomplete (rev sch) (s_walked s)
          else
            let '(seen', back') := add_new (succs c cap s sch) seen back in
            bfs fuel' c cap want seen' front' back' (S n)
      end
  end.

(** [Incomplete sch w]: the schedule [sch] from [init nw root] reaches a
    returned state whose walked list [w] is not a rearrangement of
    [live root].  [AllComplete n]: all [n] reachable states were explored and
    every returned one is complete. *)
Definition explore (fuel : nat) (c : coord) (nw cap : nat) (root : tree) : verdict :=
  bfs fuel c cap (live root) [init nw root] [(init nw root, [])] [] 0.
