(** Model of the worker pipeline of cmd/seqls (manager.go, workManager.Process)
    as a labelled transition system.

    Goroutines: one loader (sends every job on an UNBUFFERED input channel, then
    closes the inputs), [n] workers (receive a job, compute its result, send the
    result on the UNBUFFERED output channel; return when the inputs are closed),
    one closer (waits for all workers, then closes the output channel) and the
    printer (main goroutine: receives batches until the output is closed).

    An unbuffered send together with its receive is ONE rendezvous step.
    The result of a job is a pure function [run] of the job: [Some lines], or
    [None] when the job fails (the worker prints to stderr and loops).

    This file contains definitions only; the proofs are in
    Proofs/PipelineProofs.v. *)
From GFS Require Import Base.

(** state of one worker goroutine *)
Inductive wstate : Type :=
| WIdle                         (* at the top of its loop, blocked on the input select *)
| WHolding (r : list bytes)     (* has a result, blocked on the send to the output channel *)
| WDone.                        (* has observed the closed inputs and returned *)

Definition is_done (w : wstate) : bool :=
  match w with WDone => true | _ => false end.
Definition all_done (ws : list wstate) : bool := forallb is_done ws.

(** the result a worker is holding, as a list of zero or one batches *)
Definition held (w : wstate) : list (list bytes) :=
  match w with WHolding r => [r] | _ => [] end.

(** replace element [i] of [l] (no effect when [i] is out of range) *)
Fixpoint upd {A : Type} (i : nat) (w : A) (l : list A) : list A :=
  match l, i with
  | [], _ => []
  | _ :: r, O => w :: r
  | x :: r, S i' => x :: upd i' w r
  end.

(** scheduler choices = transition labels *)
Inductive choice : Type :=
| Deliver (i : nat)     (* loader hands the next job to worker i (input rendezvous) *)
| CloseIn               (* loader closes the input channels *)
| Finish (i : nat)      (* worker i sees the closed inputs and returns *)
| Emit (i : nat)        (* worker i hands its result to the printer (output rendezvous) *)
| CloseOut.             (* closer: all workers returned, close the output channel *)

Section Pipeline.
Variable job : Type.
Variable run : job -> option (list bytes).

Record pstate : Type := mkP {
  pending    : list job;            (* not yet sent by the loader, in loader order *)
  in_closed  : bool;                (* loader has closed the input channels *)
  workers    : list wstate;
  printed    : list (list bytes);   (* batches received by the printer, in arrival order *)
  out_closed : bool }.

(** what a worker becomes after receiving job [j] *)
Definition after_job (j : job) : wstate :=
  match run j with Some r => WHolding r | None => WIdle end.

(** successful results of a job list, in loader order *)
Definition results (jobs : list job) : list (list bytes) :=
  flat_map (fun j => match run j with Some r => [r] | None => [] end) jobs.

(** results currently held by the workers *)
Definition holding (s : pstate) : list (list bytes) := flat_map held (workers s).

Definition init (n : nat) (jobs : list job) : pstate :=
  mkP jobs false (repeat WIdle n) [] false.

Definition final (s : pstate) : Prop := out_closed s = true.

(** labelled step relation *)
Inductive lstep : choice -> pstate -> pstate -> Prop :=
| L_Deliver : forall i j rest ws pr oc,
    nth_error ws i = Some WIdle ->
    lstep (Deliver i) (mkP (j :: rest) false ws pr oc)
                      (mkP rest false (upd i (after_job j) ws) pr oc)
| L_CloseIn : forall ws pr oc,
    lstep CloseIn (mkP [] false ws pr oc) (mkP [] true ws pr oc)
| L_Finish : forall i pd ws pr oc,
    nth_error ws i = Some WIdle ->
    lstep (Finish i) (mkP pd true ws pr oc) (mkP pd true (upd i WDone ws) pr oc)
| L_Emit : forall i r pd ic ws pr,
    nth_error ws i = Some (WHolding r) ->
    lstep (Emit i) (mkP pd ic ws pr false) (mkP pd ic (upd i WIdle ws) (pr ++ [r]) false)
| L_CloseOut : forall pd ic ws pr,
    all_done ws = true ->
    lstep CloseOut (mkP pd ic ws pr false) (mkP pd ic ws pr true).

Definition step (s s' : pstate) : Prop := exists c, lstep c s s'.

(** reachability: reflexive transitive closure of [step] *)
Inductive steps : pstate -> pstate -> Prop :=
| steps_refl : forall s, steps s s
| steps_step : forall s1 s2 s3, step s1 s2 -> steps s2 s3 -> steps s1 s3.

(** runs of an exact length (for the bound on run length) *)
Inductive nsteps : nat -> pstate -> pstate -> Prop :=
| nsteps_O : forall s, nsteps 0 s s
| nsteps_S : forall k s1 s2 s3, step s1 s2 -> nsteps k s2 s3 -> nsteps (S k) s1 s3.

(** termination measure *)
Definition w_notdone (w : wstate) : nat := match w with WDone => 0 | _ => 2 end.
Definition w_holding (w : wstate) : nat := match w with WHolding _ => 1 | _ => 0 end.
Definition wsum (f : wstate -> nat) (ws : list wstate) : nat := list_sum (map f ws).
Definition measure (s : pstate) : nat :=
  3 * List.length (pending s) + wsum w_notdone (workers s) + wsum w_holding (workers s)
  + (if in_closed s then 0 else 1) + (if out_closed s then 0 else 1).

(** ** executable version *)

(** one scheduler choice; [None] when the choice is not enabled *)
Definition try_step (c : choice) (s : pstate) : option pstate :=
  match c with
  | Deliver i =>
      match pending s, in_closed s, nth_error (workers s) i with
      | j :: rest, false, Some WIdle =>
          Some (mkP rest false (upd i (after_job j) (workers s)) (printed s) (out_closed s))
      | _, _, _ => None
      end
  | CloseIn =>
      match pending s, in_closed s with
      | [], false => Some (mkP [] true (workers s) (printed s) (out_closed s))
      | _, _ => None
      end
  | Finish i =>
      match in_closed s, nth_error (workers s) i with
      | true, Some WIdle =>
          Some (mkP (pending s) true (upd i WDone (workers s)) (printed s) (out_closed s))
      | _, _ => None
      end
  | Emit i =>
      match out_closed s, nth_error (workers s) i with
      | false, Some (WHolding r) =>
          Some (mkP (pending s) (in_closed s) (upd i WIdle (workers s)) (printed s ++ [r]) false)
      | _, _ => None
      end
  | CloseOut =>
      if negb (out_closed s) && all_done (workers s)
      then Some (mkP (pending s) (in_closed s) (workers s) (printed s) true)
      else None
  end.

(** a schedule is a list of numbers; number [c] selects the kind of step by
    [c mod 5] and the worker by [c / 5] *)
Definition decode (c : nat) : choice :=
  match c mod 5 with
  | 0 => Deliver (c / 5)
  | 1 => CloseIn
  | 2 => Finish (c / 5)
  | 3 => Emit (c / 5)
  | _ => CloseOut
  end.

Definition exec_choice (s : pstate) (c : choice) : pstate :=
  match try_step c s with Some s' => s' | None => s end.

(** run a schedule; a choice that is not enabled is skipped *)
Definition exec_choices (sched : list choice) (s : pstate) : pstate :=
  fold_left exec_choice sched s.
Definition exec (sched : list nat) (s : pstate) : pstate :=
  exec_choices (map decode sched) s.

Definition final_b (s : pstate) : bool := out_closed s.

End Pipeline.

Arguments mkP {job} _ _ _ _ _.
Arguments pending {job} _.
Arguments in_closed {job} _.
Arguments workers {job} _.
Arguments printed {job} _.
Arguments out_closed {job} _.
Arguments after_job {job} run j.
Arguments results {job} run jobs.
Arguments holding {job} s.
Arguments init {job} n jobs.
Arguments final {job} s.
Arguments final_b {job} s.
Arguments lstep {job} run _ _ _.
Arguments step {job} run s s'.
Arguments steps {job} run _ _.
Arguments nsteps {job} run _ _ _.
Arguments measure {job} s.
Arguments try_step {job} run c s.
Arguments exec_choice {job} run s c.
Arguments exec_choices {job} run sched s.
Arguments exec {job} run sched s.
