(** Model of FileSequence (/repo/sequence.go:1-512). *)
From GFS Require Import Base Dec Regex GenRegex GenPadTables Ranges Pad FrameSet Path.
Local Open Scope Z_scope.

Record fileseq : Type := mkQ {
  q_dir : bytes; q_base : bytes; q_ext : bytes; q_pad : bytes;
  q_zfill : Z; q_fs : option frameset; q_style : pstyle }.

Definition E_SEQ : nat := 10.

(** SetPadding *)
Definition set_padding (q : fileseq) (p : bytes) : fileseq :=
  mkQ (q_dir q) (q_base q) (q_ext q) p (padding_chars_size (q_style q) p) (q_fs q) (q_style q).

Definition opt_frameset (s : bytes) : option frameset :=
  match new_frameset s with Ok f => Some f | _ => None end.

(** the branch of NewFileSequencePad taken when splitPattern does not match *)
Definition new_single (sequence : bytes) (style : pstyle) : outcome fileseq :=
  if existsb (fun k => contains sequence k) all_chars then Err E_SEQ else
  let '(dir, basename0) := path_split sequence in
  let '(basename, ext) :=
      match last_index c_dot basename0 with
      | Some i => (firstn i basename0, skipn i basename0)
      | None => (basename0, [])
      end in
  let bare_ext := match dir, basename, ext with [], [], _ :: _ => true | _, _, _ => false end in
  if bare_ext then Ok (set_padding (mkQ dir basename ext [] 0 None style) [])
  else
    (* the frame number is looked for in the file name only *)
    match submatches R_singleFramePattern basename0 3 with
    | Some [name; frame; ext'] =>
      match opt_frameset frame with
      | None => Ok (set_padding (mkQ dir basename ext [] 0 None style) [])
      | Some f =>
        let pad := padding_chars style (Z.of_nat (List.length frame)) in
        Ok (set_padding (mkQ dir name ext' [] 0 (Some f) style) pad)
      end
    | _ => Ok (set_padding (mkQ dir basename ext [] 0 None style) [])
    end.

(** NewFileSequencePad *)
Definition new_fileseq (sequence : bytes) (style : pstyle) : outcome fileseq :=
  match submatches R_splitPattern sequence 4 with
  | Some [name; rng; pad; ext] =>
    let '(dir, base) := path_split name in
    Ok (set_padding (mkQ dir base ext [] 0 (opt_frameset rng) style) pad)
  | _ => new_single sequence style
  end.

Definition q_frange (q : fileseq) : bytes :=
  match q_fs q with Some f => fs_range f | None => [] end.

(** String *)
Definition q_string (q : fileseq) : bytes :=
  q_dir q ++ q_base q ++ q_frange q ++ q_pad q ++ q_ext q.

(** Format with the template {{dir}}{{base}}{{frange}}{{pad}}{{ext}}
    (the only template the model covers) *)
Definition q_format_default (q : fileseq) : bytes :=
  q_dir q ++ q_base q ++ q_frange q ++ q_pad q ++ q_ext q.

(** frameInt / Frame(int) *)
Definition q_frame_int (q : fileseq) (f : Z) : bytes :=
  q_dir q ++ q_base q ++
  (match q_fs q with Some _ => zfill_int f (q_zfill q) | None => [] end) ++ q_ext q.

(** Frame(string): zero-filled only if it parses as an int *)
Definition q_frame_str (q : fileseq) (f : bytes) : bytes :=
  q_dir q ++ q_base q ++
  (match q_fs q with
   | Some _ => match atoi f with Some _ => zfill_string f (q_zfill q) | None => f end
   | None => []
   end) ++ q_ext q.

(** Index *)
Definition q_index (q : fileseq) (i : Z) : bytes :=
  match q_fs q with
  | None => q_string q
  | Some f => match fs_frame f i with
              | Some v => q_frame_int q v
              | None => []
              end
  end.

Definition q_len (q : fileseq) : Z :=
  match q_fs q with Some f => fs_len f | None => 1 end.
Definition q_start (q : fileseq) : Z :=
  match q_fs q with Some f => fs_start f | None => 0 end.
Definition q_end (q : fileseq) : Z :=
  match q_fs q with Some f => fs_end f | None => 0 end.

(** every frame path, in order *)
Definition q_paths (q : fileseq) : list bytes :=
  match q_fs q with
  | None => [q_string q]
  | Some f => map (q_frame_int q) (fs_frames f)
  end.

(** setters *)
Definition set_dirname (q : fileseq) (d : bytes) : fileseq :=
  let sep := path_sep d in
  let d' := if ends_with_byte d sep then d else d ++ [sep] in
  mkQ d' (q_base q) (q_ext q) (q_pad q) (q_zfill q) (q_fs q) (q_style q).
Definition set_basename (q : fileseq) (b : bytes) : fileseq :=
  mkQ (q_dir q) b (q_ext q) (q_pad q) (q_zfill q) (q_fs q) (q_style q).
Definition set_ext (q : fileseq) (e : bytes) : fileseq :=
  let e' := match e with 46%nat :: _ => e | _ => c_dot :: e end in
  mkQ (q_dir q) (q_base q) e' (q_pad q) (q_zfill q) (q_fs q) (q_style q).
Definition set_padding_style (q : fileseq) (style : Z) : fileseq :=
  let st := style_of_int style in
  set_padding (mkQ (q_dir q) (q_base q) (q_ext q) (q_pad q) (q_zfill q) (q_fs q) st)
              (padding_chars st (q_zfill q)).
Definition set_frameset (q : fileseq) (f : option frameset) : fileseq :=
  mkQ (q_dir q) (q_base q) (q_ext q) (q_pad q) (q_zfill q) f (q_style q).
(** SetFrameRange: a range that does not parse leaves the sequence untouched *)
Definition set_frame_range (q : fileseq) (r : bytes) : fileseq * bool :=
  match new_frameset r with
  | Ok f => (set_frameset q (Some f), true)
  | _ => (q, false)
  end.

(** Copy: re-parse of String() under the sequence's own style; nil on error *)
Definition q_copy (q : fileseq) : option fileseq :=
  match new_fileseq (q_string q) (q_style q) with Ok c => Some c | _ => None end.

(** Split *)
Definition q_split (q : fileseq) : list (option fileseq) :=
  match q_fs q with
  | None => [q_copy q]
  | Some f =>
    match split_on c_comma (fs_range f) with
    | [_] | [] => [q_copy q]
    | parts =>
      map (fun fr =>
             match new_fileseq (q_dir q ++ q_base q ++ fr ++ q_pad q ++ q_ext q) (q_style q) with
             | Ok c => Some c
             | _ => None
             end) parts
    end
  end.
