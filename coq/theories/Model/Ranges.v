(** Model of /repo/ranges/ranges.go: InclusiveRange and InclusiveRanges.
    One Gallina definition per Go function.  No proofs in this file.

    Invariant of construction: every [irange] is built by [new_range], so its
    step is never 0 (Go would panic with an integer division by zero in
    [closestInRange] otherwise); the functions below rely on it. *)
From GFS Require Import Base.
Local Open Scope Z_scope.

Record irange : Type := mkR { r_start : Z; r_end : Z; r_step : Z }.

(** NewInclusiveRange: zero-step defaulting *)
Definition new_range (s e st : Z) : irange :=
  if st =? 0 then (if s <=? e then mkR s e 1 else mkR s e (-1))
  else mkR s e st.

(** closestInRange *)
Definition closest (value start end_ step : Z) : Z :=
  let stepped :=
      if (step =? 1) || (step =? -1) then value
      else go_div (value - start) step * step + start in
  if end_ >=? start then
    if value <? start then start
    else if value >? end_ then end_
    else stepped
  else
    if value >? start then start
    else if value <? end_ then end_
    else stepped.

(** End *)
Definition ir_end (r : irange) : Z :=
  let s := r_start r in let e := r_end r in let st := r_step r in
  if (st =? 1) || (st =? -1) || (s =? e) then e
  else if (e <? s) && (st <? e - s) then s
  else if (e >? s) && (st >? e - s) then s
  else closest e s e st.

(** ceil(a / b) for a >= 0, b > 0; Go computes it in float64 (exact below 2^53) *)
Definition cdiv (a b : Z) : Z := (a + b - 1) / b.

(** Len *)
Definition ir_len (r : irange) : Z :=
  cdiv (Z.abs (r_end r - r_start r) + 1) (Z.abs (r_step r)).

Definition ir_min (r : irange) : Z :=
  if r_start r <? ir_end r then r_start r else ir_end r.
Definition ir_max (r : irange) : Z :=
  if r_start r >? ir_end r then r_start r else ir_end r.

Definition ir_contains (r : irange) (v : Z) : bool :=
  closest v (r_start r) (ir_end r) (r_step r) =? v.

(** Value: [None] is the error return *)
Definition ir_value (r : irange) (idx : Z) : option Z :=
  if idx <? 0 then None else
  let s := r_start r in let e := ir_end r in
  let v := s + r_step r * idx in
  if (s <=? e) && ((v <? s) || (v >? e)) then None
  else if (e <? s) && ((v >? s) || (v <? e)) then None
  else Some v.

Definition ir_index (r : irange) (v : Z) : Z :=
  if negb (closest v (r_start r) (ir_end r) (r_step r) =? v) then -1
  else
    let i := go_div (v - r_start r) (r_step r) in
    if i <? 0 then - i else i.

(** the iterator: positions 0 .. Len-1; Next falls back to End on error *)
Definition ir_next (r : irange) (pos : Z) : Z :=
  match ir_value r pos with
  | Some v => v
  | None => ir_end r
  end.
Definition ir_iter (r : irange) : list Z :=
  map (fun i => ir_next r (Z.of_nat i)) (seq 0 (Z.to_nat (ir_len r))).

(** InclusiveRange.String *)
Definition ir_string (itoa : Z -> bytes) (r : irange) : bytes :=
  itoa (r_start r) ++
  (if negb (ir_end r =? r_start r) then
     c_minus :: itoa (ir_end r) ++
     (if (r_step r >? 1) || (r_step r <? -1) then c_x :: itoa (r_step r) else [])
   else []).

(** ---- InclusiveRanges: a list of blocks ---- *)
Definition iranges := list irange.

Definition rs_len (bl : iranges) : Z := fold_left (fun a b => a + ir_len b) bl 0.
Definition rs_start (bl : iranges) : Z :=
  match bl with [] => 0 | b :: _ => r_start b end.
Definition rs_end (bl : iranges) : Z :=
  match bl with [] => 0 | _ => ir_end (last bl (mkR 0 0 1)) end.
Definition rs_min (bl : iranges) : Z :=
  fold_left (fun v b => if ir_min b <? v then ir_min b else v) bl (rs_start bl).
Definition rs_max (bl : iranges) : Z :=
  fold_left (fun v b => if ir_max b >? v then ir_max b else v) bl (rs_end bl).

Definition rs_append (bl : iranges) (s e st : Z) : iranges := bl ++ [new_range s e st].

Definition rs_contains (bl : iranges) (v : Z) : bool := existsb (fun b => ir_contains b v) bl.

(** Value: walk the blocks accumulating the offset [n] *)
Fixpoint rs_value_from (bl : iranges) (idx n : Z) : option Z :=
  match bl with
  | [] => None
  | b :: rest =>
    let size := ir_len b in
    let here := if idx - n <? size then ir_value b (idx - n) else None in
    match here with
    | Some v => Some v
    | None => rs_value_from rest idx (n + size)
    end
  end.
Definition rs_value (bl : iranges) (idx : Z) : option Z :=
  if idx <? 0 then None else rs_value_from bl idx 0.

Fixpoint rs_index_from (bl : iranges) (v n : Z) : Z :=
  match bl with
  | [] => -1
  | b :: rest =>
    let i := ir_index b v in
    if i >=? 0 then i + n else rs_index_from rest v (n + ir_len b)
  end.
Definition rs_index (bl : iranges) (v : Z) : Z := rs_index_from bl v 0.

(** the multi-block iterator: blocks in order, each with its own iterator *)
Definition rs_iter (bl : iranges) : list Z := flat_map ir_iter bl.

Definition rs_string (itoa : Z -> bytes) (bl : iranges) : bytes :=
  join_with c_comma (map (ir_string itoa) bl).

(** AppendUnique.  [n] candidates [start + i*step] remain to be looked at;
    loop state as in the Go code. *)
Fixpoint au_loop (n : nat) (step subEnd subStart last : Z) (pending : bool)
         (bl : iranges) : iranges :=
  match n with
  | O => if pending then rs_append bl subStart last step else bl
  | S n' =>
    if negb (rs_contains bl subEnd) then
      au_loop n' step (subEnd + step) (if pending then subStart else subEnd) subEnd true bl
    else if negb pending then
      au_loop n' step (subEnd + step) subStart last false bl
    else
      au_loop n' step (subEnd + step) (subEnd + step) last false
              (rs_append bl subStart last step)
  end.

(** number of loop trips of AppendUnique: values start, start+step, ... not past end *)
Definition au_count (start end_ step : Z) : nat :=
  Z.to_nat (Z.abs (end_ - start) / Z.abs step + 1).

Definition append_unique (bl : iranges) (start end_ step : Z) : iranges :=
  if step =? 0 then bl else
  let step' := if start <=? end_ then Z.abs step else - Z.abs step in
  match bl with
  | [] => rs_append bl start end_ step'
  | _ => au_loop (au_count start end_ step') step' start start start false bl
  end.

(** normalized(invert): one pass over Min..Max *)
Record nstate : Type := mkN {
  n_start : Z; n_end : Z; n_step : Z; n_pending : Z; n_out : iranges }.

Definition norm_step (invert : bool) (bl : iranges) (st : nstate) (current : Z) : nstate :=
  let c := rs_contains bl current in
  let skipv := if invert then c else negb c in
  if skipv then
    if n_pending st <? 2 then
      mkN (n_start st) (n_end st) (n_step st + 1) (n_pending st) (n_out st)
    else if negb (current + 1 - n_end st =? n_step st) then
      mkN current (n_end st) 1 0 (rs_append (n_out st) (n_start st) (n_end st) (n_step st))
    else st
  else
    let flush := (n_pending st >=? 2) && negb (current - n_end st =? n_step st) in
    let out := if flush then rs_append (n_out st) (n_start st) (n_end st) (n_step st) else n_out st in
    let pending := if flush then 0 else n_pending st in
    if pending =? 0 then mkN current current 1 1 out
    else mkN (n_start st) current (n_step st) (pending + 1) out.

Definition normalized (invert : bool) (bl : iranges) : iranges :=
  let total := new_range (rs_min bl) (rs_max bl) 1 in
  let st := fold_left (norm_step invert bl) (ir_iter total) (mkN 0 0 0 0 []) in
  if n_pending st >? 0 then rs_append (n_out st) (n_start st) (n_end st) (n_step st)
  else n_out st.
