(** The callback that cmd/seqls hands to fastwalk (cmd/seqls/manager.go, loadRecursive,
    the closure [walkFn]) as a statement list with an interpreter.

    [Seqls.walk_entries] and [WalkLts.wnode] say, clause by clause, what handling ONE
    directory entry does: which job it emits, whether the entry is read as a directory,
    what happens to the cache of link targets.  In the Go code that decision is taken by
    the callback [walkFn] (what it answers, what it sends on [w.inDirs], what it puts in
    [cache]) together with the way fastwalk uses the answer.  Here the body of the
    callback is DATA ([list wfstmt], one constructor per Go statement shape): that is the
    part a translator regenerates from the Go source (Gen/GenWalkFn.v).  The interpreter
    [exec] gives the statements their meaning over an explicit callback state; the use
    fastwalk makes of the answer is modelled by hand ([traverses]).

    Only the error-free case is modelled: [os.Stat] either says "a directory" or not,
    [filepath.EvalSymlinks] succeeds.

    No proofs in this file (Proofs/WalkFnProofs.v). *)
From GFS Require Import Base Path Listing Seqls WalkLts.
Local Open Scope nat_scope.

(* ------------------------------------------------------------------ *)
(** * The statements *)

Inductive wfstmt : Type :=
| WDeclIsDir | WDeclRet | WSetIsDir           (* var isDir bool / var ret error / isDir = true *)
| WIfDirElseLink (dirb linkb : list wfstmt)   (* if typ.IsDir() { dirb } else if typ&os.ModeSymlink != 0 { linkb } *)
| WIfStatIsDir (body : list wfstmt)           (* if info, err := os.Stat(path); err == nil && info.IsDir() { body } *)
| WEvalSymlinks                               (* tgt, err := filepath.EvalSymlinks(path); if err != nil { return err } - error-free model: binds tgt *)
| WRetTraverse | WRetSkipFiles                (* ret = fastwalk.TraverseLink / ret = fastwalk.SkipFiles *)
| WCacheProbeRead                             (* mu.RLock(); _, exists := cache[tgt]; mu.RUnlock() *)
| WIfExists (thenb elseb : list wfstmt)       (* if exists { thenb } else { elseb } *)
| WLock | WUnlock                             (* mu.Lock() / mu.Unlock() *)
| WIfRecheck (thenb elseb : list wfstmt)      (* if _, exists = cache[tgt]; exists { thenb } else { elseb } *)
| WCacheInsertTgt | WCacheInsertPath          (* cache[tgt] = struct{}{} / cache[path] = struct{}{} *)
| WIfNotDirReturn                             (* if !isDir { return ret } *)
| WHiddenSkip                                 (* if !Options.AllFiles { name := Base(path); if len(name) > 1 && name != ".." && HasPrefix(name, ".") { return SkipDir } } *)
| WEmit                                       (* w.inDirs <- path *)
| WReturnRet.                                 (* return ret *)

(* ------------------------------------------------------------------ *)
(** * The inputs of one invocation, the callback state *)

(** the [typ os.FileMode] argument, as far as the callback looks at it *)
Inductive wtyp : Type := TDir | TSymlink | TOther.

(** the values the variable [ret] takes *)
Inductive wret : Type := RNil | RTraverse | RSkipFiles.

(** what the callback answers to fastwalk: nil, fastwalk.TraverseLink, fastwalk.SkipFiles,
    filepath.SkipDir *)
Inductive wanswer : Type := ANil | ATraverse | ASkipFiles | ASkipDir.

Definition answer_of_ret (r : wret) : wanswer :=
  match r with RNil => ANil | RTraverse => ATraverse | RSkipFiles => ASkipFiles end.

(** [wi_stat_dir]: what [os.Stat(path)] says for a symlink ("exists and is a directory").
    [wi_tgt]: what [filepath.EvalSymlinks(path)] returns.  [wi_path]: the spelled path the
    callback is called with.  [wi_all]: Options.AllFiles.
    [wi_interf]: INTERFERENCE.  Between [mu.RUnlock()] of the read probe and [mu.Lock()]
    other goroutines running the same callback may insert into the cache (they never
    delete): when the write lock is acquired the cache is [wi_interf ++ cache].  The
    atomic reading of the callback is [wi_interf = []]. *)
Record wfin : Type := mkWFin {
  wi_typ : wtyp;
  wi_stat_dir : bool;
  wi_tgt : bytes;
  wi_path : bytes;
  wi_all : bool;
  wi_interf : list bytes
}.

(** [wf_cache]: the Go map [cache] as a list used as a set (both the targets and the
    spelled paths of followed links are inserted, latest first).
    [wf_tgt]: the variable [tgt]; it is declared by [WEvalSymlinks], before that it reads
    as the empty string (a model artefact: the Go code cannot mention it earlier).
    [wf_returned]: [None] while the callback is running, [Some a] once it has returned
    [a]. *)
Record wfst : Type := mkWFst {
  wf_isdir : bool;
  wf_ret : wret;
  wf_exists : bool;
  wf_tgt : bytes;
  wf_cache : list bytes;
  wf_emitted : bool;
  wf_returned : option wanswer
}.

Definition wf_init (cache : list bytes) : wfst := mkWFst false RNil false [] cache false None.

Definition set_isdir (st : wfst) (b : bool) : wfst :=
  mkWFst b (wf_ret st) (wf_exists st) (wf_tgt st) (wf_cache st) (wf_emitted st) (wf_returned st).
Definition set_ret (st : wfst) (r : wret) : wfst :=
  mkWFst (wf_isdir st) r (wf_exists st) (wf_tgt st) (wf_cache st) (wf_emitted st) (wf_returned st).
Definition set_exists (st : wfst) (b : bool) : wfst :=
  mkWFst (wf_isdir st) (wf_ret st) b (wf_tgt st) (wf_cache st) (wf_emitted st) (wf_returned st).
Definition set_tgt (st : wfst) (x : bytes) : wfst :=
  mkWFst (wf_isdir st) (wf_ret st) (wf_exists st) x (wf_cache st) (wf_emitted st) (wf_returned st).
Definition set_cache (st : wfst) (c : list bytes) : wfst :=
  mkWFst (wf_isdir st) (wf_ret st) (wf_exists st) (wf_tgt st) c (wf_emitted st) (wf_returned st).
Definition set_emitted (st : wfst) : wfst :=
  mkWFst (wf_isdir st) (wf_ret st) (wf_exists st) (wf_tgt st) (wf_cache st) true (wf_returned st).
Definition do_return (st : wfst) (a : wanswer) : wfst :=
  mkWFst (wf_isdir st) (wf_ret st) (wf_exists st) (wf_tgt st) (wf_cache st) (wf_emitted st) (Some a).

(** [cache[x]] *)
Definition cache_has (x : bytes) (cache : list bytes) : bool := existsb (beq x) cache.

(* ------------------------------------------------------------------ *)
(** * The interpreter *)

(** One statement.  A statement that comes after a return is not executed (the state is
    handed on unchanged).  The hidden test of [WHiddenSkip] is [Seqls.hidden_dir path]:
    that IS the model of the three-part Go condition
    [len(name) > 1 && name != ".." && strings.HasPrefix(name, ".")] with
    [name := filepath.Base(path)].  [WLock] is where the interference lands; [WUnlock] and
    the lock/unlock pair inside [WCacheProbeRead] have no other effect in the model. *)
Fixpoint exec (i : wfin) (s : wfstmt) (st : wfst) {struct s} : wfst :=
  let run := (fix run (l : list wfstmt) (st : wfst) {struct l} : wfst :=
                match l with
                | [] => st
                | s :: r => run r (exec i s st)
                end) in
  match wf_returned st with
  | Some _ => st
  | None =>
    match s with
    | WDeclIsDir => set_isdir st false
    | WDeclRet => set_ret st RNil
    | WSetIsDir => set_isdir st true
    | WIfDirElseLink dirb linkb =>
      match wi_typ i with
      | TDir => run dirb st
      | TSymlink => run linkb st
      | TOther => st
      end
    | WIfStatIsDir body => if wi_stat_dir i then run body st else st
    | WEvalSymlinks => set_tgt st (wi_tgt i)
    | WRetTraverse => set_ret st RTraverse
    | WRetSkipFiles => set_ret st RSkipFiles
    | WCacheProbeRead => set_exists st (cache_has (wf_tgt st) (wf_cache st))
    | WIfExists thenb elseb => if wf_exists st then run thenb st else run elseb st
    | WLock => set_cache st (wi_interf i ++ wf_cache st)
    | WUnlock => st
    | WIfRecheck thenb elseb =>
      let st1 := set_exists st (cache_has (wf_tgt st) (wf_cache st)) in
      if wf_exists st1 then run thenb st1 else run elseb st1
    | WCacheInsertTgt => set_cache st (wf_tgt st :: wf_cache st)
    | WCacheInsertPath => set_cache st (wi_path i :: wf_cache st)
    | WIfNotDirReturn => if negb (wf_isdir st) then do_return st (answer_of_ret (wf_ret st)) else st
    | WHiddenSkip => if negb (wi_all i) && hidden_dir (wi_path i) then do_return st ASkipDir else st
    | WEmit => set_emitted st
    | WReturnRet => do_return st (answer_of_ret (wf_ret st))
    end
  end.

(** a statement list, in order *)
Fixpoint exec_list (i : wfin) (l : list wfstmt) (st : wfst) {struct l} : wfst :=
  match l with
  | [] => st
  | s :: r => exec_list i r (exec i s st)
  end.

(** One invocation: the answer, whether [path] was sent on [w.inDirs], the cache
    afterwards.  (A body that falls off its end answers nil; the Go compiler rejects such
    a body.) *)
Definition callback_result (stmts : list wfstmt) (typ : wtyp) (stat_is_dir : bool)
           (tgt path : bytes) (all : bool) (interf cache : list bytes)
  : wanswer * bool * list bytes :=
  let st := exec_list (mkWFin typ stat_is_dir tgt path all interf) stmts (wf_init cache) in
  (match wf_returned st with Some a => a | None => ANil end, wf_emitted st, wf_cache st).

(* ------------------------------------------------------------------ *)
(** * What fastwalk does with the answer (modelled by hand) *)

(** For a directory entry the callback is called with typ = directory when the directory
    is about to be read: SkipDir => it is not read, any other answer => it is read.  For a
    symlink entry: TraverseLink => the link is read as a directory (the entries of its
    target, spelled under the path of the link); SkipDir, SkipFiles, nil => it is not
    read.  Other entries: the callback is called, nothing is read. *)
Definition traverses (typ : wtyp) (a : wanswer) : bool :=
  match typ, a with
  | TDir, ASkipDir => false
  | TDir, _ => true
  | TSymlink, ATraverse => true
  | TSymlink, _ => false
  | TOther, _ => false
  end.

(* ------------------------------------------------------------------ *)
(** * The tree model's entry kinds as callback inputs *)

(** (typ, what os.Stat says); Stat is only consulted for a symlink *)
Definition kind_inputs (k : ekind) : wtyp * bool :=
  match k with
  | KDir => (TDir, true)
  | KLinkDir => (TSymlink, true)
  | KLinkFile => (TSymlink, false)
  | KLinkDangling => (TSymlink, false)
  | KFile => (TOther, false)
  end.

(** the real directory behind an entry that is listed: the entry itself for a directory,
    the target for a link *)
Definition real_of (n : tnode) : bytes :=
  match tn_kind n with
  | KDir => real_join (tn_parent n) (tn_name n)
  | _ => tn_target n
  end.

(* ------------------------------------------------------------------ *)
(** * The Go code as written *)

Definition reference_callback : list wfstmt :=
  [WDeclIsDir; WDeclRet;
   WIfDirElseLink
     [WSetIsDir]
     [WIfStatIsDir
        [WEvalSymlinks; WSetIsDir; WRetTraverse; WCacheProbeRead;
         WIfExists
           [WRetSkipFiles]
           [WLock;
            WIfRecheck [WRetSkipFiles] [WCacheInsertTgt; WCacheInsertPath];
            WUnlock]]];
   WIfNotDirReturn; WHiddenSkip; WEmit; WReturnRet].
