(** Model of the path/filepath functions the library uses (Unix flavour):
    filepath.Split and filepath.Clean, at the level of their documentation. *)
From GFS Require Import Base.

(** filepath.Split: everything up to and including the last '/' is the
    directory *)
Definition path_split (p : bytes) : bytes * bytes :=
  match last_index c_slash p with
  | Some i => (firstn (S i) p, skipn (S i) p)
  | None => ([], p)
  end.

Definition is_dot (e : bytes) : bool := beq e [c_dot].
Definition is_dotdot (e : bytes) : bool := beq e [c_dot; c_dot].

(** process the elements left to right on a stack kept in reverse *)
Fixpoint clean_elems (rooted : bool) (elems : list bytes) (stack : list bytes) : list bytes :=
  match elems with
  | [] => rev stack
  | e :: r =>
    match e with
    | [] => clean_elems rooted r stack
    | _ =>
      if is_dot e then clean_elems rooted r stack
      else if is_dotdot e then
        match stack with
        | top :: below =>
          if is_dotdot top then clean_elems rooted r (e :: stack)
          else clean_elems rooted r below
        | [] => if rooted then clean_elems rooted r stack
                else clean_elems rooted r (e :: stack)
        end
      else clean_elems rooted r (e :: stack)
    end
  end.

(** filepath.Clean *)
Definition path_clean (p : bytes) : bytes :=
  match p with
  | [] => [c_dot]
  | c :: _ =>
    let rooted := Nat.eqb c c_slash in
    let body := join_with c_slash (clean_elems rooted (split_on c_slash p) []) in
    if rooted then c_slash :: body
    else match body with [] => [c_dot] | _ => body end
  end.

(** the separator logic shared by SetDirname, findSequencesOnDisk and
    FindSequencesInList: '\\' becomes the separator when the path holds one *)
Definition path_sep (p : bytes) : byte := if existsb (Nat.eqb 92) p then 92 else c_slash.
Definition ends_with_byte (p : bytes) (c : byte) : bool :=
  match rev p with x :: _ => Nat.eqb x c | [] => false end.
