(** Model of FindSequencesInList / findSequencesInList / findSequencesOnDisk /
    FindSequenceOnDiskPad (/repo/sequence.go:527-1048).

    Go's map iteration order and the unstable sort.Slice are modelled by one
    deterministic instance (first-occurrence order; stable insertion sort);
    results are compared as multisets. *)
From GFS Require Import Base Dec Regex GenRegex GenPadTables Ranges Pad FrameSet Compress Path Seq.
Local Open Scope Z_scope.

Record fitem : Type := mkItem { fi_dir : bytes; fi_name : bytes }.

Record finfo : Type := mkFI { f_text : bytes; f_num : Z; f_minw : Z }.
Record sinfo : Type := mkSI { s_frames : list finfo; s_padding : bytes; s_minw : Z }.
Definition skey : Type := (bytes * bytes * bytes)%type.

Definition key_eq (a b : skey) : bool :=
  let '(a1, a2, a3) := a in let '(b1, b2, b3) := b in beq a1 b1 && beq a2 b2 && beq a3 b3.

Fixpoint bucket_get (m : list (skey * sinfo)) (k : skey) : option sinfo :=
  match m with
  | [] => None
  | (k', v) :: r => if key_eq k' k then Some v else bucket_get r k
  end.
Fixpoint bucket_set (m : list (skey * sinfo)) (k : skey) (v : sinfo) : list (skey * sinfo) :=
  match m with
  | [] => [(k, v)]
  | (k', v') :: r => if key_eq k' k then (k, v) :: r else (k', v') :: bucket_set r k v
  end.

Definition blen (s : bytes) : Z := Z.of_nat (List.length s).

Definition atoi_or_0 (s : bytes) : Z := match atoi s with Some z => z | None => 0 end.

(** frameMinSize *)
Definition frame_min_size (frame : bytes) : Z :=
  if blen frame =? blen (itoa (atoi_or_0 frame)) then 1 else blen frame.

Record lopts : Type := mkLO { o_single : bool; o_hidden : bool; o_style : pstyle }.

Fixpoint parse_opts (opts : list Z) (o : lopts) : lopts :=
  match opts with
  | [] => o
  | x :: r =>
    parse_opts r
      (if x =? K_SingleFiles then mkLO true (o_hidden o) (o_style o)
       else if x =? K_HiddenFiles then mkLO (o_single o) true (o_style o)
       else if x =? K_FileOptPadStyleHash1 then mkLO (o_single o) (o_hidden o) Hash1
       else if x =? K_FileOptPadStyleHash4 then mkLO (o_single o) (o_hidden o) Hash4
       else o)
  end.

(** the "always use the previously parsed basename, range and ext" tail shared by
    the single-file path and appendSeq *)
Definition force_parts (q : fileseq) (base ext frange : bytes) : fileseq :=
  let q1 := mkQ (q_dir q) base ext (q_pad q) (q_zfill q) (q_fs q) (q_style q) in
  match frange with
  | [] => set_padding (set_frameset q1 None) []
  | _ => fst (set_frame_range q1 frange)
  end.

(** what the loop over the input does with one item *)
Inductive item_class : Type :=
| ISkip                               (* hidden, or not matched by the template glob *)
| ISingle (base frame ext : bytes)    (* not a numbered sequence member *)
| IFrame (key : skey) (frame : bytes).

Definition Panic_template_slice : nat := 1.

Definition classify (o : lopts) (tmpl : option fileseq) (it : fitem) : item_class :=
  let name := fi_name it in
  if negb (o_hidden o) && has_prefix name [c_dot] then ISkip else
  match tmpl with
  | Some t =>
    let base := q_base t in let ext := q_ext t in
    if negb (has_prefix name base && has_suffix name ext) then ISkip
    else if blen name <? blen base + blen ext then ISkip
    else
      let frame := slice name (List.length base) (List.length name - List.length ext) in
      if negb (match rmatch R_rangePatterns_1 frame with Some _ => true | None => false end) then ISkip
      else match atoi frame with
           | None => ISkip
           | Some _ => IFrame (q_dir t, base, ext) frame
           end
  | None =>
    match submatches R_optionalFramePattern name 3 with
    | Some [base; frame; ext] =>
      match frame with
      | [] => ISingle base frame ext
      | _ => match base, ext with
             | [], [] => ISingle base frame ext
             | _, _ => IFrame (fi_dir it, base, ext) frame
             end
      end
    | _ => ISingle [] [] []
    end
  end.

(** first phase: bucket the items *)
Fixpoint collect (o : lopts) (tmpl : option fileseq) (items : list fitem)
         (seqs : list (skey * sinfo)) (files : list fileseq)
  : outcome (list (skey * sinfo) * list fileseq) :=
  match items with
  | [] => Ok (seqs, files)
  | it :: rest =>
    match classify o tmpl it with
    | ISkip => collect o tmpl rest seqs files
    | ISingle base frame ext =>
      if o_single o then
        do q <- new_fileseq (fi_dir it ++ fi_name it) (o_style o);
        collect o tmpl rest seqs (files ++ [force_parts q base ext frame])
      else collect o tmpl rest seqs files
    | IFrame key frame =>
      let w := blen frame in
      let fi := mkFI frame (atoi_or_0 frame) (frame_min_size frame) in
      let si :=
          match bucket_get seqs key with
          | None => mkSI [fi] (padding_chars (o_style o) w) w
          | Some s =>
            if w <? s_minw s then mkSI (s_frames s ++ [fi]) (padding_chars (o_style o) w) w
            else mkSI (s_frames s ++ [fi]) (s_padding s) (s_minw s)
          end in
      collect o tmpl rest (bucket_set seqs key si) files
    end
  end.

(** appendSeq *)
Definition append_seq (o : lopts) (dir base frange pad ext : bytes) : outcome fileseq :=
  do q <- new_fileseq (dir ++ base ++ frange ++ pad ++ ext) (o_style o);
  Ok (force_parts q base ext frange).

(** stable insertion sort by text length *)
Fixpoint fi_insert (x : finfo) (l : list finfo) : list finfo :=
  match l with
  | [] => [x]
  | y :: r => if blen (f_text x) <=? blen (f_text y) then x :: l else y :: fi_insert x r
  end.
Definition fi_sort (l : list finfo) : list finfo := fold_right fi_insert [] l.
(* fold_right inserts the last element first, so an earlier element is put
   in front of the equally long ones already there: input order is kept *)

(** the width-grouping walk over the sorted frames *)
Fixpoint group_walk (o : lopts) (dir base ext : bytes) (fis : list finfo)
         (cur_w : Z) (pad : bytes) (frames : list Z) (out : list fileseq)
  : outcome (list fileseq) :=
  match fis with
  | [] =>
    match frames with
    | [] => Ok out
    | _ =>
      do fr <- frames_to_frame_range frames true 0;
      do q <- append_seq o dir base fr pad ext;
      Ok (out ++ [q])
    end
  | fi :: rest =>
    if negb (blen (f_text fi) =? cur_w) && (f_minw fi >? cur_w) then
      do fr <- frames_to_frame_range frames true 0;
      do q <- append_seq o dir base fr pad ext;
      let w := blen (f_text fi) in
      group_walk o dir base ext rest w (padding_chars (o_style o) w) [f_num fi] (out ++ [q])
    else
      group_walk o dir base ext rest cur_w pad (frames ++ [f_num fi]) out
  end.

Definition last_byte_is_digit_before (base : bytes) : bool :=
  (* dig = baseName[len-pos], pos = 2 when the name ends in '-' and has >= 2 bytes *)
  match rev base with
  | [] => false
  | c :: r =>
    match r with
    | d :: _ => if Nat.eqb c c_minus then is_digit d else is_digit c
    | [] => is_digit c
    end
  end.

Definition emit_bucket (o : lopts) (k : skey) (s : sinfo) : outcome (list fileseq) :=
  let '(dir, base, ext) := k in
  match s_frames s with
  | [] => Ok []
  | [fi] =>
    let pad := match base with
               | [] => s_padding s
               | _ => if last_byte_is_digit_before base then [] else s_padding s
               end in
    let frange := match pad with [] => f_text fi | _ => itoa (f_num fi) end in
    do q <- append_seq o dir base frange pad ext;
    Ok [q]
  | _ =>
    let sorted := fi_sort (s_frames s) in
    match sorted with
    | [] => Ok []
    | f0 :: _ =>
      let w := blen (f_text f0) in
      group_walk o dir base ext sorted w (padding_chars (o_style o) w) [] []
    end
  end.

Fixpoint emit_all (o : lopts) (m : list (skey * sinfo)) : outcome (list fileseq) :=
  match m with
  | [] => Ok []
  | (k, s) :: r =>
    do a <- emit_bucket o k s;
    do b <- emit_all o r;
    Ok (a ++ b)
  end.

(** findSequencesInList *)
Definition find_items (items : list fitem) (opts : list Z) (tmpl : option fileseq)
  : outcome (list fileseq) :=
  let o := parse_opts opts (mkLO false false default_style) in
  do cf <- collect o tmpl items [] [];
  let '(seqs, files) := cf in
  do fseqs <- emit_all o seqs;
  Ok (if o_single o then fseqs ++ files else fseqs).

(** FindSequencesInList *)
Definition item_of_path (p : bytes) : fitem :=
  let p := path_clean p in
  let sep := path_sep p in
  let '(d, f) := path_split p in
  let d := match d with
           | [] => d
           | _ => if ends_with_byte d sep then d else d ++ [sep]
           end in
  mkItem d f.

Definition find_in_list (paths : list bytes) (opts : list Z) : outcome (list fileseq) :=
  find_items (map item_of_path paths) opts None.

(** ---- the directory side: the operating system is an oracle value ---- *)
Inductive ekind : Type := KFile | KDir | KLinkFile | KLinkDir | KLinkDangling.
Definition E_IO : nat := 20.

Definition dir_prefix (path : bytes) : bytes :=
  let p := path_clean path in
  let sep := path_sep p in
  if ends_with_byte p sep then p else p ++ [sep].

Fixpoint disk_items (prefix : bytes) (ents : list (bytes * ekind)) : outcome (list fitem) :=
  match ents with
  | [] => Ok []
  | (name, k) :: r =>
    match k with
    | KDir | KLinkDir => disk_items prefix r
    | KLinkDangling => Err E_IO
    | KFile | KLinkFile => do rest <- disk_items prefix r; Ok (mkItem prefix name :: rest)
    end
  end.

(** findSequencesOnDisk: [readdir = None] is an Open/Readdir error *)
Definition find_on_disk (path : bytes) (readdir : option (list (bytes * ekind)))
           (opts : list Z) (tmpl : option fileseq) : outcome (list fileseq) :=
  match readdir with
  | None => Err E_IO
  | Some ents =>
    do items <- disk_items (dir_prefix path) ents;
    find_items items opts tmpl
  end.

(** FindSequenceOnDiskPad; [readdir] is asked for the pattern's directory *)
Definition find_seq_on_disk (pattern : bytes) (style : Z) (opts : list Z)
           (readdir : bytes -> option (list (bytes * ekind))) : outcome (option fileseq) :=
  let style1 := fold_left (fun st o =>
                             if o =? K_FileOptPadStyleHash1 then K_PadStyleHash1
                             else if o =? K_FileOptPadStyleHash4 then K_PadStyleHash4
                             else st) opts style in
  let extra := filter (fun o => (o =? K_FileOptPadStyleHash1) || (o =? K_FileOptPadStyleHash4)) opts in
  let strict := existsb (fun o => o =? K_StrictPadding) opts in
  match new_fileseq pattern (style_of_int style1) with
  | Err _ => Ok None
  | Panic n => Panic n
  | OutOfFuel => OutOfFuel
  | Ok t =>
    let dir := match q_dir t with [] => [c_dot] | d => d end in
    match find_on_disk dir (readdir dir) (opts ++ extra) (Some t) with
    | Err e => Err e
    | Panic n => Panic n
    | OutOfFuel => OutOfFuel
    | Ok seqs =>
      let ok q :=
          beq (q_base q) (q_base t) && beq (q_ext q) (q_ext t) &&
          negb (strict && negb (beq (q_pad t) []) &&
                negb (q_zfill (set_padding_style q style1) =? q_zfill t)) in
      match filter ok seqs with
      | q :: _ => Ok (Some (set_padding_style q style1))
      | [] => Ok None
      end
    end
  end.
