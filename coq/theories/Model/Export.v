(** Model of the reference-counted handle tables of the cgo export layer
    (/repo/exp/cpp/export/storage.go, uuid.go).  The bodies of Add / Incref /
    Decref / Get / Len are instruction lists; the lists actually run by the
    checks are the ones gfsgen translates from the source (Gen/GenStorage.v),
    and Proofs/ExportProofs.v shows they are the programs defined here.

    Concurrency: a thread executes one ATOMIC BLOCK per scheduler step: a whole
    lock ... unlock region, or a single atomic instruction; thread-local
    instructions that follow are executed with it.  No proofs in this file. *)
From GFS Require Import Base.
Local Open Scope Z_scope.

Inductive instr : Type :=
| IRLock | IRUnlock | ILock | IUnlock
| ILookup                   (* ref, ok := m.m[id] *)
| IRetIfMissing             (* if !ok { return } *)
| IAtomicAdd (d : Z)        (* atomic.AddUint32(&ref.refs, d) *)
| IAtomicAddGet (d : Z)     (* refs := atomic.AddUint32(&ref.refs, d) *)
| IRetIfNonZero             (* if refs != 0 { return } *)
| IDeleteIfZero             (* if atomic.LoadUint32(&ref.refs) == 0 { delete(m.m, id) } *)
| INewId                    (* id := Id(m.rand.Uint64()) *)
| IInsert (n : Z)           (* m.m[id] = &ref{obj, n} *)
| ILen                      (* l := len(m.m) *)
| IRet.

Definition add_prog : list instr := [ILock; INewId; IInsert 1; IUnlock; IRet].
Definition incref_prog : list instr := [IRLock; ILookup; IRUnlock; IRetIfMissing; IAtomicAdd 1].
Definition decref_prog : list instr :=
  [IRLock; ILookup; IRUnlock; IRetIfMissing; IAtomicAddGet (-1); IRetIfNonZero; ILock; IDeleteIfZero; IUnlock].
Definition get_prog : list instr := [IRLock; ILookup; IRUnlock; IRet].
Definition len_prog : list instr := [IRLock; ILen; IRUnlock; IRet].

(** xorshift64 (uuid.go), on Z with explicit wrap-around at 2^64 *)
Definition two64 : Z := 2 ^ 64.
Definition xor64 (x : Z) : Z :=
  let x1 := Z.lxor x ((x * 2 ^ 13) mod two64) in
  let x2 := Z.lxor x1 (x1 / 2 ^ 7) in
  Z.lxor x2 ((x2 * 2 ^ 17) mod two64).

Definition two32 : Z := 2 ^ 32.

(** shared state: the map id -> cell, the cells' counters (a removed entry's
    cell stays addressable by a thread that looked it up earlier), generator *)
Record gstate : Type := mkG { g_map : list (Z * nat); g_cells : list Z; g_rand : Z }.

Record thr : Type := mkT {
  t_prog : list instr;        (* what is left of the current operation *)
  t_h : Z;                    (* the handle argument / the new id *)
  t_cell : option nat;        (* result of the lookup *)
  t_val : Z }.                (* refs / len register *)

Fixpoint map_find (m : list (Z * nat)) (h : Z) : option nat :=
  match m with
  | [] => None
  | (k, c) :: r => if k =? h then Some c else map_find r h
  end.
Definition map_del (m : list (Z * nat)) (h : Z) : list (Z * nat) :=
  filter (fun kc => negb (fst kc =? h)) m.

Fixpoint upd_nth (l : list Z) (n : nat) (v : Z) : list Z :=
  match l, n with
  | [], _ => []
  | _ :: r, O => v :: r
  | x :: r, S n' => x :: upd_nth r n' v
  end.

Definition is_local (i : instr) : bool :=
  match i with IRetIfMissing | IRetIfNonZero | IRet => true | _ => false end.

(** one instruction; a finished operation has the empty program *)
Definition exec1 (g : gstate) (t : thr) (i : instr) (rest : list instr) : gstate * thr :=
  match i with
  | IRLock | IRUnlock | ILock | IUnlock => (g, mkT rest (t_h t) (t_cell t) (t_val t))
  | ILookup => (g, mkT rest (t_h t) (map_find (g_map g) (t_h t)) (t_val t))
  | IRetIfMissing =>
    match t_cell t with
    | None => (g, mkT [] (t_h t) (t_cell t) (t_val t))
    | Some _ => (g, mkT rest (t_h t) (t_cell t) (t_val t))
    end
  | IAtomicAdd d =>
    match t_cell t with
    | Some c => (mkG (g_map g) (upd_nth (g_cells g) c ((nth c (g_cells g) 0 + d) mod two32)) (g_rand g),
                 mkT rest (t_h t) (t_cell t) (t_val t))
    | None => (g, mkT rest (t_h t) (t_cell t) (t_val t))     (* nil dereference in Go; unreachable after IRetIfMissing *)
    end
  | IAtomicAddGet d =>
    match t_cell t with
    | Some c =>
      let v := (nth c (g_cells g) 0 + d) mod two32 in
      (mkG (g_map g) (upd_nth (g_cells g) c v) (g_rand g), mkT rest (t_h t) (t_cell t) v)
    | None => (g, mkT rest (t_h t) (t_cell t) (t_val t))
    end
  | IRetIfNonZero =>
    if t_val t =? 0 then (g, mkT rest (t_h t) (t_cell t) (t_val t))
    else (g, mkT [] (t_h t) (t_cell t) (t_val t))
  | IDeleteIfZero =>
    match t_cell t with
    | Some c =>
      if nth c (g_cells g) 0 =? 0
      then (mkG (map_del (g_map g) (t_h t)) (g_cells g) (g_rand g), mkT rest (t_h t) (t_cell t) (t_val t))
      else (g, mkT rest (t_h t) (t_cell t) (t_val t))
    | None => (g, mkT rest (t_h t) (t_cell t) (t_val t))
    end
  | INewId =>
    let r := xor64 (g_rand g) in
    (mkG (g_map g) (g_cells g) r, mkT rest r (t_cell t) (t_val t))
  | IInsert n =>
    let c := List.length (g_cells g) in
    (mkG (g_map g ++ [(t_h t, c)]) (g_cells g ++ [n]) (g_rand g), mkT rest (t_h t) (Some c) (t_val t))
  | ILen => (g, mkT rest (t_h t) (t_cell t) (Z.of_nat (List.length (g_map g))))
  | IRet => (g, mkT [] (t_h t) (t_cell t) (t_val t))
  end.

(** run the thread-local instructions at the head of the program *)
Fixpoint run_locals (fuel : nat) (g : gstate) (t : thr) : gstate * thr :=
  match fuel with
  | O => (g, t)
  | S f =>
    match t_prog t with
    | i :: rest => if is_local i then let '(g', t') := exec1 g t i rest in run_locals f g' t' else (g, t)
    | [] => (g, t)
    end
  end.

(** run up to and including the matching unlock *)
Fixpoint run_locked (fuel : nat) (g : gstate) (t : thr) : gstate * thr :=
  match fuel with
  | O => (g, t)
  | S f =>
    match t_prog t with
    | i :: rest =>
      let '(g', t') := exec1 g t i rest in
      match i with
      | IRUnlock | IUnlock => (g', t')
      | _ => run_locked f g' t'
      end
    | [] => (g, t)
    end
  end.

(** one scheduler step of a thread: one atomic block plus trailing locals *)
Definition tstep (g : gstate) (t : thr) : gstate * thr :=
  match t_prog t with
  | [] => (g, t)
  | i :: rest =>
    let fuel := S (List.length (t_prog t)) in
    let '(g1, t1) :=
        match i with
        | IRLock | ILock => run_locked fuel g t
        | _ => exec1 g t i rest
        end in
    run_locals fuel g1 t1
  end.

(** ---- histories: each thread has a list of operations to issue ---- *)
Inductive opk : Type := OAdd | OIncref (slot : nat) | ODecref (slot : nat) | OGet (slot : nat) | OLen | OStale (h : Z) (k : nat).
(* slots name handles by creation order; OStale issues incref (k=0) / decref (k=1) / get (k=2) on a raw id *)

Record progs : Type := mkP { p_add : list instr; p_incref : list instr; p_decref : list instr;
                             p_get : list instr; p_len : list instr }.
Definition expected_progs : progs := mkP add_prog incref_prog decref_prog get_prog len_prog.

Record world : Type := mkW {
  w_g : gstate;
  w_thr : list (thr * list opk);     (* running op state, remaining ops *)
  w_slots : list Z;                  (* ids in creation order *)
  w_log : list (nat * Z * Z) }.      (* (thread, kind, value): observations of Get (1 found / 0 not) and Len *)

Definition slot_id (w : world) (s : nat) : Z := nth s (w_slots w) 0.

Definition start_op (P : progs) (w : world) (o : opk) : thr :=
  match o with
  | OAdd => mkT (p_add P) 0 None 0
  | OIncref s => mkT (p_incref P) (slot_id w s) None 0
  | ODecref s => mkT (p_decref P) (slot_id w s) None 0
  | OGet s => mkT (p_get P) (slot_id w s) None 0
  | OLen => mkT (p_len P) 0 None 0
  | OStale h 0 => mkT (p_incref P) h None 0
  | OStale h 1 => mkT (p_decref P) h None 0
  | OStale h _ => mkT (p_get P) h None 0
  end.

Fixpoint set_nth {A} (l : list A) (n : nat) (v : A) : list A :=
  match l, n with
  | [], _ => []
  | _ :: r, O => v :: r
  | x :: r, S n' => x :: set_nth r n' v
  end.

(** scheduler step for thread [i]: if it has no operation in flight, start its
    next one and run its first block; otherwise run the next block.  When an
    operation completes, record what it observed. *)
Definition wstep (P : progs) (w : world) (i : nat) : world :=
  match nth_error (w_thr w) i with
  | None => w
  | Some (t, ops) =>
    let '(t0, ops0, cur) :=
        match t_prog t, ops with
        | [], o :: r => (start_op P w o, r, Some o)
        | _, _ => (t, ops, None)
        end in
    match t_prog t0 with
    | [] => w
    | _ =>
      let '(g', t') := tstep (w_g w) t0 in
      let finished := match t_prog t' with [] => true | _ => false end in
      let is_add := match t_prog t0 with ILock :: INewId :: _ => true | _ => false end in
      let slots' := if finished && existsb (fun i => match i with INewId => true | _ => false end) (t_prog t0)
                    then w_slots w ++ [t_h t'] else w_slots w in
      let log' :=
          if finished then
            match t_prog t0 with
            | IRLock :: ILen :: _ => w_log w ++ [(i, 2, t_val t')]
            | IRLock :: ILookup :: IRUnlock :: IRet :: _ =>
              w_log w ++ [(i, 1, match t_cell t' with Some _ => 1 | None => 0 end)]
            | _ => w_log w
            end
          else w_log w in
      mkW g' (set_nth (w_thr w) i (t', ops0)) slots' log'
    end
  end.

Definition init_world (seed : Z) (threads : list (list opk)) : world :=
  mkW (mkG [] [] seed) (map (fun ops => (mkT [] 0 None 0, ops)) threads) [] [].

Definition run_schedule (P : progs) (seed : Z) (threads : list (list opk)) (sched : list nat) : world :=
  fold_left (wstep P) sched (init_world seed threads).

(** all threads are done *)
Definition quiescent (w : world) : bool :=
  forallb (fun to => match t_prog (fst to), snd to with [], [] => true | _, _ => false end) (w_thr w).
