(** The loop CONTROL of [InclusiveRanges.AppendUnique] on machine integers.

    [Model/Ranges.v] runs the body of that loop [au_count] times, at the values
    start, start+step, ...: the trip count is computed in closed form, in [Z].
    The Go loop has no such count; it decides after every trip whether to go on,
    with 64-bit integers that wrap around.  This file models exactly that
    decision, for the two forms the code has had:

    - [CtlTestPast]  (before the D20 repair)
        for ; subEnd <= end (ascending) / subEnd >= end (descending); subEnd += step
    - [CtlStopOnLast] (since the D20 repair)
        stop := NewInclusiveRange(start, end, step).End()
        for done := false; !done; subEnd += step { done = subEnd == stop; ... }

    gfsgen reads the for statement of AppendUnique in ranges/ranges.go and emits
    which form the current source has ([Gen/GenAuLoop.v]); the theorems about
    the generated form are in [Proofs/IntLoopProofs.v]. *)
From GFS Require Import Base Ranges.
From Coq Require Import ZArith List.
Import ListNotations.
Local Open Scope Z_scope.

Definition int_min : Z := - 2 ^ 63.
Definition int_max : Z := 2 ^ 63 - 1.
Definition is_int64 (z : Z) : Prop := int_min <= z <= int_max.

(** two's-complement wrap-around of a 64-bit addition *)
Definition wrap (z : Z) : Z := (z + 2 ^ 63) mod 2 ^ 64 - 2 ^ 63.

Inductive loop_ctl : Type :=
| CtlStopOnLast
| CtlTestPast
| CtlOther.

(** The values of [subEnd] that the loop body sees, in order.  [None]: the loop is
    still running when the fuel is used up. *)
Fixpoint visit_stop (fuel : nat) (stop step subEnd : Z) : option (list Z) :=
  match fuel with
  | O => None
  | S f =>
    if subEnd =? stop then Some [subEnd]
    else option_map (cons subEnd) (visit_stop f stop step (wrap (subEnd + step)))
  end.

Fixpoint visit_past (fuel : nat) (asc : bool) (end_ step subEnd : Z) : option (list Z) :=
  match fuel with
  | O => None
  | S f =>
    if (if asc then subEnd <=? end_ else subEnd >=? end_)
    then option_map (cons subEnd) (visit_past f asc end_ step (wrap (subEnd + step)))
    else Some []
  end.

(** the step as AppendUnique normalises it: its sign follows the direction *)
Definition au_step (start end_ step : Z) : Z :=
  if start <=? end_ then Z.abs step else - Z.abs step.

Definition loop_visits (c : loop_ctl) (fuel : nat) (start end_ step : Z) : option (list Z) :=
  let st := au_step start end_ step in
  match c with
  | CtlStopOnLast => visit_stop fuel (ir_end (new_range start end_ st)) st start
  | CtlTestPast => visit_past fuel (start <=? end_) end_ st start
  | CtlOther => None
  end.
