(** Model of /repo/pad.go: padding mappers, PaddingCharsSize, PadFrameRange,
    zfillString, zfillInt.  Tables and regexes come from the Gen layer. *)
From GFS Require Import Base Dec Regex GenRegex GenPadTables.
Local Open Scope Z_scope.

Inductive pstyle : Type := Hash1 | Hash4.

(** padders[style]; an unknown style falls back to the default mapper *)
Definition style_of_int (z : Z) : pstyle :=
  if z =? K_PadStyleHash1 then Hash1
  else if z =? K_PadStyleHash4 then Hash4
  else if K_PadStyleDefault =? K_PadStyleHash1 then Hash1 else Hash4.
Definition int_of_style (s : pstyle) : Z :=
  match s with Hash1 => K_PadStyleHash1 | Hash4 => K_PadStyleHash4 end.
Definition default_style : pstyle := style_of_int K_PadStyleDefault.

Definition char_size_table (s : pstyle) : list (bytes * Z) :=
  match s with Hash1 => hash1_char_size | Hash4 => hash4_char_size end.
Definition default_char (s : pstyle) : bytes :=
  match s with Hash1 => hash1_default_char | Hash4 => hash4_default_char end.

(** AllChars of the default mapper (map keys; order is irrelevant to its users) *)
Definition all_chars : list bytes := map fst (char_size_table default_style).

(** multiHashPad.PaddingChars / singleHashPad.PaddingChars *)
Definition padding_chars (s : pstyle) (pad : Z) : bytes :=
  match s with
  | Hash4 =>
    if pad <=? 0 then default_char Hash4
    else if go_mod pad 4 =? 0 then repeat_bytes [c_hash] (Z.to_nat (go_div pad 4))
    else repeat_bytes [c_at] (Z.to_nat pad)
  | Hash1 =>
    if pad <=? 0 then default_char Hash1
    else repeat_bytes (default_char Hash1) (Z.to_nat pad)
  end.

Fixpoint table_lookup (t : list (bytes * Z)) (k : bytes) : Z :=
  match t with
  | [] => 0
  | (k', v) :: r => if beq k' k then v else table_lookup r k
  end.

(** the printf / houdini alternatives of PaddingCharsSize: [Some w] when the
    pattern matches *)
Definition alt_pad_size (r : re) (chars : bytes) : option Z :=
  match submatches r chars 1 with
  | Some [d] =>
    match atoi d with
    | Some v => if v <? 1 then Some 1 else Some v
    | None => Some 1
    end
  | _ => None
  end.

(** paddingMap.PaddingCharsSize *)
Definition padding_chars_size (s : pstyle) (chars : bytes) : Z :=
  match chars with
  | [] => 0
  | _ =>
    if rsearch R_udimPattern chars then 4 else
    match alt_pad_size R_printfPattern chars with
    | Some w => w
    | None =>
      match alt_pad_size R_houdiniPattern chars with
      | Some w => w
      | None => fold_left (fun acc c => acc + table_lookup (char_size_table s) [c]) chars 0
      end
    end
  end.

(** zfillString *)
Definition zfill_string (src : bytes) (z : Z) : bytes :=
  let size := Z.of_nat (List.length src) in
  if size >=? z then src else
  let fill := repeat_bytes [c_0] (Z.to_nat (z - size)) in
  match src with
  | (45%nat :: rest) => c_minus :: fill ++ rest
  | _ => fill ++ src
  end.

(** zfillInt: strconv.Itoa, or fmt.Sprintf("%0Nd") which pads after the sign *)
Definition zfill_int (src z : Z) : bytes :=
  if z <? 2 then itoa src else zfill_string (itoa src) z.

(** one component of PadFrameRange: first matching pattern wins *)
Definition pad_part (part : bytes) (pad : Z) : bytes :=
  match submatches R_rangePatterns_0 part 2 with
  | Some [a; b] => zfill_string a pad ++ c_minus :: zfill_string b pad
  | _ =>
    match submatches R_rangePatterns_1 part 1 with
    | Some [a] => zfill_string a pad
    | _ =>
      match submatches R_rangePatterns_2 part 4 with
      | Some [a; b; md; st] => zfill_string a pad ++ c_minus :: zfill_string b pad ++ md ++ st
      | _ => part
      end
    end
  end.

(** PadFrameRange *)
Definition pad_frame_range (frange : bytes) (pad : Z) : bytes :=
  if pad <? 2 then frange
  else join_with c_comma (map (fun p => pad_part p pad) (split_on c_comma frange)).
