(** The CHECKED layer: Go's run-time checks at the anchored panic sites.

    The model (Lib/Base.v, Model/*.v) is written with total primitives: [slice]
    never fails, [nth _ _ default] never fails, an unknown pad style falls back
    inside [style_of_int], a re-parse that fails is an [option].  A theorem
    "the model never returns [Panic]" therefore says nothing about the guards
    the Go code needs in front of [s[lo:hi]], [s[i]], [frames[k]] and [p.f].

    This file adds, next to the model and without touching it,

    - checked primitives that return [Panic site] exactly when the Go
      operation panics ([slice_chk], [index_chk], [nth_chk], [tail_chk],
      [deref_chk]);
    - for each anchored site a checked VARIANT of the smallest model function
      that contains it, written after the Go text (quoted next to it) with the
      Go guard in front of the checked primitive, and an UNGUARDED twin that is
      the same text with the test deleted;
    - the enclosing model functions once more, parameterised by the clause that
      holds the site ([find_items_with], [f2r_loop_with], [seqinfo_run_with]),
      so that a dropped guard can be followed up to the public entry point.

    Proofs/CheckedProofs.v proves, per site, [<site>_guard_suffices] (for ALL
    inputs the checked variant is [Ok] of what the unchecked model computes, so
    every existing theorem transfers) and [<site>_guard_needed] (the unguarded
    twin does return [Panic] on a concrete input).

    Go text is quoted from /repo at HEAD (sequence.go, fileseq.go, pad.go,
    cmd/seqinfo/seqinfo.go). *)
From GFS Require Import Base Dec Regex GenRegex GenPadTables Ranges Pad FrameSet Compress Path Seq
  Listing Seqinfo.
Local Open Scope Z_scope.

(** * Site codes *)
Definition Site_template_slice : nat := Panic_template_slice.   (* sequence.go:781 *)
Definition Site_single_frame_index : nat := 2.                  (* sequence.go:916 *)
Definition Site_f2r_lookahead : nat := 3.                       (* fileseq.go:192 *)
Definition Site_f2r_window : nat := 4.                          (* fileseq.go:165,182,183,203,208 *)
Definition Site_split_nil : nat := 5.                           (* users of sequence.go:214-247 *)
Definition Site_padder_nil : nat := 6.                          (* sequence.go:82-85,160 and 467-472 *)
Definition Site_seqinfo_nil : nat := 7.                         (* cmd/seqinfo/seqinfo.go:270-275, 280-285 *)

(** * Checked primitives *)

(** Go [s[lo:hi]] on a string: panics unless [0 <= lo <= hi <= len(s)].
    With [nat] bounds the first conjunct is void. *)
Definition slice_chk (site : nat) (s : bytes) (lo hi : nat) : outcome bytes :=
  if (lo <=? hi)%nat && (hi <=? List.length s)%nat then Ok (slice s lo hi) else Panic site.

(** the same with Go [int] bounds, as computed by [len(a)-len(b)] *)
Definition slice_chk_int (site : nat) (s : bytes) (lo hi : Z) : outcome bytes :=
  if (lo <? 0) || (hi <? 0) then Panic site
  else slice_chk site s (Z.to_nat lo) (Z.to_nat hi).

(** Go [s[i]] on a string: panics unless [0 <= i < len(s)] *)
Definition index_chk (site : nat) (s : bytes) (i : Z) : outcome byte :=
  if (0 <=? i) && (i <? blen s) then Ok (nth (Z.to_nat i) s 0%nat) else Panic site.

(** Go [frames[k]] on an []int *)
Definition nth_chk (site : nat) (l : list Z) (k : nat) : outcome Z :=
  match nth_error l k with Some v => Ok v | None => Panic site end.

(** Go [frames[k:]] on an []int: panics when [k > len(frames)] *)
Definition tail_chk (site : nat) (l : list Z) (k : nat) : outcome (list Z) :=
  if (k <=? List.length l)%nat then Ok (skipn k l) else Panic site.

(** Go [p.f] / [p.m()] through a pointer, or a method call on an interface
    value: panics when it is nil *)
Definition deref_chk {A} (site : nat) (o : option A) : outcome A :=
  match o with Some a => Ok a | None => Panic site end.

(** * (a1) findSequencesInList, template branch: the frame between basename and extension

<<
774  if !(strings.HasPrefix(item.FileName, baseName) && strings.HasSuffix(item.FileName, ext)) {
775      continue
776  }
777  if len(item.FileName) < len(baseName)+len(ext) {
778      // the prefix and the suffix overlap
779      continue
780  }
781  frameStr = item.FileName[len(baseName) : len(item.FileName)-len(ext)]
785  if !rangePatterns[1].MatchString(frameStr) { continue }
788  if _, err := strconv.Atoi(frameStr); err != nil { continue }
>>
    The model function is [Listing.classify]; the branch without a template has
    no computed index (the parts are regexp submatches). *)

Definition classify_chk (o : lopts) (tmpl : option fileseq) (it : fitem) : outcome item_class :=
  let name := fi_name it in
  if negb (o_hidden o) && has_prefix name [c_dot] then Ok ISkip else
  match tmpl with
  | Some t =>
    let base := q_base t in let ext := q_ext t in
    if negb (has_prefix name base && has_suffix name ext) then Ok ISkip
    else if blen name <? blen base + blen ext then Ok ISkip                       (* line 777: THE GUARD *)
    else
      do frame <- slice_chk_int Site_template_slice name (blen base) (blen name - blen ext);   (* line 781 *)
      if negb (match rmatch R_rangePatterns_1 frame with Some _ => true | None => false end) then Ok ISkip
      else match atoi frame with
           | None => Ok ISkip
           | Some _ => Ok (IFrame (q_dir t, base, ext) frame)
           end
  | None => Ok (classify o None it)
  end.

(** the same text with lines 777-780 deleted *)
Definition classify_unguarded (o : lopts) (tmpl : option fileseq) (it : fitem) : outcome item_class :=
  let name := fi_name it in
  if negb (o_hidden o) && has_prefix name [c_dot] then Ok ISkip else
  match tmpl with
  | Some t =>
    let base := q_base t in let ext := q_ext t in
    if negb (has_prefix name base && has_suffix name ext) then Ok ISkip
    else
      do frame <- slice_chk_int Site_template_slice name (blen base) (blen name - blen ext);
      if negb (match rmatch R_rangePatterns_1 frame with Some _ => true | None => false end) then Ok ISkip
      else match atoi frame with
           | None => Ok ISkip
           | Some _ => Ok (IFrame (q_dir t, base, ext) frame)
           end
  | None => Ok (classify o None it)
  end.

(** * (a2) findSequencesInList, single-frame branch: the byte in front of the frame

<<
906  if len(seq.Frames) == 1 {
907      if baseName != "" {
910          pos := 1
913          if strings.HasSuffix(baseName, "-") && len(baseName) >= 2 {
914              pos = 2
915          }
916          dig := string(baseName[len(baseName)-pos])
918          if _, err := strconv.ParseUint(dig, 10, 8); err == nil {
919              pad = ""
920          }
921      }
>>
    Two guards protect line 916: [baseName != ""] (907) for [pos = 1] and
    [len(baseName) >= 2] (913) for [pos = 2].  [ParseUint(dig, 10, 8)] of a
    one-byte string succeeds exactly on an ASCII digit ([string(b)] of a byte
    above 0x7f is a two-byte string and is no number either).

    The model has the clause inline in [Listing.emit_bucket]; it is named here. *)

Definition single_frame_pad (base padding : bytes) : bytes :=
  match base with
  | [] => padding
  | _ => if last_byte_is_digit_before base then [] else padding
  end.

Definition single_frame_pad_chk (base padding : bytes) : outcome bytes :=
  if negb (beq base []) then                                                      (* line 907: GUARD 1 *)
    let pos := if has_suffix base [c_minus] && (2 <=? blen base)                  (* line 913: GUARD 2 *)
               then 2 else 1 in
    do dig <- index_chk Site_single_frame_index base (blen base - pos);           (* line 916 *)
    Ok (if is_digit dig then [] else padding)
  else Ok padding.

(** line 907 deleted *)
Definition single_frame_pad_unguarded (base padding : bytes) : outcome bytes :=
  let pos := if has_suffix base [c_minus] && (2 <=? blen base) then 2 else 1 in
  do dig <- index_chk Site_single_frame_index base (blen base - pos);
  Ok (if is_digit dig then [] else padding).

(** [&& len(baseName) >= 2] deleted from line 913 *)
Definition single_frame_pad_unguarded2 (base padding : bytes) : outcome bytes :=
  if negb (beq base []) then
    let pos := if has_suffix base [c_minus] then 2 else 1 in
    do dig <- index_chk Site_single_frame_index base (blen base - pos);
    Ok (if is_digit dig then [] else padding)
  else Ok padding.

(** * (b) FramesToFrameRange: the look-ahead, and the other indices of the window loop

<<
149  for len(frames) > 0 {
150      count = len(frames)
153      if count <= 2 { ... break }
165      step = frames[1] - frames[0]
166      for i = 0; i < len(frames)-1; i++ {
170          if (frames[i+1] - frames[i]) != step { break }
173      }
181      if i == 0 {
182          buf.WriteString(zfillInt(frames[0], zfill))
183          frames = frames[1:]
184          continue
185      }
189      if i == 1 && count > 3 {
192          if (frames[2] - frames[1]) == (frames[3] - frames[2]) {
195              buf.WriteString(zfillInt(frames[0], zfill))
196              frames = frames[1:]
197              continue
198          }
199      }
202      start = zfillInt(frames[0], zfill)
203      end = zfillInt(frames[i], zfill)
208      frames = frames[i+1:]
>>
    The guard of line 192 is [count > 3] on line 189.  Lines 165, 182, 183 are
    guarded by [count <= 2 => break] (line 153); lines 203 and 208 by the loop
    bound of line 166 ([i <= len(frames)-1]); the scan of line 170 by the same
    bound, which [Compress.run_pairs] has built in (it only looks at adjacent
    pairs that exist). *)

(** the model's look-ahead, named (it is inline in [Compress.f2r_loop]) *)
Definition f2r_better (i : nat) (frames : list Z) : bool :=
  match i, frames with
  | 1%nat, _ :: g1 :: g2 :: g3 :: _ => (g2 - g1 =? g3 - g2)
  | _, _ => false
  end.

Definition f2r_better_chk (i : nat) (frames : list Z) : outcome bool :=
  if Nat.eqb i 1 && (3 <? Z.of_nat (List.length frames)) then                                       (* line 189: i == 1 && count > 3 *)
    do a2 <- nth_chk Site_f2r_lookahead frames 2;                                 (* line 192 *)
    do a1 <- nth_chk Site_f2r_lookahead frames 1;
    do b3 <- nth_chk Site_f2r_lookahead frames 3;
    do b2 <- nth_chk Site_f2r_lookahead frames 2;
    Ok (a2 - a1 =? b3 - b2)
  else Ok false.

(** [&& count > 3] deleted from line 189 *)
Definition f2r_better_unguarded (i : nat) (frames : list Z) : outcome bool :=
  if Nat.eqb i 1 then
    do a2 <- nth_chk Site_f2r_lookahead frames 2;
    do a1 <- nth_chk Site_f2r_lookahead frames 1;
    do b3 <- nth_chk Site_f2r_lookahead frames 3;
    do b2 <- nth_chk Site_f2r_lookahead frames 2;
    Ok (a2 - a1 =? b3 - b2)
  else Ok false.

(** the window loop with every index and re-slice checked; [better] is the
    look-ahead clause *)
Fixpoint f2r_loop_with (better : nat -> list Z -> outcome bool)
         (fuel : nat) (frames : list Z) (zfill : Z) (buf : bytes) : outcome bytes :=
  match fuel with
  | O => OutOfFuel
  | S fuel' =>
    match frames with
    | [] => Ok buf
    | [a] => Ok (sep_if_nonempty buf ++ zfill_int a zfill)
    | [a; b] => Ok (sep_if_nonempty (sep_if_nonempty buf ++ zfill_int a zfill) ++ zfill_int b zfill)
    | _ =>
      do f1 <- nth_chk Site_f2r_window frames 1;                                  (* line 165 *)
      do f0 <- nth_chk Site_f2r_window frames 0;
      let step := f1 - f0 in
      let i := run_pairs step frames in                                           (* lines 166-173 *)
      let buf := sep_if_nonempty buf in
      match i with
      | O =>
        do f0' <- nth_chk Site_f2r_window frames 0;                               (* line 182 *)
        do rest <- tail_chk Site_f2r_window frames 1;                             (* line 183 *)
        f2r_loop_with better fuel' rest zfill (buf ++ zfill_int f0' zfill)
      | _ =>
        do b <- better i frames;                                                  (* lines 189-199 *)
        if b then
          do f0' <- nth_chk Site_f2r_window frames 0;                             (* line 195 *)
          do rest <- tail_chk Site_f2r_window frames 1;                           (* line 196 *)
          f2r_loop_with better fuel' rest zfill (buf ++ zfill_int f0' zfill)
        else
          do f0' <- nth_chk Site_f2r_window frames 0;                             (* line 202 *)
          do last <- nth_chk Site_f2r_window frames i;                            (* line 203 *)
          let buf := buf ++ zfill_int f0' zfill ++ c_minus :: zfill_int last zfill in
          let buf := if (step >? 1) || (step <? -1) then buf ++ c_x :: itoa step else buf in
          do rest <- tail_chk Site_f2r_window frames (S i);                       (* line 208 *)
          f2r_loop_with better fuel' rest zfill buf
      end
    end
  end.

Definition frames_to_frame_range_with (better : nat -> list Z -> outcome bool)
           (frames : list Z) (sorted : bool) (zfill : Z) : outcome bytes :=
  match frames with
  | [] => Ok []
  | [a] => Ok (zfill_int a zfill)
  | _ =>
    let fr := if sorted then zsort frames else frames in
    f2r_loop_with better (S (List.length fr)) fr zfill []
  end.

Definition frames_to_frame_range_chk := frames_to_frame_range_with f2r_better_chk.
Definition frames_to_frame_range_unguarded := frames_to_frame_range_with f2r_better_unguarded.

(** * The listing once more, over its three clauses

    [cls] is the classification of one item (site a1), [padf] the single-frame
    pad clause (site a2), [f2r] FramesToFrameRange (site b).  With the model's
    own clauses this is [Listing.find_items] (CheckedProofs). *)

Fixpoint collect_with (cls : lopts -> option fileseq -> fitem -> outcome item_class)
         (o : lopts) (tmpl : option fileseq) (items : list fitem)
         (seqs : list (skey * sinfo)) (files : list fileseq)
  : outcome (list (skey * sinfo) * list fileseq) :=
  match items with
  | [] => Ok (seqs, files)
  | it :: rest =>
    do c <- cls o tmpl it;
    match c with
    | ISkip => collect_with cls o tmpl rest seqs files
    | ISingle base frame ext =>
      if o_single o then
        do q <- new_fileseq (fi_dir it ++ fi_name it) (o_style o);
        collect_with cls o tmpl rest seqs (files ++ [force_parts q base ext frame])
      else collect_with cls o tmpl rest seqs files
    | IFrame key frame =>
      let w := blen frame in
      let fi := mkFI frame (atoi_or_0 frame) (frame_min_size frame) in
      let si :=
          match bucket_get seqs key with
          | None => mkSI [fi] (padding_chars (o_style o) w) w
          | Some s =>
            if w <? s_minw s then mkSI (s_frames s ++ [fi]) (padding_chars (o_style o) w) w
            else mkSI (s_frames s ++ [fi]) (s_padding s) (s_minw s)
          end in
      collect_with cls o tmpl rest (bucket_set seqs key si) files
    end
  end.

Fixpoint group_walk_with (f2r : list Z -> bool -> Z -> outcome bytes)
         (o : lopts) (dir base ext : bytes) (fis : list finfo)
         (cur_w : Z) (pad : bytes) (frames : list Z) (out : list fileseq)
  : outcome (list fileseq) :=
  match fis with
  | [] =>
    match frames with
    | [] => Ok out
    | _ =>
      do fr <- f2r frames true 0;
      do q <- append_seq o dir base fr pad ext;
      Ok (out ++ [q])
    end
  | fi :: rest =>
    if negb (blen (f_text fi) =? cur_w) && (f_minw fi >? cur_w) then
      do fr <- f2r frames true 0;
      do q <- append_seq o dir base fr pad ext;
      let w := blen (f_text fi) in
      group_walk_with f2r o dir base ext rest w (padding_chars (o_style o) w) [f_num fi] (out ++ [q])
    else
      group_walk_with f2r o dir base ext rest cur_w pad (frames ++ [f_num fi]) out
  end.

Definition emit_bucket_with (padf : bytes -> bytes -> outcome bytes)
           (f2r : list Z -> bool -> Z -> outcome bytes)
           (o : lopts) (k : skey) (s : sinfo) : outcome (list fileseq) :=
  let '(dir, base, ext) := k in
  match s_frames s with
  | [] => Ok []
  | [fi] =>
    do pad <- padf base (s_padding s);
    let frange := match pad with [] => f_text fi | _ => itoa (f_num fi) end in
    do q <- append_seq o dir base frange pad ext;
    Ok [q]
  | _ =>
    let sorted := fi_sort (s_frames s) in
    match sorted with
    | [] => Ok []
    | f0 :: _ =>
      let w := blen (f_text f0) in
      group_walk_with f2r o dir base ext sorted w (padding_chars (o_style o) w) [] []
    end
  end.

Fixpoint emit_all_with (padf : bytes -> bytes -> outcome bytes)
         (f2r : list Z -> bool -> Z -> outcome bytes)
         (o : lopts) (m : list (skey * sinfo)) : outcome (list fileseq) :=
  match m with
  | [] => Ok []
  | (k, s) :: r =>
    do a <- emit_bucket_with padf f2r o k s;
    do b <- emit_all_with padf f2r o r;
    Ok (a ++ b)
  end.

Definition find_items_with (cls : lopts -> option fileseq -> fitem -> outcome item_class)
           (padf : bytes -> bytes -> outcome bytes)
           (f2r : list Z -> bool -> Z -> outcome bytes)
           (items : list fitem) (opts : list Z) (tmpl : option fileseq)
  : outcome (list fileseq) :=
  let o := parse_opts opts (mkLO false false default_style) in
  do cf <- collect_with cls o tmpl items [] [];
  let '(seqs, files) := cf in
  do fseqs <- emit_all_with padf f2r o seqs;
  Ok (if o_single o then fseqs ++ files else fseqs).

(** findSequencesInList with every anchored site checked *)
Definition find_items_chk : list fitem -> list Z -> option fileseq -> outcome (list fileseq) :=
  find_items_with classify_chk single_frame_pad_chk frames_to_frame_range_chk.

(** * (c) FileSequence.Split: parts that did not re-parse are nil

<<
214  func (s *FileSequence) Split() FileSequences {
215      if s.frameSet == nil {
217          return FileSequences{s.Copy()}
218      }
220      franges := strings.Split(s.frameSet.FrameRange(), ",")
221      if len(franges) == 1 {
223          return FileSequences{s.Copy()}
224      }
234      for i, frange := range franges {
239          seq, _ = NewFileSequencePad(buf.String(), s.PaddingStyle())
240          list[i] = seq
245      }
246      return list
523  func (s *FileSequence) Copy() *FileSequence {
524      seq, _ := NewFileSequencePad(s.String(), s.PaddingStyle())
525      return seq
>>
    In the current code Split does NOT use the re-parsed sequence: it drops the
    error (line 239) and stores the pointer, nil included (line 240); Copy does
    the same (524-525).  Nothing in Split can panic, and [Seq.q_split] says so
    with its [list (option fileseq)].  The nil dereference sits one step
    later, in whoever walks the returned list:
<<
fileseq_test.go:395   for _, spl := range seq.Split() {
fileseq_test.go:396       actual = append(actual, spl.FrameRange())       // no test
verif_fuzz_test.go:68 for _, p := range q.Split() {
verif_fuzz_test.go:69     if p != nil {                                   // THE GUARD
verif_fuzz_test.go:70         p.String()
>>
    so the checked variant is the walk over the parts.  [FrameRange] (line
    308) reads [s.frameSet] first thing, hence panics on a nil receiver. *)

Fixpoint each_part {A} (f : option fileseq -> outcome (list A)) (parts : list (option fileseq))
  : outcome (list A) :=
  match parts with
  | [] => Ok []
  | p :: r => do a <- f p; do b <- each_part f r; Ok (a ++ b)
  end.

(** [for _, p := range q.Split() { if p != nil { use(p) } }] *)
Definition split_walk_chk {A} (use : fileseq -> A) (q : fileseq) : outcome (list A) :=
  each_part (fun p =>
               match p with
               | None => Ok []                                                    (* p != nil: THE GUARD *)
               | Some _ => do c <- deref_chk Site_split_nil p; Ok [use c]
               end) (q_split q).

(** [for _, p := range q.Split() { use(p) }] *)
Definition split_walk_unguarded {A} (use : fileseq -> A) (q : fileseq) : outcome (list A) :=
  each_part (fun p => do c <- deref_chk Site_split_nil p; Ok [use c]) (q_split q).

(** what the guarded walk computes, in terms of the unchecked model *)
Definition split_uses {A} (use : fileseq -> A) (q : fileseq) : list A :=
  flat_map (fun p => match p with Some c => [use c] | None => [] end) (q_split q).

(** * (d) padders[style]: SetPaddingStyle and NewFileSequencePad

<<
pad.go:27      padders = map[PadStyle]paddingMapper{ PadStyleHash1: ..., PadStyleHash4: ... }
pad.go:32      defaultPadding = padders[PadStyleDefault]
sequence.go:466 func (s *FileSequence) SetPaddingStyle(style PadStyle) {
467      padder, ok := padders[style]
468      if !ok {
469          padder = defaultPadding
470      }
471      s.padMapper = padder
472      s.SetPadding(s.padMapper.PaddingChars(s.ZFill()))
sequence.go:76  func NewFileSequencePad(sequence string, style PadStyle) ( *FileSequence, error) {
82       padder, ok := padders[style]
83       if !ok {
84           padder = defaultPadding
85       }
95               return nil, fmt.Errorf("Failed to parse sequence: %s", sequence)
128              pad = padder.PaddingChars(len(strings.TrimSpace(frameStr)))
157      padMapper: padder,
160      seq.SetPadding(pad)                    // s.padMapper.PaddingCharsSize(padChars)
>>
    A missing key gives the zero [paddingMapper], a nil interface; calling a
    method on it panics.  The model folds lookup and fallback into
    [Pad.style_of_int]; here the map is an [option]. *)

Definition padders_lookup (style : Z) : option pstyle :=
  if style =? K_PadStyleHash1 then Some Hash1
  else if style =? K_PadStyleHash4 then Some Hash4
  else None.

(** pad.go:32 *)
Definition default_padding : option pstyle := padders_lookup K_PadStyleDefault.

Definition set_padding_style_chk (q : fileseq) (style : Z) : outcome fileseq :=
  let padder := match padders_lookup style with                                   (* 467 *)
                | Some p => Some p
                | None => default_padding                                         (* 468-470: THE GUARD *)
                end in
  do st <- deref_chk Site_padder_nil padder;                                      (* 472: s.padMapper.PaddingChars *)
  Ok (set_padding (mkQ (q_dir q) (q_base q) (q_ext q) (q_pad q) (q_zfill q) (q_fs q) st)
                  (padding_chars st (q_zfill q))).

(** lines 468-470 deleted *)
Definition set_padding_style_unguarded (q : fileseq) (style : Z) : outcome fileseq :=
  let padder := padders_lookup style in
  do st <- deref_chk Site_padder_nil padder;
  Ok (set_padding (mkQ (q_dir q) (q_base q) (q_ext q) (q_pad q) (q_zfill q) (q_fs q) st)
                  (padding_chars st (q_zfill q))).

(** NewFileSequencePad with an [int] style.  The padder is first used at line
    128 or 160, after the one error return (line 95), which does not depend on
    it ([defaultPadding.AllChars()]). *)
Definition new_fileseq_pad_chk (sequence : bytes) (style : Z) : outcome fileseq :=
  let padder := match padders_lookup style with                                   (* 82 *)
                | Some p => Some p
                | None => default_padding                                         (* 83-85: THE GUARD *)
                end in
  match padder with
  | Some st => new_fileseq sequence st
  | None =>
    match new_fileseq sequence default_style with
    | Err e => Err e                                                              (* 95 *)
    | _ => Panic Site_padder_nil                                                  (* 128 / 160 *)
    end
  end.

(** lines 83-85 deleted *)
Definition new_fileseq_pad_unguarded (sequence : bytes) (style : Z) : outcome fileseq :=
  match padders_lookup style with
  | Some st => new_fileseq sequence st
  | None =>
    match new_fileseq sequence default_style with
    | Err e => Err e
    | _ => Panic Site_padder_nil
    end
  end.

(** sequence.go:738 [padder := padders[padStyle]] in findSequencesInList has no
    fallback and needs none: [padStyle] is one of the three constants (lines
    695-708), all of them keys.  The model's [o_style : pstyle] has the lookup
    already done; [listing_styles] are the values it can come from. *)
Definition listing_styles : list Z := [K_PadStyleDefault; K_PadStyleHash1; K_PadStyleHash4].

(** * (e) cmd/seqinfo parse: the re-parse of a frame path

<<
264  if opts.Index != nil {
265      frame := fs.Index( *opts.Index)
266      if frame == "" { res.Error = ...; return res }
270      fs, err = fileseq.NewFileSequencePad(frame, padStyle)
271      if err != nil {
272          res.Error = err.Error()
273          return res
274      }
275      _ = fs.SetFrameRange(strconv.Itoa(fs.Start()))
276  }
278  if opts.Frame != nil {
279      frame, _ := fs.Frame( *opts.Frame)
280      fs, err = fileseq.NewFileSequencePad(frame, padStyle)
281      if err != nil {
282          res.Error = err.Error()
283          return res
284      }
285      _ = fs.SetFrameRange(strconv.Itoa(fs.Start()))
286  }
>>
    NewFileSequencePad returns [(nil, err)] or [(seq, nil)]; [fs.Start()] on a
    nil [fs] reads [s.frameSet] and panics. *)

(** the pair [(fs, err != nil)] that NewFileSequencePad returns *)
Definition new_fileseq_pair (path : bytes) (st : pstyle) : outcome (option fileseq * bool) :=
  match new_fileseq path st with
  | Ok q => Ok (Some q, false)
  | Err _ => Ok (None, true)
  | Panic n => Panic n
  | OutOfFuel => OutOfFuel
  end.

Definition reparse_frame_chk (path : bytes) (st : pstyle) : outcome (option fileseq) :=
  do r <- new_fileseq_pair path st;                                               (* 270 / 280 *)
  let '(fs, err) := r in
  if err then Ok None                                                             (* 271-274 / 281-284: THE GUARD *)
  else
    do q <- deref_chk Site_seqinfo_nil fs;                                        (* 275 / 285: fs.Start() *)
    Ok (Some (fst (set_frame_range q (itoa (q_start q))))).

(** lines 271-274 / 281-284 deleted *)
Definition reparse_frame_unguarded (path : bytes) (st : pstyle) : outcome (option fileseq) :=
  do r <- new_fileseq_pair path st;
  let '(fs, err) := r in
  do q <- deref_chk Site_seqinfo_nil fs;
  Ok (Some (fst (set_frame_range q (itoa (q_start q))))).

(** the option pipeline of [parse] over the re-parse clause [rp]; only the
    --index and --frame stages contain it *)
Definition run_stage_with (rp : bytes -> pstyle -> outcome (option fileseq))
           (st : pstyle) (o : sopts) (refmt : option bytes) (s : stage) (q : fileseq)
  : outcome (option fileseq) :=
  match s with
  | StIndex =>
    match so_index o with
    | None => Ok (Some q)
    | Some i =>
      match q_index q i with
      | [] => Ok None
      | path => rp path st
      end
    end
  | StFrame =>
    match so_frame o with
    | None => Ok (Some q)
    | Some f => rp (q_frame_int q f) st
    end
  | _ => run_stage st o refmt s q
  end.

Fixpoint run_stages_with (rp : bytes -> pstyle -> outcome (option fileseq))
         (st : pstyle) (o : sopts) (refmt : option bytes) (pl : list stage) (q : fileseq)
  : outcome (option fileseq) :=
  match pl with
  | [] => Ok (Some q)
  | s :: rest =>
    do x <- run_stage_with rp st o refmt s q;
    match x with
    | None => Ok None
    | Some q' => run_stages_with rp st o refmt rest q'
    end
  end.

Definition seqinfo_run_with (rp : bytes -> pstyle -> outcome (option fileseq))
           (pl : list stage) (pattern : bytes) (o : sopts) (refmt : option bytes) : outcome sresult :=
  let st := if so_hash1 o then Hash1 else Hash4 in
  match new_fileseq pattern st with
  | Ok q0 =>
    do x <- run_stages_with rp st o refmt pl q0;
    Ok (match x with None => err_result pattern | Some q => fill_result q end)
  | Err _ => Ok (err_result pattern)
  | Panic n => Panic n
  | OutOfFuel => OutOfFuel
  end.

Definition seqinfo_run_chk := seqinfo_run_with reparse_frame_chk.
