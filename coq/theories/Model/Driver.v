(** The dispatcher run by the correspondence check: one operation per line,
    arguments already hex-decoded by the OCaml driver, result printed as one
    canonical line.  The Go (and C++) drivers print the same lines from the
    implementation.  No proofs. *)
From GFS Require Import Base Dec Regex GenRegex GenPadTables Ranges Pad FrameSet Compress Path Seq Listing Seqinfo Seqls Export GenStorage Fastwalk GenFastwalk GenSeqinfo SpecRange SpecSeq.
Local Open Scope Z_scope.

Definition hexd (n : nat) : byte := if Nat.ltb n 10 then (48 + n)%nat else (87 + n)%nat.
Fixpoint hex (s : bytes) : bytes :=
  match s with
  | [] => []
  | c :: r => hexd (Nat.div c 16) :: hexd (Nat.modulo c 16) :: hex r
  end.
Definition hexs (s : bytes) : bytes := match s with [] => [c_minus] | _ => hex s end.

Definition sp : bytes := [c_space].
Definition kv (k : string) (v : bytes) : bytes := sp ++ s2b k ++ [61%nat] ++ v.
Definition kz (k : string) (z : Z) : bytes := kv k (itoa z).
Definition kh (k : string) (s : bytes) : bytes := kv k (hexs s).
Definition kb (k : string) (b : bool) : bytes := kv k (if b then [49%nat] else [48%nat]).
Definition zlist (l : list Z) : bytes :=
  match l with [] => [c_minus] | _ => join_with c_comma (map itoa l) end.
Definition kl (k : string) (l : list Z) : bytes := kv k (zlist l).
Definition optz (o : option Z) : bytes := match o with Some z => itoa z | None => [69%nat] end.

Definition argz (s : bytes) : Z := match atoi_big s with Some z => z | None => 0 end.
Definition argzl (s : bytes) : list Z :=
  match s with
  | [] => []
  | _ => map argz (split_on c_comma s)
  end.

(** [zrange lo n] = lo, lo+1, ..., n values *)
Definition zrange (lo : Z) (n : nat) : list Z := map (fun i => lo + Z.of_nat i) (seq 0 n).

Definition outcome_tag {A} (x : outcome A) : bytes :=
  match x with
  | Ok _ => s2b "OK"
  | Err _ => s2b "ERR"
  | Panic _ => s2b "PANIC"
  | OutOfFuel => s2b "OUTOFFUEL"
  end.

(** the probe loops over [-2,len+2] and [min-2,max+2] are skipped (by the Go driver too: its
    own loop counters would overflow, or the loops run for ever) when the coordinates sit at the
    edge of the int range or the span is wide *)
Definition probe_guard (n mn mx : Z) : bool :=
  (mn <? - 2 ^ 62) || (2 ^ 62 <? mx) || (2 ^ 20 <? mx - mn) || (2 ^ 20 <? n).

(** observation of one block list: what C02 / C13 quantify over *)
Definition probe_blocks (bl : iranges) : bytes :=
  let n := rs_len bl in
  let fr := rs_iter bl in
  let lo := rs_min bl - 2 in
  kz "len" n ++ kz "start" (rs_start bl) ++ kz "end" (rs_end bl) ++
  kz "min" (rs_min bl) ++ kz "max" (rs_max bl) ++
  kl "frames" fr ++
  (if probe_guard n (rs_min bl) (rs_max bl) then [] else
   let vals := zrange lo (Z.to_nat (rs_max bl - rs_min bl + 5)) in   (* inside the guard: extraction is strict *)
   kv "value" (join_with c_comma (map (fun i => optz (rs_value bl i)) (zrange (-2) (Z.to_nat (n + 5))))) ++
   kl "index" (map (rs_index bl) vals) ++
   kv "has" (map (fun v => if rs_contains bl v then 49%nat else 48%nat) vals)) ++
  kh "str" (rs_string itoa bl).

(** observation of a frame set through its own API (no block string; min and
    max taken from the frame list) *)
Definition list_min (l : list Z) : Z := match l with [] => 0 | x :: r => fold_left Z.min r x end.
Definition list_max (l : list Z) : Z := match l with [] => 0 | x :: r => fold_left Z.max r x end.
Definition probe_fs (bl : iranges) : bytes :=
  let n := rs_len bl in
  let fr := rs_iter bl in
  let mn := list_min fr in let mx := list_max fr in
  kz "len" n ++ kz "start" (rs_start bl) ++ kz "end" (rs_end bl) ++
  kz "min" mn ++ kz "max" mx ++
  kl "frames" fr ++
  (if probe_guard n mn mx then [] else
   let vals := zrange (mn - 2) (Z.to_nat (mx - mn + 5)) in
   kv "value" (join_with c_comma (map (fun i => optz (rs_value bl i)) (zrange (-2) (Z.to_nat (n + 5))))) ++
   kl "index" (map (rs_index bl) vals) ++
   kv "has" (map (fun v => if rs_contains bl v then 49%nat else 48%nat) vals)).


(** fastwalk: a tree given as a parent vector (node 0 is the root; parents.[i] < i) and a
    skip vector; exhaustive exploration of the schedules of the coordinator program that
    gfsgen translated from fastwalk.go *)
Fixpoint fw_tree (fuel : nat) (parents : list Z) (skips : list bool) (i : nat) : Fastwalk.tree :=
  match fuel with
  | O => Node i false []
  | S f =>
    let kids := filter (fun j => andb (Nat.ltb i j) (Z.eqb (nth j parents (-1)) (Z.of_nat i))) (seq 0 (List.length parents)) in
    Node i (nth i skips false) (map (fw_tree f parents skips) kids)
  end.
Definition fw_label (l : Fastwalk.label) : bytes :=
  match l with
  | LSend => s2b "S" | LRecvEnq => s2b "E" | LRecvRes => s2b "R"
  | LTake w => s2b "T" ++ itoa (Z.of_nat w) | LEnqueue w => s2b "Q" ++ itoa (Z.of_nat w)
  | LFinish w => s2b "F" ++ itoa (Z.of_nat w) | LResult w => s2b "X" ++ itoa (Z.of_nat w)
  end.
Definition fw_verdict (v : Fastwalk.verdict) : bytes :=
  match v with
  | AllComplete n => s2b "OK complete states=" ++ itoa (Z.of_nat n)
  | Incomplete sch w => s2b "OK incomplete schedule=" ++ join_with c_comma (map fw_label sch) ++
                        s2b " walked=" ++ zlist (map Z.of_nat w)
  | ExploreOutOfFuel => s2b "OUTOFFUEL"
  end.

(** queries at given indices / values only (huge ranges) *)
Definition probe_blocks_at (bl : iranges) (idxs vals : list Z) : bytes :=
  kz "len" (rs_len bl) ++ kz "start" (rs_start bl) ++ kz "end" (rs_end bl) ++
  kv "value" (join_with c_comma (map (fun i => optz (rs_value bl i)) idxs)) ++
  kl "index" (map (rs_index bl) vals) ++
  kv "has" (map (fun v => if rs_contains bl v then 49%nat else 48%nat) vals).

(** what the independent spec says about a range string *)
Definition spec_field (r : bytes) : bytes :=
  match spec_frames r with
  | Some l => kl "S_frames" l
  | None => kv "S_frames" (s2b "ERR")
  end.

Definition reparse (s : bytes) : bytes :=
  match new_frameset s with Ok f => zlist (fs_frames f) | _ => s2b "ERR" end.

Definition style_arg (s : bytes) : pstyle := style_of_int (argz s).

Definition show_seq_core (q : fileseq) : bytes :=
  kh "dir" (q_dir q) ++ kh "base" (q_base q) ++ kh "ext" (q_ext q) ++ kh "pad" (q_pad q) ++
  kz "zfill" (q_zfill q) ++ kb "hasfs" (match q_fs q with Some _ => true | None => false end) ++
  kh "frange" (q_frange q) ++ kz "style" (int_of_style (q_style q)) ++
  kh "string" (q_string q) ++ kz "len" (q_len q) ++ kz "start" (q_start q) ++ kz "end" (q_end q).

(** paths by Index(-1 .. len), bounded by the caller's generator *)
Definition path_cap : Z := 2000.
Definition show_seq_paths (q : fileseq) : bytes :=
  kv "paths" (join_with c_comma (map (fun i => hexs (q_index q i)) (zrange (-1) (Z.to_nat (Z.min (q_len q) path_cap + 2))))).

Definition show_seq (q : fileseq) : bytes := show_seq_core q ++ show_seq_paths q.

Definition show_seq_opt (o : option fileseq) : bytes :=
  match o with Some q => show_seq q | None => sp ++ s2b "nil" end.

(** a listing record: compared as a multiset by the orchestrator *)
Definition show_listed (q : fileseq) : bytes :=
  hexs (q_string q) ++ [58%nat] ++ itoa (q_zfill q) ++ [58%nat] ++ itoa (int_of_style (q_style q)) ++ [58%nat] ++
  join_with c_comma (map hexs (map (q_index q) (zrange 0 (Z.to_nat (Z.min (q_len q) path_cap))))).

Definition show_listing (r : outcome (list fileseq)) : bytes :=
  match r with
  | Ok qs => s2b "OK" ++ flat_map (fun q => sp ++ show_listed q) qs
  | other => outcome_tag other
  end.

(** setter history ops: first byte selects the setter *)
Definition apply_op (q : fileseq) (op : bytes) : fileseq :=
  match op with
  | 68%nat :: a => set_dirname q a                      (* D *)
  | 66%nat :: a => set_basename q a                     (* B *)
  | 69%nat :: a => set_ext q a                          (* E *)
  | 80%nat :: a => set_padding q a                      (* P *)
  | 83%nat :: a => set_padding_style q (argz a)         (* S *)
  | 82%nat :: a => fst (set_frame_range q a)            (* R *)
  | 78%nat :: _ => set_frameset q None                  (* N *)
  | 70%nat :: a => match new_frameset a with            (* F: SetFrameSet(NewFrameSet a) when it parses *)
                   | Ok f => set_frameset q (Some f)
                   | _ => q
                   end
  | _ => q
  end.

Definition ent_of_arg (a : bytes) : bytes * ekind :=
  match a with
  | 70%nat :: 58%nat :: n => (n, KFile)                 (* F: *)
  | 68%nat :: 58%nat :: n => (n, KDir)                  (* D: *)
  | 76%nat :: 70%nat :: 58%nat :: n => (n, KLinkFile)   (* LF: *)
  | 76%nat :: 68%nat :: 58%nat :: n => (n, KLinkDir)    (* LD: *)
  | 76%nat :: 83%nat :: 58%nat :: n => (n, KLinkFile)   (* LS: link to a special file: not a directory *)
  | 76%nat :: 88%nat :: 58%nat :: n => (n, KLinkDangling) (* LX: *)
  | 76%nat :: 76%nat :: 58%nat :: n => (n, KLinkDangling) (* LL: a link to itself (ELOOP): Stat fails *)
  | 76%nat :: 78%nat :: 58%nat :: n => (n, KLinkDangling) (* LN: a link below a regular file (ENOTDIR): Stat fails *)
  | _ => (a, KFile)
  end.

Definition dispatch (args : list bytes) : bytes :=
  match args with
  | op :: rest =>
    if beq op (s2b "pad") then
      match rest with
      | [st; n] =>
        let c := padding_chars (style_arg st) (argz n) in
        s2b "OK" ++ kh "chars" c ++ kz "size" (padding_chars_size (style_arg st) c)
      | _ => s2b "BADARGS"
      end
    else if beq op (s2b "padsize") then
      match rest with
      | [st; c] => s2b "OK" ++ kz "size" (padding_chars_size (style_arg st) c)
      | _ => s2b "BADARGS"
      end
    else if beq op (s2b "zfill") then
      match rest with
      | [v; z] => s2b "OK" ++ kh "s" (zfill_int (argz v) (argz z))
      | _ => s2b "BADARGS"
      end
    else if beq op (s2b "zfills") then
      match rest with
      | [v; z] => s2b "OK" ++ kh "s" (zfill_string v (argz z))
      | _ => s2b "BADARGS"
      end
    else if beq op (s2b "ir") then
      match rest with
      | [s; e; st] =>
        let r := new_range (argz s) (argz e) (argz st) in
        let n := ir_len r in
        let vals := zrange (ir_min r - 2) (Z.to_nat (ir_max r - ir_min r + 5)) in
        s2b "OK" ++ kz "rend" (ir_end r) ++ kz "rlen" n ++ kz "rmin" (ir_min r) ++ kz "rmax" (ir_max r) ++
        kl "riter" (ir_iter r) ++
        kv "rvalue" (join_with c_comma (map (fun i => optz (ir_value r i)) (zrange (-2) (Z.to_nat (n + 5))))) ++
        kl "rindex" (map (ir_index r) vals) ++
        kv "rhas" (map (fun v => if ir_contains r v then 49%nat else 48%nat) vals) ++
        probe_blocks [r]
      | _ => s2b "BADARGS"
      end
    else if beq op (s2b "rs") then
      (* AppendUnique history: each arg is "s,e,st" *)
      let bl := fold_left (fun bl a => match argzl a with
                                       | [s; e; st] => append_unique bl s e st
                                       | _ => bl end) rest [] in
      s2b "OK" ++ probe_blocks bl
    else if beq op (s2b "fs") then
      match rest with
      | [r] =>
        match new_frameset r with
        | Ok f => s2b "OK" ++ kb "isfr" (is_frame_range r) ++ probe_fs (fs_blocks f) ++ spec_field r
        | other => outcome_tag other ++ kb "isfr" (is_frame_range r) ++ spec_field r
        end
      | _ => s2b "BADARGS"
      end
    else if beq op (s2b "fsbig") then
      match rest with
      | [r; idxs; vals] =>
        match new_frameset r with
        | Ok f => s2b "OK" ++ probe_blocks_at (fs_blocks f) (argzl idxs) (argzl vals)
        | other => outcome_tag other
        end
      | _ => s2b "BADARGS"
      end
    else if beq op (s2b "big") then
      (* huge single-component ranges: closed-form answers only, no enumeration *)
      match rest with
      | [r; idxs; vals] =>
        match new_frameset r with
        | Ok f =>
          s2b "OK" ++ probe_blocks_at (fs_blocks f) (argzl idxs) (argzl vals) ++
          match new_fileseq (s2b "/x/foo." ++ r ++ s2b "#.exr") Hash4 with
          | Ok q => kh "qstr" (q_string q) ++ kz "qlen" (q_len q) ++ kh "p0" (q_index q 0) ++
                    kh "plast" (q_index q (q_len q - 1)) ++ kh "pout" (q_index q (q_len q))
          | _ => kv "qstr" (s2b "ERR")
          end
        | other => outcome_tag other
        end
      | _ => s2b "BADARGS"
      end
    else if beq op (s2b "seqinfo") then
      (* hash1 dir base range pad ext inverted index frame format refmt pattern; "-"-encoded empties; index/frame "N" = none *)
      match rest with
      | [h1; d; b; r; p; e; inv; idx; fr; fm; refmt; pat] =>
        let optz (a : bytes) := if beq a (s2b "N") then None else Some (argz a) in
        let o := mkSO d b r p e (negb (argz fm =? 0)) (negb (argz inv =? 0)) (negb (argz h1 =? 0)) (optz idx) (optz fr) in
        let rf := if beq refmt (s2b "TEMPLATE-ERROR") then None else Some refmt in
        match seqinfo_run GenSeqinfo.pipeline pat o rf with
        | Ok r =>
          if sr_error r then s2b "OK error=1" ++ kh "string" (sr_string r)
          else s2b "OK error=0" ++ kh "string" (sr_string r) ++ kh "dir" (sr_dir r) ++ kh "base" (sr_base r) ++
               kh "range" (sr_range r) ++ kh "pad" (sr_pad r) ++ kh "ext" (sr_ext r) ++ kz "start" (sr_start r) ++
               kz "end" (sr_end r) ++ kz "length" (sr_len r) ++ kz "zfill" (sr_zfill r) ++ kb "hasRange" (sr_hasrange r)
        | other => outcome_tag other
        end
      | _ => s2b "BADARGS"
      end
    else if beq op (s2b "seqls") then
      (* flags cwd nargs arg... node...; node = kind|parent|name|target with kind D F LF LD LX *)
      match rest with
      | flags :: cwd :: nargs :: more =>
        let n := Z.to_nat (argz nargs) in
        let args := firstn n more in
        let nodes := skipn n more in
        let has (c : byte) := existsb (Nat.eqb c) flags in
        let f := mkSF (has 114%nat) (has 97%nat) (has 115%nat) (has 49%nat) (has 102%nat) in
        let parse_node (s : bytes) : tnode :=
            match split_on 124%nat s with
            | [k; p; nm; tg] =>
              mkTN p nm (if beq k (s2b "D") then KDir else if beq k (s2b "F") then KFile
                         else if beq k (s2b "LF") then KLinkFile else if beq k (s2b "LD") then KLinkDir else KLinkDangling) tg
            | _ => mkTN [] s KFile []
            end in
        s2b "OK" ++ flat_map (fun l => sp ++ hexs l) (seqls_lines f cwd (map parse_node nodes) args)
      | _ => s2b "BADARGS"
      end
    else if beq op (s2b "c20") then
      (* which-map threads schedule: threads "A,I0,D0;G0,L" ("-" = no ops), schedule "0,1,1,0" *)
      match rest with
      | [which; thr; sched] =>
        let P := if beq which (s2b "fs") then frameset_progs else fileseq_progs in
        let parse_op (o : bytes) : opk :=
            match o with
            | 65%nat :: _ => OAdd
            | 73%nat :: k => OIncref (Z.to_nat (argz k))
            | 68%nat :: k => ODecref (Z.to_nat (argz k))
            | 71%nat :: k => OGet (Z.to_nat (argz k))
            | 76%nat :: _ => OLen
            | 83%nat :: k => OStale 424242 (Z.to_nat (argz k))
            | _ => OLen
            end in
        let threads := map (fun t => if beq t [c_minus] then [] else map parse_op (split_on c_comma t))
                           (split_on 59%nat thr) in
        let sch := if beq sched [c_minus] then [] else map (fun z => Z.to_nat z) (argzl sched) in
        (* the harness appends a round-robin tail long enough to finish every thread *)
        let w := run_schedule P 88172645463325252 threads sch in
        let slot_state (id : Z) : bytes :=
            match map_find (g_map (w_g w)) id with
            | Some c => itoa (nth c (g_cells (w_g w)) 0)
            | None => [120%nat]
            end in
        let ids_ok := forallb (fun id => negb (id =? 0)) (w_slots w) &&
                      (Nat.eqb (List.length (nodup Z.eq_dec (w_slots w))) (List.length (w_slots w))) in
        s2b "OK" ++ kz "len" (Z.of_nat (List.length (g_map (w_g w)))) ++
        kv "slots" (match w_slots w with [] => [] | _ => join_with c_comma (map slot_state (w_slots w)) end) ++
        kv "log" (match w_log w with [] => [] | _ =>
                    join_with c_comma (map (fun e => let '(t, k, v) := e in
                                                     itoa (Z.of_nat t) ++ [58%nat] ++ itoa k ++ [58%nat] ++ itoa v) (w_log w)) end) ++
        kv "ids" (if ids_ok then s2b "true" else s2b "false") ++
        kb "quiescent" (quiescent w)
      | _ => s2b "BADARGS"
      end
    else if beq op (s2b "unamb") then
      match rest with
      | [d; b; r; p; e] => s2b "OK" ++ kb "unamb" (unambiguous d b r p e)
      | _ => s2b "BADARGS"
      end
    else if beq op (s2b "norm") then
      match rest with
      | [r] =>
        match new_frameset r with
        | Ok f =>
          let nf := fs_normalize f in let iv := fs_invert f in
          s2b "OK" ++ kh "nstr" (fs_range nf) ++ kl "nframes" (fs_frames nf) ++
          kh "istr" (fs_range iv) ++ kl "iframes" (fs_frames iv) ++
          kv "ipad" (join_with c_comma (map (fun p => hexs (fs_inverted_frame_range f p)) (zrange 0 7))) ++
          kl "frames" (fs_frames f) ++
          kv "nre" (reparse (fs_range nf)) ++ kv "ire" (match fs_range iv with [] => [c_minus] | s => reparse s end) ++
          kv "ipadre" (join_with (59%nat) (map (fun p => match fs_inverted_frame_range f p with [] => [c_minus] | s => reparse s end) (zrange 0 7))) ++
          kh "nnstr" (fs_range (fs_normalize nf)) ++
          kl "S_nframes" (sort_dedup (fs_frames f)) ++ kl "S_iframes" (complement (fs_frames f))
        | other => outcome_tag other
        end
      | _ => s2b "BADARGS"
      end
    else if beq op (s2b "f2r") then
      match rest with
      | [l; srt; z] =>
        match frames_to_frame_range (argzl l) (negb (argz srt =? 0)) (argz z) with
        | Ok s => s2b "OK" ++ kh "s" s ++ kv "re" (match s with [] => [c_minus] | _ => reparse s end)
        | other => outcome_tag other
        end
      | _ => s2b "BADARGS"
      end
    else if beq op (s2b "padfr") then
      match rest with
      | [r; p] => let t := pad_frame_range r (argz p) in
                  s2b "OK" ++ kh "s" t ++ kv "in" (reparse r) ++ kv "out" (reparse t) ++
                  kh "again" (pad_frame_range t (argz p))
      | _ => s2b "BADARGS"
      end
    else if beq op (s2b "seq") then
      match rest with
      | s :: st :: probes =>
        match new_fileseq s (style_arg st) with
        | Ok q => s2b "OK" ++ show_seq q ++ kh "fmt" (q_format_default q) ++
                  kv "frame" (join_with c_comma (map (fun p => hexs (q_frame_int q (argz p))) probes)) ++
                  kv "frames" (join_with c_comma (map (fun p => hexs (q_frame_str q p)) probes))
        | other => outcome_tag other
        end
      | _ => s2b "BADARGS"
      end
    else if beq op (s2b "seqops") then
      match rest with
      | s :: st :: ops =>
        match new_fileseq s (style_arg st) with
        | Ok q0 =>
          let q := fold_left apply_op ops q0 in
          s2b "OK" ++ show_seq q ++
          sp ++ s2b "COPY" ++ show_seq_opt (q_copy q) ++
          flat_map (fun p => sp ++ s2b "PART" ++ show_seq_opt p) (q_split q)
        | other => outcome_tag other
        end
      | _ => s2b "BADARGS"
      end
    else if beq op (s2b "list") then
      match rest with
      | opts :: paths => show_listing (find_in_list paths (argzl opts))
      | _ => s2b "BADARGS"
      end
    else if beq op (s2b "disk") then
      match rest with
      | opts :: path :: readable :: ents =>
        show_listing (find_on_disk path
                        (if argz readable =? 0 then None else Some (map ent_of_arg ents))
                        (argzl opts) None)
      | _ => s2b "BADARGS"
      end
    else if beq op (s2b "findseq") then
      match rest with
      | opts :: st :: pattern :: readable :: ents =>
        match find_seq_on_disk pattern (argz st) (argzl opts)
                (fun _ => if argz readable =? 0 then None else Some (map ent_of_arg ents)) with
        | Ok (Some q) => s2b "OK " ++ show_listed q ++ kh "base" (q_base q) ++ kh "ext" (q_ext q)
        | Ok None => s2b "OK nil"
        | other => outcome_tag other
        end
      | _ => s2b "BADARGS"
      end
    else if beq op (s2b "clean") then
      match rest with
      | [p] => s2b "OK" ++ kh "clean" (path_clean p) ++ kh "dir" (fst (path_split p)) ++ kh "file" (snd (path_split p))
      | _ => s2b "BADARGS"
      end
    else if beq op (s2b "rx") then
      (* raw regex captures: which pattern, subject *)
      match rest with
      | [which; s] =>
        let go r n := match submatches r s n with
                      | Some l => s2b "OK" ++ flat_map (fun c => sp ++ hexs c) l
                      | None => s2b "NOMATCH" end in
        if beq which (s2b "range0") then go R_rangePatterns_0 N_rangePatterns_0
        else if beq which (s2b "range1") then go R_rangePatterns_1 N_rangePatterns_1
        else if beq which (s2b "range2") then go R_rangePatterns_2 N_rangePatterns_2
        else if beq which (s2b "split") then go R_splitPattern N_splitPattern
        else if beq which (s2b "single") then go R_singleFramePattern N_singleFramePattern
        else if beq which (s2b "optional") then go R_optionalFramePattern N_optionalFramePattern
        else if beq which (s2b "printf") then go R_printfPattern N_printfPattern
        else if beq which (s2b "houdini") then go R_houdiniPattern N_houdiniPattern
        else if beq which (s2b "udim") then (if rsearch R_udimPattern s then s2b "OK" else s2b "NOMATCH")
        else s2b "BADARGS"
      | _ => s2b "BADARGS"
      end
    else if beq op (s2b "fastwalk") then
      (* nworkers cap fuel parents skips *)
      match rest with
      | [nw; cap; fuel; parents; skips] =>
        let ps := argzl parents in
        let root := fw_tree (List.length ps) ps (map (Nat.eqb 49) skips) 0 in
        fw_verdict (explore (Z.to_nat (argz fuel)) GenFastwalk.coordinator (Z.to_nat (argz nw)) (Z.to_nat (argz cap)) root)
      | _ => s2b "BADARGS"
      end
    else s2b "BADOP"
  | [] => s2b "BADOP"
  end.
