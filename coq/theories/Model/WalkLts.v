(** The recursive walk of cmd/seqls (manager.go loadRecursive over fastwalk) as a
    transition system in which ANY interleaving of the directory readers is a run.

    [Seqls.walk_entries] visits the tree depth first.  The real walker reads different
    directories concurrently: the entries of one directory are handled in order by one
    worker, directories are handled in any order, and every look-up-and-insert into the
    cache of link targets is atomic (it is done under a mutex).  Here one step handles ONE
    entry of ONE directory that is being read, chosen freely among all the directories
    being read; what the step does to the cache and which job it emits is, clause by
    clause, what [walk_entries] does for that entry.  No proofs in this file
    (Proofs/WalkSched.v). *)
From GFS Require Import Base Path Listing Seqls.
Local Open Scope nat_scope.

(** a unit of pending work: the entries of one directory that are still to be handled,
    with the spelled path of that directory *)
Record work : Type := mkWork { w_spelled : bytes; w_ents : list tnode }.

(** [ws_followed] is ghost state: the link targets for which a work item was created
    (the links that were traversed, not only listed), latest first.  No step reads it. *)
Record wstate : Type := mkWS {
  ws_pending : list work;
  ws_cache : list bytes;
  ws_jobs : list (bytes * bytes);
  ws_followed : list bytes
}.

(** what handling one entry produces *)
Record wout : Type := mkWO {
  wo_new : list work;                 (* at most one new directory to read *)
  wo_cache : list bytes;
  wo_jobs : list (bytes * bytes);     (* at most one job *)
  wo_followed : list bytes
}.

(** one entry [n] of the directory spelled [sp], with the cache [cache]: the clauses of
    [walk_entries], the recursive call replaced by a new work item *)
Definition wnode (t : tree) (all : bool) (sp : bytes) (n : tnode) (cache : list bytes) : wout :=
  let sp' := join_path sp (tn_name n) in
  match tn_kind n with
  | KDir =>
    if negb all && hidden_dir sp' then mkWO [] cache [] []
    else
      let real := real_join (tn_parent n) (tn_name n) in
      mkWO [mkWork sp' (children t real)] cache [(sp', real)] []
  | KLinkDir =>
    let tgt := tn_target n in
    let first := negb (existsb (beq tgt) cache) in
    let cache' := if first then tgt :: cache else cache in
    if negb all && hidden_dir sp' then mkWO [] cache' [] []
    else if first then mkWO [mkWork sp' (children t tgt)] cache' [(sp', tgt)] [tgt]
    else mkWO [] cache' [(sp', tgt)] []
  | _ => mkWO [] cache [] []
  end.

(** as [walk_root]: a skipped root does nothing; otherwise the root is a job and its
    entries are the one directory being read *)
Definition winit (t : tree) (all : bool) (root real : bytes) (cache : list bytes) : wstate :=
  if negb all && hidden_dir root then mkWS [] cache [] []
  else mkWS [mkWork root (children t real)] cache [(root, real)] [].

(** One step.  [wstep_entry]: any pending item (any position) that has a first entry
    handles it; the rest of its entries stay pending, the new directory (if any) becomes
    pending too.  [wstep_drop]: a directory that was read to the end goes away. *)
Inductive wstep (t : tree) (all : bool) : wstate -> wstate -> Prop :=
| wstep_entry : forall pre post sp n rest c j f,
    wstep t all
      (mkWS (pre ++ mkWork sp (n :: rest) :: post) c j f)
      (mkWS (wo_new (wnode t all sp n c) ++ pre ++ mkWork sp rest :: post)
            (wo_cache (wnode t all sp n c))
            (j ++ wo_jobs (wnode t all sp n c))
            (wo_followed (wnode t all sp n c) ++ f))
| wstep_drop : forall pre post sp c j f,
    wstep t all (mkWS (pre ++ mkWork sp [] :: post) c j f) (mkWS (pre ++ post) c j f).

Definition wfinal (s : wstate) : Prop := ws_pending s = [].

Inductive wsteps (t : tree) (all : bool) : wstate -> wstate -> Prop :=
| wsteps_refl : forall s, wsteps t all s s
| wsteps_step : forall s1 s2 s3, wstep t all s1 s2 -> wsteps t all s2 s3 -> wsteps t all s1 s3.

(** runs of a given length *)
Inductive wstepsn (t : tree) (all : bool) : nat -> wstate -> wstate -> Prop :=
| wstepsn_O : forall s, wstepsn t all 0 s s
| wstepsn_S : forall k s1 s2 s3, wstep t all s1 s2 -> wstepsn t all k s2 s3 -> wstepsn t all (S k) s1 s3.

(* ------------------------------------------------------------------ *)
(** * An executable run driven by a schedule *)

(** advance the pending item at position [k] *)
Definition wadvance (t : tree) (all : bool) (k : nat) (s : wstate) : wstate :=
  let pre := firstn k (ws_pending s) in
  match skipn k (ws_pending s) with
  | [] => s
  | w :: post =>
    match w_ents w with
    | [] => mkWS (pre ++ post) (ws_cache s) (ws_jobs s) (ws_followed s)
    | n :: rest =>
      let o := wnode t all (w_spelled w) n (ws_cache s) in
      mkWS (wo_new o ++ pre ++ mkWork (w_spelled w) rest :: post)
           (wo_cache o) (ws_jobs s ++ wo_jobs o) (wo_followed o ++ ws_followed s)
    end
  end.

(** the k-th element of [choose], modulo the number of pending items, picks the item that
    moves at the k-th step; an exhausted schedule picks the item at the head (the depth
    first order, new items being put at the head) *)
Fixpoint wrun (fuel : nat) (t : tree) (all : bool) (choose : list nat) (s : wstate) : wstate :=
  match fuel with
  | O => s
  | S fuel' =>
    match ws_pending s with
    | [] => s
    | _ :: _ =>
      let k := Nat.modulo (hd 0 choose) (List.length (ws_pending s)) in
      wrun fuel' t all (tl choose) (wadvance t all k s)
    end
  end.

Definition wfinalb (s : wstate) : bool := match ws_pending s with [] => true | _ => false end.
