(** Model of FramesToFrameRange (/repo/fileseq.go). *)
From GFS Require Import Base Dec Pad.
Local Open Scope Z_scope.

(** sort.Ints: any sorting algorithm gives the same list *)
Fixpoint zinsert (x : Z) (l : list Z) : list Z :=
  match l with
  | [] => [x]
  | y :: r => if x <=? y then x :: l else y :: zinsert x r
  end.
Definition zsort (l : list Z) : list Z := fold_right zinsert [] l.

(** the scan [for i = 0; i < len-1; i++ { if frames[i+1]-frames[i] != step {break} }]:
    the final value of i *)
Fixpoint run_pairs (step : Z) (l : list Z) : nat :=
  match l with
  | a :: ((b :: _) as r) => if b - a =? step then S (run_pairs step r) else O
  | _ => O
  end.

Definition sep_if_nonempty (buf : bytes) : bytes :=
  match buf with [] => [] | _ => buf ++ [c_comma] end.

Fixpoint f2r_loop (fuel : nat) (frames : list Z) (zfill : Z) (buf : bytes) : outcome bytes :=
  match fuel with
  | O => OutOfFuel
  | S fuel' =>
    match frames with
    | [] => Ok buf
    | [a] => Ok (sep_if_nonempty buf ++ zfill_int a zfill)
    | [a; b] => Ok (sep_if_nonempty (sep_if_nonempty buf ++ zfill_int a zfill) ++ zfill_int b zfill)
    | f0 :: f1 :: _ =>
      let step := f1 - f0 in
      let i := run_pairs step frames in
      let buf := sep_if_nonempty buf in
      match i with
      | O => f2r_loop fuel' (skipn 1 frames) zfill (buf ++ zfill_int f0 zfill)
      | _ =>
        let better :=
            match i, frames with
            | 1%nat, _ :: g1 :: g2 :: g3 :: _ => (g2 - g1 =? g3 - g2)
            | _, _ => false
            end in
        if better then f2r_loop fuel' (skipn 1 frames) zfill (buf ++ zfill_int f0 zfill)
        else
          let last := nth i frames 0 in
          let buf := buf ++ zfill_int f0 zfill ++ c_minus :: zfill_int last zfill in
          let buf := if (step >? 1) || (step <? -1) then buf ++ c_x :: itoa step else buf in
          f2r_loop fuel' (skipn (S i) frames) zfill buf
      end
    end
  end.

(** FramesToFrameRange *)
Definition frames_to_frame_range (frames : list Z) (sorted : bool) (zfill : Z) : outcome bytes :=
  match frames with
  | [] => Ok []
  | [a] => Ok (zfill_int a zfill)
  | _ =>
    let fr := if sorted then zsort frames else frames in
    f2r_loop (S (List.length fr)) fr zfill []
  end.
