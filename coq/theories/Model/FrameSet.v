(** Model of /repo/frameset.go and the range-string half of fileseq.go. *)
From GFS Require Import Base Dec Regex GenRegex GenPadTables Ranges Pad.
Local Open Scope Z_scope.

Record frameset : Type := mkFS { fs_range : bytes; fs_blocks : iranges }.

(** error kinds (only error / no error is compared with the implementation) *)
Definition E_PARSE : nat := 1.    (* component matches no range pattern *)
Definition E_INT : nat := 2.      (* number does not fit an int *)
Definition E_ZERO : nat := 3.     (* zero step *)
Definition E_MOD : nat := 4.
Definition E_SIZE : nat := 5.

(** strings.Replace(frange, k, "", -1) for the keys of the default mapper *)
Definition strip_key (s : bytes) (k : bytes) : bytes :=
  match k with
  | [c] => remove_byte c s
  | _ => s            (* gfsgen only emits single-byte keys *)
  end.

Definition strip_pad_and_space (s : bytes) : bytes :=
  remove_byte c_space (fold_left strip_key all_chars s).

(** the inner loop over rangePatterns has no break: the last match wins *)
Definition match_part (part : bytes) : option (list bytes) :=
  let m0 := submatches R_rangePatterns_0 part N_rangePatterns_0 in
  let m1 := submatches R_rangePatterns_1 part N_rangePatterns_1 in
  let m2 := submatches R_rangePatterns_2 part N_rangePatterns_2 in
  match m2 with
  | Some x => Some x
  | None => match m1 with
            | Some x => Some x
            | None => m0
            end
  end.

Fixpoint match_parts (parts : list bytes) : outcome (list (list bytes)) :=
  match parts with
  | [] => Ok []
  | p :: r =>
    match match_part p with
    | None => Err E_PARSE
    | Some mt => do rest <- match_parts r; Ok (mt :: rest)
    end
  end.

(** frameRangeMatches *)
Definition frame_range_matches (frange : bytes) : outcome (list (list bytes)) :=
  match_parts (split_on c_comma (strip_pad_and_space frange)).

Definition parse_int (s : bytes) : outcome Z :=
  match atoi s with Some z => Ok z | None => Err E_INT end.

(** the y modifier: every value of start..end (own direction) except every
    chunk-th, each appended on its own *)
Fixpoint fill_loop (vals : list Z) (skip chunk inc : Z) (bl : iranges) : iranges :=
  match vals with
  | [] => bl
  | v :: r =>
    if v =? skip then fill_loop r (skip + chunk * inc) chunk inc bl
    else fill_loop r skip chunk inc (append_unique bl v v 1)
  end.

(** the : modifier: chunk, chunk-1, ..., 1 *)
Fixpoint stagger_loop (n : nat) (start end_ : Z) (bl : iranges) : iranges :=
  match n with
  | O => bl
  | S n' => stagger_loop n' start end_ (append_unique bl start end_ (Z.of_nat n))
  end.

(** handleMatch *)
Definition handle_match (bl : iranges) (mt : list bytes) : outcome iranges :=
  match mt with
  | [a] =>
    do f <- parse_int a;
    Ok (append_unique bl f f 1)
  | [a; b] =>
    do s <- parse_int a;
    do e <- parse_int b;
    Ok (append_unique bl s e (if s >? e then -1 else 1))
  | [a; b; md; c] =>
    do chunk <- parse_int c;
    if chunk =? 0 then Err E_ZERO else
    do s <- parse_int a;
    do e <- parse_int b;
    match md with
    | [120%nat] => Ok (append_unique bl s e chunk)
    | [121%nat] =>
      let chunk := Z.abs chunk in
      let inc := if s >? e then -1 else 1 in
      Ok (fill_loop (ir_iter (new_range s e inc)) s chunk inc bl)
    | [58%nat] =>
      let chunk := Z.abs chunk in
      Ok (stagger_loop (Z.to_nat chunk) s e bl)
    | _ => Err E_MOD
    end
  | _ => Err E_SIZE
  end.

Fixpoint handle_matches (bl : iranges) (ms : list (list bytes)) : outcome iranges :=
  match ms with
  | [] => Ok bl
  | mt :: r => do bl' <- handle_match bl mt; handle_matches bl' r
  end.

(** NewFrameSet *)
Definition new_frameset (frange : bytes) : outcome frameset :=
  do ms <- frame_range_matches frange;
  do bl <- handle_matches [] ms;
  Ok (mkFS frange bl).

(** IsFrameRange *)
Definition is_frame_range (frange : bytes) : bool := is_ok (new_frameset frange).

(** accessors *)
Definition fs_len (f : frameset) : Z := rs_len (fs_blocks f).
Definition fs_index (f : frameset) (v : Z) : Z := rs_index (fs_blocks f) v.
Definition fs_frame (f : frameset) (i : Z) : option Z := rs_value (fs_blocks f) i.
Definition fs_frames (f : frameset) : list Z := rs_iter (fs_blocks f).
Definition fs_has_frame (f : frameset) (v : Z) : bool := rs_contains (fs_blocks f) v.
Definition fs_start (f : frameset) : Z := rs_start (fs_blocks f).
Definition fs_end (f : frameset) : Z := rs_end (fs_blocks f).
Definition fs_frame_range_padded (f : frameset) (pad : Z) : bytes := pad_frame_range (fs_range f) pad.

Definition fs_invert (f : frameset) : frameset :=
  let bl := normalized true (fs_blocks f) in mkFS (rs_string itoa bl) bl.
Definition fs_normalize (f : frameset) : frameset :=
  let bl := normalized false (fs_blocks f) in mkFS (rs_string itoa bl) bl.
Definition fs_inverted_frame_range (f : frameset) (pad : Z) : bytes :=
  let s := rs_string itoa (normalized true (fs_blocks f)) in
  if pad >? 1 then pad_frame_range s pad else s.
