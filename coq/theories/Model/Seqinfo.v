(** Model of cmd/seqinfo: the option pipeline of [parse] and the collection of
    the concurrent results into a map keyed by the original pattern. *)
From GFS Require Import Base Dec Regex GenRegex GenPadTables Ranges Pad FrameSet Path Seq.
Local Open Scope Z_scope.

Record sopts : Type := mkSO {
  so_dir : bytes; so_base : bytes; so_range : bytes; so_pad : bytes; so_ext : bytes;   (* "" = not given *)
  so_format : bool;                 (* --format given; the reformatted string is an oracle input *)
  so_inverted : bool; so_hash1 : bool;
  so_index : option Z; so_frame : option Z }.

Record sresult : Type := mkSR {
  sr_error : bool; sr_string : bytes; sr_dir : bytes; sr_base : bytes; sr_range : bytes;
  sr_pad : bytes; sr_ext : bytes; sr_start : Z; sr_end : Z; sr_len : Z; sr_zfill : Z; sr_hasrange : bool }.

Definition err_result (s : bytes) : sresult := mkSR true s [] [] [] [] [] 0 0 0 0 false.

Definition fill_result (q : fileseq) : sresult :=
  mkSR false (q_string q) (q_dir q) (q_base q) (q_frange q) (q_pad q) (q_ext q)
       (q_start q) (q_end q) (q_len q) (q_zfill q) (match q_fs q with Some _ => true | None => false end).

Definition nonempty (s : bytes) : bool := match s with [] => false | _ => true end.

(** re-parse of a frame path followed by SetFrameRange(Itoa(Start()));
    [None] = the path does not parse (reported as the entry's error) *)
Definition reparse_frame (path : bytes) (st : pstyle) : outcome (option fileseq) :=
  match new_fileseq path st with
  | Ok q => Ok (Some (fst (set_frame_range q (itoa (q_start q)))))
  | Err _ => Ok None
  | Panic n => Panic n
  | OutOfFuel => OutOfFuel
  end.

(** parse: [refmt] is what FileSequence.Format returned for --format
    (None = template error), supplied by the harness from the library itself *)
Definition seqinfo_parse (pattern : bytes) (o : sopts) (refmt : option bytes) : outcome sresult :=
  let st := if so_hash1 o then Hash1 else Hash4 in
  match new_fileseq pattern st with
  | Ok q0 =>
    let after_format :=
        if so_format o then
          match refmt with
          | None => None
          | Some s => match new_fileseq s st with Ok q => Some q | _ => None end
          end
        else Some q0 in
    match after_format with
    | None => Ok (err_result pattern)
    | Some q1 =>
      let q2 := if nonempty (so_dir o) then set_dirname q1 (so_dir o) else q1 in
      let q3 := if nonempty (so_base o) then set_basename q2 (so_base o) else q2 in
      let q4 := if nonempty (so_ext o) then set_ext q3 (so_ext o) else q3 in
      let q5 := if nonempty (so_pad o) then set_padding q4 (so_pad o) else q4 in
      let r6 := if nonempty (so_range o) then set_frame_range q5 (so_range o) else (q5, true) in
      if negb (snd r6) then Ok (err_result pattern) else
      let q6 := fst r6 in
      let q7 :=
          if so_inverted o then
            match q_fs q6 with
            | None => set_frameset q6 None        (* InvertedFrameRange() = "" *)
            | Some f =>
              match fs_inverted_frame_range f 0 with
              | [] => set_frameset q6 None
              | fr => fst (set_frame_range q6 fr)
              end
            end
          else q6 in
      let r8 :=
          match so_index o with
          | None => Ok (Some q7)
          | Some i =>
            match q_index q7 i with
            | [] => Ok None
            | path => reparse_frame path st
            end
          end in
      do o8 <- r8;
      match o8 with
      | None => Ok (err_result pattern)
      | Some q8 =>
        do o9 <- match so_frame o with
                 | None => Ok (Some q8)
                 | Some f => reparse_frame (q_frame_int q8 f) st
                 end;
        match o9 with
        | None => Ok (err_result pattern)
        | Some q9 => Ok (fill_result q9)
        end
      end
    end
  | Err _ => Ok (err_result pattern)
  | Panic n => Panic n
  | OutOfFuel => OutOfFuel
  end.

(** The same pipeline as a list of stages, in the order gfsgen translates from func parse
    (Gen/GenSeqinfo.v); [None] = the entry carries an error.  [seqinfo_run] with the reference
    order is proved equal to [seqinfo_parse] (Proofs/SeqinfoProofs.v). *)
Inductive stage : Type :=
| StFormat | StDirname | StBasename | StExt | StPadding | StRange | StInverted | StIndex | StFrame.

Definition reference_pipeline : list stage :=
  [StFormat; StDirname; StBasename; StExt; StPadding; StRange; StInverted; StIndex; StFrame].

Definition run_stage (st : pstyle) (o : sopts) (refmt : option bytes) (s : stage) (q : fileseq)
  : outcome (option fileseq) :=
  match s with
  | StFormat =>
    if so_format o then
      match refmt with
      | None => Ok None
      | Some s' => match new_fileseq s' st with Ok q' => Ok (Some q') | _ => Ok None end
      end
    else Ok (Some q)
  | StDirname => Ok (Some (if nonempty (so_dir o) then set_dirname q (so_dir o) else q))
  | StBasename => Ok (Some (if nonempty (so_base o) then set_basename q (so_base o) else q))
  | StExt => Ok (Some (if nonempty (so_ext o) then set_ext q (so_ext o) else q))
  | StPadding => Ok (Some (if nonempty (so_pad o) then set_padding q (so_pad o) else q))
  | StRange =>
    if nonempty (so_range o) then
      let r := set_frame_range q (so_range o) in
      if snd r then Ok (Some (fst r)) else Ok None
    else Ok (Some q)
  | StInverted =>
    Ok (Some (if so_inverted o then
                match q_fs q with
                | None => set_frameset q None
                | Some f =>
                  match fs_inverted_frame_range f 0 with
                  | [] => set_frameset q None
                  | fr => fst (set_frame_range q fr)
                  end
                end
              else q))
  | StIndex =>
    match so_index o with
    | None => Ok (Some q)
    | Some i =>
      match q_index q i with
      | [] => Ok None
      | path => reparse_frame path st
      end
    end
  | StFrame =>
    match so_frame o with
    | None => Ok (Some q)
    | Some f => reparse_frame (q_frame_int q f) st
    end
  end.

Fixpoint run_stages (st : pstyle) (o : sopts) (refmt : option bytes) (pl : list stage) (q : fileseq)
  : outcome (option fileseq) :=
  match pl with
  | [] => Ok (Some q)
  | s :: rest =>
    do x <- run_stage st o refmt s q;
    match x with
    | None => Ok None
    | Some q' => run_stages st o refmt rest q'
    end
  end.

Definition seqinfo_run (pl : list stage) (pattern : bytes) (o : sopts) (refmt : option bytes) : outcome sresult :=
  let st := if so_hash1 o then Hash1 else Hash4 in
  match new_fileseq pattern st with
  | Ok q0 =>
    do x <- run_stages st o refmt pl q0;
    Ok (match x with None => err_result pattern | Some q => fill_result q end)
  | Err _ => Ok (err_result pattern)
  | Panic n => Panic n
  | OutOfFuel => OutOfFuel
  end.

(** collection: results arrive in any order and are stored under their pattern *)
Fixpoint map_set {A} (m : list (bytes * A)) (k : bytes) (v : A) : list (bytes * A) :=
  match m with
  | [] => [(k, v)]
  | (k', v') :: r => if beq k' k then (k, v) :: r else (k', v') :: map_set r k v
  end.
Fixpoint map_get {A} (m : list (bytes * A)) (k : bytes) : option A :=
  match m with
  | [] => None
  | (k', v) :: r => if beq k' k then Some v else map_get r k
  end.
Definition collect {A} (arrivals : list (bytes * A)) : list (bytes * A) :=
  fold_left (fun m kv => map_set m (fst kv) (snd kv)) arrivals [].
