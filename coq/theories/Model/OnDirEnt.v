(** What fastwalk does with the callback's answer: [walker.onDirEnt] (called for every
    directory entry) and [walker.walk] (called for every directory that is about to be
    read) as decision trees.  gfsgen translates the two functions from
    cmd/seqls/internal/fastwalk/fastwalk.go on every run (Gen/GenOnDirEnt.v); this file is
    the vocabulary and its interpreter.  No proofs (Proofs/OnDirEntProofs.v). *)
From GFS Require Import Base Path Listing Seqls WalkLts WalkFn.

Inductive ocond : Type :=
| OTypIsDir          (* typ == os.ModeDir *)
| OTypIsSymlink      (* typ == os.ModeSymlink *)
| OErrIsTraverse     (* err == TraverseLink *)
| OErrIsSkipDir      (* err == filepath.SkipDir *)
| OErrIsNil          (* err == nil *)
| ORunCallback.      (* runUserCallback *)

Inductive otree : Type :=
| OIf (c : ocond) (a b : otree)
| OBind (k : otree)                      (* joined := dirName + "/" + baseName *)
| OEnqueue (callback_done : bool) (k : otree)   (* w.enqueue(walkItem{dir: joined[, callbackDone: true]}) *)
| OCall (k : otree)                      (* err := w.fn(path, typ) *)
| ORetNil                                (* return nil *)
| ORetErr                                (* return err *)
| OReadDir.                              (* return readDir(root, w.onDirEnt) *)

(** what the callback may answer: the four answers of the seqls callback, or a real error *)
Inductive cbans : Type := CNil | CTraverse | CSkipFiles | CSkipDir | CError.

Definition cbans_of (a : wanswer) : cbans :=
  match a with ANil => CNil | ATraverse => CTraverse | ASkipFiles => CSkipFiles | ASkipDir => CSkipDir end.

(** how the function returns *)
Inductive oret : Type :=
| RetNil                      (* nil: the caller goes on *)
| RetErr (e : cbans)          (* a non-nil error value handed to the caller *)
| RetReadDir                  (* the directory is read: its entries go through onDirEnt *)
| RetUnbound.                 (* `err` used before it was assigned (not Go) *)

Record ores : Type := mkOR {
  r_called : nat;             (* how often the callback was called *)
  r_enq : list bool;          (* directories handed to the coordinator, with their callbackDone flag *)
  r_ret : oret }.

Definition ret_err (e : option cbans) : oret :=
  match e with
  | None => RetUnbound
  | Some CNil => RetNil         (* `return err` with err == nil *)
  | Some e => RetErr e
  end.

Fixpoint orun (t : otree) (typ : wtyp) (run : bool) (ans : cbans)
         (err : option cbans) (called : nat) (enq : list bool) : ores :=
  match t with
  | OIf c a b =>
    let v := match c with
             | OTypIsDir => match typ with TDir => true | _ => false end
             | OTypIsSymlink => match typ with TSymlink => true | _ => false end
             | OErrIsTraverse => match err with Some CTraverse => true | _ => false end
             | OErrIsSkipDir => match err with Some CSkipDir => true | _ => false end
             | OErrIsNil => match err with Some CNil => true | _ => false end
             | ORunCallback => run
             end in
    orun (if v then a else b) typ run ans err called enq
  | OBind k => orun k typ run ans err called enq
  | OEnqueue cd k => orun k typ run ans err called (enq ++ [cd])
  | OCall k => orun k typ run ans (Some ans) (S called) enq
  | ORetNil => mkOR called enq RetNil
  | ORetErr => mkOR called enq (ret_err err)
  | OReadDir => mkOR called enq RetReadDir
  end.

Definition run_tree (t : otree) (typ : wtyp) (run : bool) (ans : cbans) : ores := orun t typ run ans None 0 [].

(** the two functions as they were when the model was written *)
Definition reference_ondirent : otree :=
  OBind (OIf OTypIsDir (OEnqueue false ORetNil)
           (OCall (OIf OTypIsSymlink
                      (OIf OErrIsTraverse (OEnqueue true ORetNil) (OIf OErrIsSkipDir ORetNil ORetErr))
                      ORetErr))).
Definition reference_walk : otree :=
  OIf ORunCallback (OCall (OIf OErrIsSkipDir ORetNil (OIf OErrIsNil OReadDir ORetErr))) OReadDir.
