(** Basic vocabulary shared by the whole development: bytes, byte strings,
    outcomes of Go operations, Go [int] arithmetic on [Z]. *)
From Coq Require Export List ZArith Bool Lia Arith String Ascii.
Export ListNotations.

Definition byte := nat.
Definition bytes := list byte.

(** [s2b "abc"] is the byte string of a Coq string literal (ASCII only). *)
Fixpoint s2b (s : string) : bytes :=
  match s with
  | EmptyString => []
  | String c r => nat_of_ascii c :: s2b r
  end.

(** The result of a Go operation.  [Panic n] is a run-time panic at the
    guarded site number [n]; [OutOfFuel] is the model's own artefact and
    every theorem excludes it explicitly. *)
Inductive outcome (A : Type) : Type :=
| Ok (a : A)
| Err (e : nat)
| Panic (site : nat)
| OutOfFuel.
Arguments Ok {A} a.
Arguments Err {A} e.
Arguments Panic {A} site.
Arguments OutOfFuel {A}.

Definition bind {A B} (x : outcome A) (f : A -> outcome B) : outcome B :=
  match x with
  | Ok a => f a
  | Err e => Err e
  | Panic n => Panic n
  | OutOfFuel => OutOfFuel
  end.
Notation "'do' x <- e ; f" := (bind e (fun x => f))
  (at level 200, x name, e at level 100, f at level 200).

Definition is_ok {A} (x : outcome A) : bool :=
  match x with Ok _ => true | _ => false end.
Definition is_err {A} (x : outcome A) : bool :=
  match x with Err _ => true | _ => false end.

(** Byte-string helpers. *)
Fixpoint beq (a b : bytes) : bool :=
  match a, b with
  | [], [] => true
  | x :: a', y :: b' => Nat.eqb x y && beq a' b'
  | _, _ => false
  end.

Fixpoint has_prefix (s p : bytes) : bool :=
  match p, s with
  | [], _ => true
  | x :: p', y :: s' => Nat.eqb x y && has_prefix s' p'
  | _ :: _, [] => false
  end.

Definition has_suffix (s p : bytes) : bool :=
  has_prefix (rev s) (rev p).

(** [strings.Contains s sub] *)
Fixpoint contains (s sub : bytes) : bool :=
  has_prefix s sub ||
  match s with
  | [] => false
  | _ :: s' => contains s' sub
  end.

Fixpoint repeat_bytes (p : bytes) (n : nat) : bytes :=
  match n with
  | O => []
  | S n' => p ++ repeat_bytes p n'
  end.

(** [strings.Split s ","] for a single-byte separator: never empty. *)
Fixpoint split_on (sep : byte) (s : bytes) : list bytes :=
  match s with
  | [] => [[]]
  | c :: r =>
    if Nat.eqb c sep then [] :: split_on sep r
    else match split_on sep r with
         | [] => [[c]]   (* unreachable *)
         | h :: t => (c :: h) :: t
         end
  end.

Fixpoint join_with (sep : byte) (l : list bytes) : bytes :=
  match l with
  | [] => []
  | [x] => x
  | x :: r => x ++ sep :: join_with sep r
  end.

(** remove every occurrence of one byte (strings.Replace s c "" -1) *)
Definition remove_byte (c : byte) (s : bytes) : bytes :=
  filter (fun x => negb (Nat.eqb x c)) s.

(** index of the last occurrence of a byte *)
Fixpoint last_index_from (c : byte) (s : bytes) (i : nat) (acc : option nat) : option nat :=
  match s with
  | [] => acc
  | x :: r => last_index_from c r (S i) (if Nat.eqb x c then Some i else acc)
  end.
Definition last_index (c : byte) (s : bytes) : option nat := last_index_from c s 0 None.

(** Sub-slice [s[a:b]] without bound checks (callers guard). *)
Definition slice (s : bytes) (a b : nat) : bytes := firstn (b - a) (skipn a s).

(** ASCII constants *)
Definition c_nl : byte := 10.
Definition c_space : byte := 32.
Definition c_hash : byte := 35.
Definition c_dollar : byte := 36.
Definition c_percent : byte := 37.
Definition c_plus : byte := 43.
Definition c_comma : byte := 44.
Definition c_minus : byte := 45.
Definition c_dot : byte := 46.
Definition c_slash : byte := 47.
Definition c_0 : byte := 48.
Definition c_9 : byte := 57.
Definition c_colon : byte := 58.
Definition c_at : byte := 64.
Definition c_x : byte := 120.
Definition c_y : byte := 121.

Definition is_digit (c : byte) : bool := Nat.leb 48 c && Nat.leb c 57.

(** Go [int] division and remainder truncate toward zero. *)
Definition go_div (a b : Z) : Z := Z.quot a b.
Definition go_mod (a b : Z) : Z := Z.rem a b.

(** 64-bit int bounds (only observable through strconv.Atoi). *)
Definition int_min : Z := (- 2 ^ 63)%Z.
Definition int_max : Z := (2 ^ 63 - 1)%Z.
Definition fits_int (z : Z) : bool := (int_min <=? z)%Z && (z <=? int_max)%Z.
