(** strconv.Itoa / strconv.Atoi on byte strings, built on the standard
    library's decimal conversions so that their round-trip lemmas apply. *)
From Coq Require Import DecimalZ DecimalPos DecimalNat Decimal.
From GFS Require Import Base.

Fixpoint uint_to_bytes (u : Decimal.uint) : bytes :=
  match u with
  | Decimal.Nil => []
  | Decimal.D0 r => 48 :: uint_to_bytes r
  | Decimal.D1 r => 49 :: uint_to_bytes r
  | Decimal.D2 r => 50 :: uint_to_bytes r
  | Decimal.D3 r => 51 :: uint_to_bytes r
  | Decimal.D4 r => 52 :: uint_to_bytes r
  | Decimal.D5 r => 53 :: uint_to_bytes r
  | Decimal.D6 r => 54 :: uint_to_bytes r
  | Decimal.D7 r => 55 :: uint_to_bytes r
  | Decimal.D8 r => 56 :: uint_to_bytes r
  | Decimal.D9 r => 57 :: uint_to_bytes r
  end.

(** digits only; [None] on any other byte *)
Fixpoint bytes_to_uint (s : bytes) : option Decimal.uint :=
  match s with
  | [] => Some Decimal.Nil
  | c :: r =>
    match bytes_to_uint r with
    | None => None
    | Some u =>
      match c with
      | 48 => Some (Decimal.D0 u) | 49 => Some (Decimal.D1 u)
      | 50 => Some (Decimal.D2 u) | 51 => Some (Decimal.D3 u)
      | 52 => Some (Decimal.D4 u) | 53 => Some (Decimal.D5 u)
      | 54 => Some (Decimal.D6 u) | 55 => Some (Decimal.D7 u)
      | 56 => Some (Decimal.D8 u) | 57 => Some (Decimal.D9 u)
      | _ => None
      end
    end
  end.

(** strconv.Itoa *)
Definition itoa (z : Z) : bytes :=
  match Z.to_int z with
  | Decimal.Pos u => uint_to_bytes u
  | Decimal.Neg u => c_minus :: uint_to_bytes u
  end.

(** the value of a non-empty all-digit string *)
Definition digits_value (s : bytes) : option Z :=
  match s with
  | [] => None
  | _ => match bytes_to_uint s with
         | Some u => Some (Z.of_uint u)
         | None => None
         end
  end.

(** the mathematical value of [+-]?digits+, no range check *)
Definition atoi_big (s : bytes) : option Z :=
  match s with
  | 45 :: r => option_map Z.opp (digits_value r)
  | 43 :: r => digits_value r
  | _ => digits_value s
  end.

(** strconv.Atoi: [None] on a syntax error or a value outside int64 *)
Definition atoi (s : bytes) : option Z :=
  match atoi_big s with
  | Some z => if fits_int z then Some z else None
  | None => None
  end.
