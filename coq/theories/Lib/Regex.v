(** A byte-level backtracking regular-expression matcher with capture
    groups, implementing leftmost-first (Perl / RE2) priority.  The [re]
    terms it runs are generated from /repo's pattern strings by gfsgen
    (Gen/GenRegex.v).  No proofs in this file. *)
From GFS Require Import Base.

Inductive re : Type :=
| REps
| RCls (neg : bool) (rs : list (nat * nat))   (* byte ranges, inclusive *)
| RCat (a b : re)
| RAlt (a b : re)
| RStar (greedy : bool) (a : re)
| ROpt (greedy : bool) (a : re)
| RGrp (n : nat) (a : re)
| RBot                                        (* \A *)
| REot.                                       (* \z *)

(** capture table: group number -> (start, end) absolute offsets *)
Definition caps := list (nat * (nat * nat)).

Fixpoint in_ranges (c : byte) (rs : list (nat * nat)) : bool :=
  match rs with
  | [] => false
  | (lo, hi) :: r => (Nat.leb lo c && Nat.leb c hi) || in_ranges c r
  end.

Definition cls_match (neg : bool) (rs : list (nat * nat)) (c : byte) : bool :=
  if neg then negb (in_ranges c rs) else in_ranges c rs.

(** continuation: position, remaining input, captures *)
Definition K := nat -> bytes -> caps -> option caps.

(** the star loop, parameterised by the matcher of its body.  An iteration
    that consumes nothing is cut; fuel = remaining length + 1 suffices. *)
Definition star_loop (body : nat -> bytes -> caps -> K -> option caps)
           (greedy : bool) (k : K) : nat -> nat -> bytes -> caps -> option caps :=
  fix loop (fuel : nat) (pos : nat) (s : bytes) (cs : caps) : option caps :=
    match fuel with
    | O => None
    | S f =>
      if greedy then
        match body pos s cs
                   (fun p' s' cs' => if Nat.eqb p' pos then None else loop f p' s' cs') with
        | Some r => Some r
        | None => k pos s cs
        end
      else
        match k pos s cs with
        | Some r => Some r
        | None => body pos s cs
                       (fun p' s' cs' => if Nat.eqb p' pos then None else loop f p' s' cs')
        end
    end.

Fixpoint m (r : re) (pos : nat) (s : bytes) (cs : caps) (k : K) : option caps :=
  match r with
  | REps => k pos s cs
  | RCls neg rs =>
    match s with
    | c :: s' => if cls_match neg rs c then k (S pos) s' cs else None
    | [] => None
    end
  | RCat a b => m a pos s cs (fun p' s' cs' => m b p' s' cs' k)
  | RAlt a b =>
    match m a pos s cs k with
    | Some r => Some r
    | None => m b pos s cs k
    end
  | RStar g a => star_loop (m a) g k (S (List.length s)) pos s cs
  | ROpt g a =>
    if g then
      match m a pos s cs k with
      | Some r => Some r
      | None => k pos s cs
      end
    else
      match k pos s cs with
      | Some r => Some r
      | None => m a pos s cs k
      end
  | RGrp n a => m a pos s cs (fun p' s' cs' => k p' s' ((n, (pos, p')) :: cs'))
  | RBot => if Nat.eqb pos 0 then k pos s cs else None
  | REot => match s with [] => k pos s cs | _ => None end
  end.

(** the most recent binding of a group *)
Fixpoint cap_lookup (n : nat) (cs : caps) : option (nat * nat) :=
  match cs with
  | [] => None
  | (g, se) :: r => if Nat.eqb g n then Some se else cap_lookup n r
  end.

(** Go's FindStringSubmatch element for group [n]: "" when unset *)
Definition cap_get (s : bytes) (cs : caps) (n : nat) : bytes :=
  match cap_lookup n cs with
  | Some (a, b) => slice s a b
  | None => []
  end.

(** match attempted at offset 0 only (all patterns used with
    FindStringSubmatch start with ^) *)
Definition rmatch (r : re) (s : bytes) : option caps :=
  m r 0 s [] (fun _ _ cs => Some cs).

(** unanchored search, boolean (regexp.MatchString) *)
Fixpoint rsearch_from (r : re) (pos : nat) (s : bytes) : bool :=
  match m r pos s [] (fun _ _ cs => Some cs) with
  | Some _ => true
  | None => match s with
            | [] => false
            | _ :: s' => rsearch_from r (S pos) s'
            end
  end.
Definition rsearch (r : re) (s : bytes) : bool := rsearch_from r 0 s.

(** [submatches r s n] = FindStringSubmatch(s)[1..n], or None *)
Definition submatches (r : re) (s : bytes) (n : nat) : option (list bytes) :=
  match rmatch r s with
  | Some cs => Some (map (fun i => cap_get s cs (S i)) (seq 0 n))
  | None => None
  end.
