(** Declarative vocabulary for the range containers (C13, C02, C08):
    what a range enumerates, when a range / block list is well formed.
    Written against the record only, never against the accessors. *)
From GFS Require Import Base Ranges.
Local Open Scope Z_scope.

(** the step is non-zero and its sign agrees with the direction start -> end
    (a one-value range start = end may carry any non-zero step) *)
Definition wf (r : irange) : Prop :=
  (r_start r < r_end r /\ 0 < r_step r) \/
  (r_start r > r_end r /\ r_step r < 0) \/
  (r_start r = r_end r /\ r_step r <> 0).

(** number of values start, start+step, ... not past end *)
Definition enum_count (r : irange) : nat :=
  Z.to_nat (Z.abs (r_end r - r_start r) / Z.abs (r_step r) + 1).

(** start, start+step, start+2*step, ... up to the last value not past end *)
Definition enum (r : irange) : list Z :=
  map (fun i => r_start r + r_step r * Z.of_nat i) (seq 0 (enum_count r)).

(** [v] lies between start and end (inclusive) on the grid of the step *)
Definition on_grid (r : irange) (v : Z) : Prop :=
  exists k, 0 <= k /\ v = r_start r + r_step r * k /\
            ((r_start r <= v <= r_end r) \/ (r_end r <= v <= r_start r)).

(** all values of a block list, block after block *)
Definition enum_all (bl : iranges) : list Z := flat_map enum bl.

(** well-formed block list: well-formed blocks, no value twice *)
Definition WF (bl : iranges) : Prop := Forall wf bl /\ NoDup (enum_all bl).

(** first position of [v] in [l], or -1 *)
Fixpoint position (v : Z) (l : list Z) : Z :=
  match l with
  | [] => -1
  | x :: r => if x =? v then 0 else
              let p := position v r in if p <? 0 then -1 else p + 1
  end.

Definition lmin (l : list Z) (d : Z) : Z := fold_left Z.min l d.
Definition lmax (l : list Z) (d : Z) : Z := fold_left Z.max l d.
