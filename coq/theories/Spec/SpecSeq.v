(** The domain of C03: when is the concatenation dir ++ base ++ range ++ pad ++ ext
    unambiguous.  Boolean predicates, written without the regular expressions. *)
From GFS Require Import Base SpecRange.
Local Open Scope nat_scope.

Definition in_range_class (c : byte) : bool :=
  is_digit c || Nat.eqb c 45 || Nat.eqb c 44 || Nat.eqb c 58 || Nat.eqb c 120 || Nat.eqb c 121.

(** the five pad token forms *)
Definition all_hash_at (p : bytes) : bool := forallb (fun c => Nat.eqb c 35 || Nat.eqb c 64) p.
Definition is_printf_token (p : bytes) : bool :=
  match p with
  | 37 :: r => match rev r with
               | 100 :: ds => forallb is_digit ds
               | _ => false
               end
  | _ => false
  end.
Definition is_houdini_token (p : bytes) : bool :=
  match p with
  | 36 :: 70 :: ds => forallb is_digit ds
  | _ => false
  end.
Definition udim1 : bytes := s2b "<UDIM>".
Definition udim2 : bytes := s2b "%(UDIM)d".
Definition is_pad_token (p : bytes) : bool :=
  match p with
  | [] => false
  | _ => all_hash_at p || is_printf_token p || is_houdini_token p || beq p udim1 || beq p udim2
  end.

(** does a pad token start at the head of [s]?  (prefix test) *)
Fixpoint skip_digits (s : bytes) : bytes :=
  match s with
  | c :: r => if is_digit c then skip_digits r else s
  | [] => []
  end.
Definition token_starts (s : bytes) : bool :=
  match s with
  | 35 :: _ | 64 :: _ => true
  | 37 :: r => match skip_digits r with 100 :: _ => true | _ => has_prefix s udim2 end
  | 36 :: 70 :: _ => true
  | 60 :: _ => has_prefix s udim1
  | _ => false
  end.
(** no pad token anywhere in [s] *)
Fixpoint no_token (s : bytes) : bool :=
  match s with
  | [] => true
  | _ :: r => negb (token_starts s) && no_token r
  end.

(** the maximal suffix made of range-class bytes holds no digit and no '-':
    the tail cannot be read as the beginning of a frame range *)
Fixpoint tail_ok_rev (rs : bytes) : bool :=
  match rs with
  | [] => true
  | c :: r => if is_digit c || Nat.eqb c 45 then false
              else if in_range_class c then tail_ok_rev r
              else true
  end.
Definition tail_ok (name : bytes) : bool := tail_ok_rev (rev name).

Definition no_byte (b : byte) (s : bytes) : bool := negb (existsb (Nat.eqb b) s).

Definition dir_ok (d : bytes) : bool :=
  match rev d with [] => true | c :: _ => Nat.eqb c 47 end.

(** range: empty, or a string of the grammar as it stands (no blanks, no pad
    characters) that denotes a frame list *)
Definition range_ok (r : bytes) : bool :=
  match r with
  | [] => true
  | _ => beq (strip r) r && match spec_frames r with Some _ => true | None => false end
  end.

Definition ext_ok (e : bytes) : bool :=
  match e with
  | [] => true
  | c :: _ => Nat.eqb c 46 && no_byte 10 e
  end.

Definition unambiguous (d b r p e : bytes) : bool :=
  dir_ok d && no_byte 47 b && no_byte 10 (d ++ b) && no_token (d ++ b) && tail_ok (d ++ b)
  && range_ok r && is_pad_token p && ext_ok e.
