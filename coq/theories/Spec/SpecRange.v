(** The documented frame-range shorthand, written independently of the
    implementation's regular expressions and range containers: a hand-written
    recursive-descent recogniser and a direct expansion to frame lists. *)
From GFS Require Import Base.
Local Open Scope Z_scope.

Inductive comp : Type :=
| CSingle (a : Z)
| CRange (a b : Z)
| CStep (a b : Z) (md : byte) (n : Z).

(** embedded spaces and the pad characters '#', '@' are ignored *)
Definition ignored (c : byte) : bool := Nat.eqb c 32 || Nat.eqb c 35 || Nat.eqb c 64.
Definition strip (s : bytes) : bytes := filter (fun c => negb (ignored c)) s.

(** digits, most significant first, accumulated left to right *)
Fixpoint read_digits (s : bytes) (acc : Z) (n : nat) : Z * nat * bytes :=
  match s with
  | c :: r => if is_digit c then read_digits r (acc * 10 + Z.of_nat (c - 48)) (S n) else (acc, n, s)
  | [] => (acc, n, s)
  end.

(** int ::= '-'? digit+ *)
Definition read_int (s : bytes) : option (Z * bytes) :=
  match s with
  | 45%nat :: r =>
    let '(v, n, rest) := read_digits r 0 0 in
    match n with O => None | _ => Some (- v, rest) end
  | _ =>
    let '(v, n, rest) := read_digits s 0 0 in
    match n with O => None | _ => Some (v, rest) end
  end.

Definition is_mod (c : byte) : bool := Nat.eqb c 120 || Nat.eqb c 121 || Nat.eqb c 58.

(** comp ::= int | int '-' int | int '-' int [xy:] int   (whole string) *)
Definition parse_comp (s : bytes) : option comp :=
  match read_int s with
  | None => None
  | Some (a, r1) =>
    match r1 with
    | [] => Some (CSingle a)
    | 45%nat :: r2 =>
      match read_int r2 with
      | None => None
      | Some (b, r3) =>
        match r3 with
        | [] => Some (CRange a b)
        | md :: r4 =>
          if is_mod md then
            match read_int r4 with
            | Some (n, []) => Some (CStep a b md n)
            | _ => None
            end
          else None
        end
      end
    | _ => None
    end
  end.

(** comma-separated components; an empty component is not in the grammar *)
Fixpoint split_commas (s : bytes) (cur : bytes) : list bytes :=
  match s with
  | [] => [rev cur]
  | c :: r => if Nat.eqb c 44 then rev cur :: split_commas r [] else split_commas r (c :: cur)
  end.

Fixpoint parse_comps (parts : list bytes) : option (list comp) :=
  match parts with
  | [] => Some []
  | p :: r =>
    match parse_comp p, parse_comps r with
    | Some c, Some cs => Some (c :: cs)
    | _, _ => None
    end
  end.

Definition gparse (s : bytes) : option (list comp) := parse_comps (split_commas s []).

(** start, start +- step, ... up to the last value not past end (step > 0) *)
Definition walk (a b step : Z) : list Z :=
  let n := Z.to_nat (Z.abs (b - a) / step + 1) in
  map (fun i => if a <=? b then a + Z.of_nat i * step else a - Z.of_nat i * step) (seq 0 n).

Definition expand (c : comp) : list Z :=
  match c with
  | CSingle a => [a]
  | CRange a b => walk a b 1
  | CStep a b md n =>
    let k := Z.abs n in
    if Nat.eqb md 120 then walk a b k
    else if Nat.eqb md 121 then
      let skipped := walk a b k in
      filter (fun v => negb (existsb (Z.eqb v) skipped)) (walk a b 1)
    else
      flat_map (fun i => walk a b (k - Z.of_nat i)) (seq 0 (Z.to_nat k))
  end.

(** keep a frame only at its first occurrence *)
Fixpoint dedup_first (l : list Z) (seen : list Z) : list Z :=
  match l with
  | [] => []
  | x :: r => if existsb (Z.eqb x) seen then dedup_first r seen else x :: dedup_first r (x :: seen)
  end.

Definition denote (cs : list comp) : list Z := dedup_first (flat_map expand cs) [].

Definition comp_fits (c : comp) : bool :=
  match c with
  | CSingle a => fits_int a
  | CRange a b => fits_int a && fits_int b
  | CStep a b _ n => fits_int a && fits_int b && fits_int n
  end.
Definition comp_nonzero (c : comp) : bool :=
  match c with CStep _ _ _ n => negb (n =? 0) | _ => true end.

(** what the shorthand denotes: [None] = not a frame range *)
Definition spec_frames (s : bytes) : option (list Z) :=
  match gparse (strip s) with
  | Some cs => if forallb comp_fits cs && forallb comp_nonzero cs then Some (denote cs) else None
  | None => None
  end.

(** sorted set and complement, for Normalize / Invert *)
Fixpoint zins (x : Z) (l : list Z) : list Z :=
  match l with
  | [] => [x]
  | y :: r => if x <? y then x :: l else if x =? y then l else y :: zins x r
  end.
Definition sort_dedup (l : list Z) : list Z := fold_right zins [] l.

Definition zmin_list (l : list Z) : Z := match l with [] => 0 | x :: r => fold_left Z.min r x end.
Definition zmax_list (l : list Z) : Z := match l with [] => 0 | x :: r => fold_left Z.max r x end.

Definition complement (l : list Z) : list Z :=
  let lo := zmin_list l in let hi := zmax_list l in
  filter (fun v => negb (existsb (Z.eqb v) l))
         (map (fun i => lo + 1 + Z.of_nat i) (seq 0 (Z.to_nat (hi - lo - 1)))).
