(** The domain of the listing theorem (C-listing: exact cover): which paths
    FindSequencesInList reports faithfully.  Every conjunct of [name_ok]
    beyond the first is a documented finding of the verification. *)
From GFS Require Import Base Dec Regex GenRegex GenPadTables Pad Path Seq Listing SpecSeq
  DecProofs CompressProofs FramePathProofs.

(** [item_of_path] on an already cleaned path *)
Definition item_of_clean (c : bytes) : fitem :=
  let sep := path_sep c in
  let '(d, f) := path_split c in
  let d := match d with
           | [] => d
           | _ => if ends_with_byte d sep then d else d ++ [sep]
           end in
  mkItem d f.

Lemma item_of_path_clean : forall p, item_of_path p = item_of_clean (path_clean p).
Proof. reflexivity. Qed.

(** [byte] is [nat] in the model: a real string holds values below 256 only
    (the generated class for [^.] stops at 255) *)
Definition is_bytes (s : bytes) : Prop := Forall (fun c => (c < 256)%nat) s.

(** what may appear in a cleaned path [p] for the listing to report it
    faithfully ([is_bytes] is not a restriction on real inputs):
    - no newline (the name patterns' [.] does not match it: the entry loses
      its file name);
    - no pad token [#.. @.. %d %0Nd $F $FN <UDIM> %(UDIM)d] (the rebuilt
      pattern string is split at the wrong place);
    - the frame text found in the file name is not a negative zero ("-0",
      "-000": printed back as "0", "0000") and its value fits (strconv.Atoi
      fails silently and the frame becomes 0).
    (A fourth finding, "d1.x/foo" listed as "foo", was repaired in the code:
    the single-frame pattern is now run on the file name only.) *)
Definition name_ok (p : bytes) : Prop :=
  is_bytes p /\ no_byte 10 p = true /\ no_token p = true /\
  (forall base frame ext,
      submatches R_optionalFramePattern (snd (path_split p)) 3 = Some [base; frame; ext] ->
      frame <> [] -> not_neg_zero frame /\ exists v, atoi frame = Some v /\ small v).

Definition visible (hidden : bool) (p : bytes) : bool :=
  hidden || negb (has_prefix (snd (path_split p)) [c_dot]).
