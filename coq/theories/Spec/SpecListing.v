(** The domain of the listing theorem (C-listing: exact cover): which paths
    FindSequencesInList reports faithfully.  Every conjunct of [name_ok]
    beyond the first is a documented finding of the verification. *)
From GFS Require Import Base Dec Regex GenRegex GenPadTables Pad Path Seq Listing SpecSeq
  DecProofs CompressProofs FramePathProofs.

(** [byte] is [nat] in the model: a real string holds values below 256 only
    (the generated class for [^.] stops at 255) *)
Definition is_bytes (s : bytes) : Prop := Forall (fun c => (c < 256)%nat) s.

(** what may appear in a cleaned path [p] for the listing to report it
    faithfully ([is_bytes] is not a restriction on real inputs):
    - no newline (the name patterns' [.] does not match it: the entry loses
      its file name);
    - no pad token [#.. @.. %d %0Nd $F $FN <UDIM> %(UDIM)d] (the rebuilt
      pattern string is split at the wrong place);
    - the frame text found in the file name is not a negative zero ("-0",
      "-000": printed back as "0", "0000") and its value fits (strconv.Atoi
      fails silently and the frame becomes 0).
    (A fourth finding, "d1.x/foo" listed as "foo", was repaired in the code:
    the single-frame pattern is now run on the file name only.) *)
Definition name_ok (p : bytes) : Prop :=
  is_bytes p /\ no_byte 10 p = true /\ no_token p = true /\
  (forall base frame ext,
      submatches R_optionalFramePattern (snd (path_split p)) 3 = Some [base; frame; ext] ->
      frame <> [] -> not_neg_zero frame /\ exists v, atoi frame = Some v /\ small v).

Definition visible (hidden : bool) (p : bytes) : bool :=
  hidden || negb (has_prefix (snd (path_split p)) [c_dot]).

(** a member of a numbered sequence: the file name holds a frame number and
    something else (a bare number such as "123" is listed as a single file) *)
Definition numbered (p : bytes) : bool :=
  match submatches R_optionalFramePattern (snd (path_split p)) 3 with
  | Some [base; frame; ext] =>
    match frame with
    | [] => false
    | _ => match base, ext with [], [] => false | _, _ => true end
    end
  | _ => false
  end.

(** an outcome that is a value or an error: no panic, no fuel artefact *)
Definition benign {A : Type} (x : outcome A) : Prop :=
  match x with Ok _ | Err _ => True | _ => False end.
