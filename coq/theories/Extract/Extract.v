(** Extraction of the executable model to OCaml.  ExtrOcamlBasic only:
    bool, option, unit, list, prod, sumbool, sumor are mapped to their OCaml
    counterparts; nat, Z, positive, N, ascii and string stay the extracted
    inductive types (no machine integers). *)
From Coq Require Extraction.
From Coq Require Import ExtrOcamlBasic.
From GFS Require Import Driver.
Extraction "gfs.ml" dispatch.
