#!/bin/bash
# Re-run every seeded change under /verif/seeded against the checks that are recorded to detect it:
# apply the patch to /repo, run the quick checks, restore /repo.  Prints one line per (change, check).
# usage: bin/regress_seeded.sh [name-glob]      (run nothing else on /repo or /verif meanwhile)
cd /verif
pat=${1:-*}
for d in seeded/$pat/; do
  n=$(basename $d)
  [ -f $d/patch.diff ] || continue
  [ "$n" = "harmless" ] && continue
  ids=$(python3 -c "
import json,sys
m=json.load(open('$d/meta.json'))
c=m.get('checks_run',{})
ids=[k for k,v in c.items() if str(v).lower().startswith('detected')] or [m.get('property')]
print(' '.join(sorted(set(ids))))" 2>/dev/null)
  [ -z "$ids" ] && ids=${n:0:3}
  git -C /repo apply /verif/$d/patch.diff 2>/dev/null || { echo "$n: PATCH DOES NOT APPLY"; git -C /repo checkout -- .; continue; }
  for id in $ids; do
    out=$(bin/check $id --tier quick 2>&1); rc=$?
    if [ $rc -ne 0 ]; then
      echo "$n $id detected $(echo "$out" | grep -o 'no-failing-input-found' | head -1)"
    else
      echo "$n $id MISSED"
    fi
  done
  git -C /repo checkout -- . ; git -C /repo clean -fdq -- . 2>/dev/null
done
