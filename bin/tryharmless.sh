#!/bin/bash
# usage: bin/tryharmless.sh <patch.diff> <check ids...>   - applies a behaviour-preserving patch to /repo, runs the
# quick checks, restores /repo.  Prints one line per check: quiet / ALARM (with the VIOLATION line).
p=$1; shift
cd /repo && git apply "$p" || { echo "patch does not apply: $p"; exit 2; }
cd /verif
for id in "$@"; do
  out=$(bin/check $id --tier quick 2>&1); rc=$?
  if [ $rc -eq 0 ]; then echo "$(basename $p) $id quiet"; else echo "$(basename $p) $id ALARM rc=$rc: $(echo "$out" | grep -A2 'VIOLATION\|broken' | head -4 | cut -c1-400 | tr '\n' ' ')"; fi
done
git -C /repo checkout -- . ; git -C /repo clean -fdq -- . 2>/dev/null
