#!/usr/bin/env python3
"""Regenerate MANIFEST.json from the registry (claimed = registered and with a Properties file)."""
import json, os, subprocess, sys
sys.path.insert(0, '/verif/lib')
import registry

props = [json.loads(l) for l in open('/verif/properties.jsonl')]
hook_commits = subprocess.check_output(['git', '-C', '/repo', 'log', '--format=%h', '--grep', 'verif hook']).decode().split()
claimed = [p['id'] for p in props if p['id'] in registry.PROPS and
           (os.path.exists('/verif/coq/theories/Properties/%s.v' % p['id']) or registry.PROPS[p['id']].level != 'proof')]
man = dict(
    version=1,
    setup_cmd='bin/setup.sh',
    hooks=dict(guard='verif',
               enable="go build -tags verif (the Go drivers under harness/ are built with the tag from /repo's working tree on every check)",
               baseline_off_cmd='cd /repo && GOFLAGS=-mod=mod GOPROXY=off go test -vet=off -count=1 ./...',
               source_commits=hook_commits, add_only=True),
    engines=[dict(name='coq', path='coq/', serves_properties=claimed,
                  kind_free_text='Coq 8.16.1 development: Gen layer regenerated from /repo by gen/ (gfsgen), executable model, independent spec, proofs, theorem-only property files'),
             dict(name='check', path='bin/check', serves_properties=claimed,
                  kind_free_text='orchestrator: rebuild from the working tree, proof status + Print Assumptions, correspondence (Go driver vs extracted model), oracle (implementation vs Spec), classification, evidence')],
    checks=[], notes='see DESIGN.md; known findings in known_findings.json', not_applicable=[])
for p in props:
    pid = p['id']
    if pid in claimed:
        pr = registry.PROPS[pid]
        cat = pr.level
        text = ('theorems in coq/theories/Properties/%s.v quantify over all inputs of an executable Coq model; the model is tied to '
                "/repo's current source by translation (regexes, tables: Gen layer) and by a correspondence run against the implementation on every check" % pid)
        if pr.partial:
            text += '; PARTIAL: ' + pr.partial
        man['checks'].append(dict(
            property_id=pid, quick_cmd='bin/check %s --tier quick' % pid, thorough_cmd='bin/check %s --tier thorough' % pid,
            evidence_file='evidence/%s.json' % pid, replay_cmd_template='bin/check %s --replay {path}' % pid, engine='check',
            level_claimed=dict(category=cat, text=text, design_ref='DESIGN.md section 4, %s' % pid),
            level_note='trusted base: DESIGN.md section 7 (Coq kernel, no axioms, translator gfsgen, extraction with ExtrOcamlBasic, drivers, orchestrator; stdlib/OS behaviour modelled not verified)',
            technique=getattr(pr, 'technique', 'machine-checked proof in Coq (Rocq) over an executable model + correspondence check against the implementation')))
    else:
        man['not_applicable'].append(dict(property_id=pid, reason='check under construction in this session (not yet registered)'))
json.dump(man, open('/verif/MANIFEST.json', 'w'), indent=1)
print('claimed:', ' '.join(claimed))
