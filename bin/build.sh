#!/bin/bash
# Rebuild everything the checks need from /repo's current working tree:
# translator -> Gen layer -> Coq (.vo, full build) -> extraction -> OCaml driver -> Go driver.
# Usage: bin/build.sh [coq-target ...]   (default: all)
set -e
export GOFLAGS=-mod=mod GOPROXY=off GOSUMDB=off GOTOOLCHAIN=local
V=/verif
REPO=${VERIF_REPO:-/repo}
mkdir -p $V/work
exec 9>$V/work/build.lock
flock 9
if [ ! -x $V/bin/gfsgen ] || [ -n "$(find $V/gen -name '*.go' -newer $V/bin/gfsgen)" ]; then
  (cd $V/gen && go build -o $V/bin/gfsgen .)
fi
$V/bin/gfsgen $REPO $V/coq/theories/Gen $V/work/rx_patterns.txt
cd $V/coq
if [ ! -f Makefile ] || [ _CoqProject -nt Makefile ]; then
  coq_makefile -f _CoqProject -o Makefile > /dev/null
fi
timeout 3000 make -j16 "$@" 2>&1 | grep -v '^COQDEP\|^COQC\|^make' || true
# a failed make shows up as a missing/outdated .vo; callers check the targets they need
cd $V/harness/ocaml
if [ ! -f gfs.ml ] || [ $V/coq/theories/Model/Driver.vo -nt gfs.ml ] || [ ! -x $V/bin/mldriver ] || [ driver.ml -nt $V/bin/mldriver ]; then
  if [ -f $V/coq/theories/Model/Driver.vo ]; then
    timeout 600 coqc -Q $V/coq/theories GFS $V/coq/theories/Extract/Extract.v > /dev/null
    ocamlfind ocamlopt -O3 -w -a gfs.mli gfs.ml driver.ml -o $V/bin/mldriver 2>/dev/null
  fi
fi
cd $V/harness/go
cp $REPO/go.sum . 2>/dev/null || true
if [ "$REPO" != "/repo" ]; then
  sed "s#=> /repo#=> $REPO#" go.mod > go.mod.tmp && mv go.mod.tmp go.mod
fi
go build -tags verif -o $V/bin/godriver . 
if [ "$REPO" != "/repo" ]; then
  git -C $V checkout -- harness/go/go.mod 2>/dev/null || sed -i "s#=> $REPO#=> /repo#" go.mod
fi
