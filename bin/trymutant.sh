#!/bin/bash
# trymutant.sh <name> <worktree> <outdir> <check ids...>
# 1. confirm in the scratch worktree: suite passes with the patch, demo fails with / passes without
# 2. apply the patch to /repo, run the given checks, undo
# 3. record under /verif/seeded/<name>/
export GOFLAGS=-mod=mod GOPROXY=off GOSUMDB=off GOTOOLCHAIN=local
name=$1; wt=$2; out=$3; shift 3
dest=/verif/seeded/$name
mkdir -p $dest
cp $out/patch.diff $dest/patch.diff
cp $out/meta.json $dest/agent_meta.json 2>/dev/null
log=$dest/confirm.log; : > $log
cd $wt
git -C $wt checkout -- . ; git -C $wt apply $out/patch.diff
echo "== suite with patch" >> $log
go build ./... >> $log 2>&1; go test -vet=off -count=1 ./... 2>&1 | tail -6 >> $log
suite_ok=$(go test -vet=off -count=1 ./... 2>&1 | grep -c "^FAIL\|^---")
demo_with=NA; demo_without=NA
if [ -f $out/demo_test.go ]; then
  pkgdir=$(dirname $(grep -m1 '^+++ b/' $out/patch.diff | sed 's#+++ b/##'))
  pkgname=$(grep -m1 '^package ' $out/demo_test.go | awk '{print $2}')
  # put the demo in the package whose name matches
  for d in . ranges cmd/seqls cmd/seqinfo exp/cpp/export; do
    if grep -qs "^package $pkgname\b" $wt/$d/*.go 2>/dev/null; then tgt=$d; [ "$d" = "$pkgdir" ] && break; fi
  done
  cp $out/demo_test.go $wt/$tgt/zz_demo_test.go; cp $out/demo_test.go $dest/demo_test.go
  echo "== demo with patch (pkg $tgt)" >> $log
  go test -vet=off -count=1 -run 'Demo|C[0-9][0-9]' ./$tgt >> $log 2>&1; demo_with=$?
  git -C $wt apply -R $out/patch.diff
  echo "== demo without patch" >> $log
  go test -vet=off -count=1 -run 'Demo|C[0-9][0-9]' ./$tgt >> $log 2>&1; demo_without=$?
  git -C $wt apply $out/patch.diff
  rm -f $wt/$tgt/zz_demo_test.go
elif [ -f $out/demo.sh ] || [ -f $out/run.sh ]; then
  [ -f $out/demo.sh ] || cp $out/run.sh $out/demo.sh
  cp $out/demo.sh $dest/demo.sh; cp $out/demo.cpp $dest/ 2>/dev/null; cp $out/expected* $dest/ 2>/dev/null
  echo "== demo.sh with patch" >> $log
  (cd $out && timeout 600 sh ./demo.sh </dev/null) >> $log 2>&1; demo_with=$?
  git -C $wt apply -R $out/patch.diff
  echo "== demo.sh without patch" >> $log
  (cd $out && timeout 600 sh ./demo.sh </dev/null) >> $log 2>&1; demo_without=$?
  git -C $wt apply $out/patch.diff
elif [ -d $out/demo ]; then
  cp -r $out/demo $dest/demo
  echo "== demo program with patch" >> $log
  (cd $out/demo && cp $wt/go.sum . 2>/dev/null; go run . ) >> $log 2>&1; demo_with=$?
  git -C $wt apply -R $out/patch.diff
  echo "== demo program without patch" >> $log
  (cd $out/demo && go run . ) >> $log 2>&1; demo_without=$?
  git -C $wt apply $out/patch.diff
fi
echo "suite_failures=$suite_ok demo_with=$demo_with demo_without=$demo_without" | tee -a $log
# run our checks against /repo with the patch
cd /verif
git -C /repo diff --quiet || { echo "/repo is dirty, refusing"; exit 2; }
git -C /repo apply $out/patch.diff || { echo "patch does not apply to /repo"; exit 2; }
res=""
for c in "$@"; do
  o=$(bin/check $c --tier quick 2>&1); rc=$?
  echo "== check $c rc=$rc" >> $log; echo "$o" | tail -6 >> $log
  res="$res $c:$rc"
  echo "$c rc=$rc: $(echo "$o" | grep -m1 VIOLATION) $(echo "$o" | grep -A1 -m1 VIOLATION | tail -1 | cut -c1-200)"
done
git -C /repo checkout -- .
python3 - "$name" "$suite_ok" "$demo_with" "$demo_without" "$res" <<'PY'
import json, sys, os
name, suite, dw, dwo, res = sys.argv[1:6]
d = '/verif/seeded/' + name
am = {}
try: am = json.load(open(d + '/agent_meta.json'))
except Exception: pass
meta = dict(name=name, property=am.get('property', name[:3]), summary=am.get('summary'), needs=am.get('needs'), witness=am.get('witness'),
            confirmed=dict(existing_suite_failures_with_patch=int(suite), demo_exit_with_patch=dw, demo_exit_without_patch=dwo),
            checks_run={x.split(':')[0]: ('detected' if x.split(':')[1] == '1' else 'MISSED' if x.split(':')[1] == '0' else 'error rc=' + x.split(':')[1]) for x in res.split()},
            what_i_ran='bin/trymutant.sh: suite + demo in the scratch worktree (with and without the patch), then git -C /repo apply patch.diff; bin/check <ids> --tier quick; git -C /repo checkout -- .')
json.dump(meta, open(d + '/meta.json', 'w'), indent=1)
if os.path.exists(d + '/agent_meta.json'): os.remove(d + '/agent_meta.json')
PY
