#!/bin/bash
# Re-check the compiled property files (and everything they depend on) with the
# independent checker coqchk and list the axioms they rely on.  Slow (minutes):
# run by hand / in the background, not part of a registered check.
# Usage: bin/coqchk.sh [C01 C02 ...]   (default: all property files)
set -e
cd /verif/coq
ids="$@"
[ -z "$ids" ] && ids=$(ls theories/Properties/*.v | xargs -n1 basename | sed 's/\.v$//')
mods=""
for i in $ids; do mods="$mods GFS.Properties.$i"; done
timeout 7200 coqchk -silent -o -Q theories GFS $mods 2>&1 | tail -40
