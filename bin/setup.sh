#!/bin/bash
# MANIFEST.setup_cmd: build the framework from files on disk only (offline).
set -e
cd /verif
export GOFLAGS=-mod=mod GOPROXY=off GOSUMDB=off GOTOOLCHAIN=local
python3 - <<'PY'
import sys
sys.path.insert(0, '/verif/lib')
import infra
b = infra.build()
print('gen_ok', b.gen_ok, b.gen_msg)
print('make_ok', b.make_ok, b.make_msg[-2000:])
print('go_ok', b.go_ok, b.go_msg)
sys.exit(0 if (b.gen_ok and b.make_ok and b.go_ok) else 1)
PY
