// Driver around the C++ port in $VERIF_REPO/cpp: the counterpart of
// harness/go/main.go.  Reads one operation per line (fields separated by single
// spaces, every field after the first hex-encoded, "-" = empty) and prints the
// same canonical result line as the Go driver, so that the two outputs can be
// diffed line by line.  Nothing here repairs the port: whatever its API returns
// is printed (size_t results are shown as the signed 64-bit value, since the
// port documents "-1" for a missing index).
//
// Supported: pad padsize fs norm f2r padfr seq disk findseq.
// Everything else prints UNSUPPORTED.  A C++ exception prints PANIC (this also
// plays the part of Go's index-out-of-range panic when arguments are missing).
// A fatal signal (SIGSEGV, SIGFPE, SIGABRT, ...) inside the port flushes the
// lines produced so far, prints CRASH for the current line and exits 3.
// errno is cleared before every line (see main) so that a line's result does
// not depend on the lines before it.
//
// Mapping of the Go API onto the port:
//   PadStyle n            0 -> PadStyleHash1, 1 -> PadStyleHash4, other ->
//                         PadStyleDefault (the Go side falls back the same way;
//                         the enum cannot carry other values)
//   FileOption 0,1        kOptHiddenFiles, kOptSingleFiles
//   FileOption 2,3        the PadStyle argument (last one wins, as in Go)
//   FileOption 4          StrictPadding: the port has no such option; ignored
//   err != nil            Status evaluates to false
//   nil *FileSequence     !isValid()
//   q.FrameSet() != nil   q.frameSet().isValid()

#include "fileseq.h"
#include "pad.h"
#include "private/frameset_p.h"
#include "private/sequence_p.h"

#include <cerrno>
#include <climits>
#include <csignal>
#include <cstdio>
#include <cstdlib>
#include <cstring>
#include <dirent.h>
#include <fcntl.h>
#include <iostream>
#include <stdexcept>
#include <string>
#include <sys/stat.h>
#include <sys/types.h>
#include <unistd.h>
#include <vector>

using fileseq::FileSequence;
using fileseq::FileSequences;
using fileseq::Frame;
using fileseq::Frames;
using fileseq::FrameSet;
using fileseq::PadStyle;
using fileseq::Status;

typedef std::vector<std::string> Args;

// ---------------------------------------------------------------- encoding

static int hexval(char c) {
    if (c >= '0' && c <= '9') return c - '0';
    if (c >= 'a' && c <= 'f') return c - 'a' + 10;
    if (c >= 'A' && c <= 'F') return c - 'A' + 10;
    return -1;
}

// unhex: "-" is the empty string; anything that is not valid hex is "" too
static std::string unhex(const std::string &s) {
    if (s == "-") return "";
    if (s.size() % 2 != 0) return "";
    std::string out;
    out.reserve(s.size() / 2);
    for (size_t i = 0; i < s.size(); i += 2) {
        int h = hexval(s[i]), l = hexval(s[i + 1]);
        if (h < 0 || l < 0) return "";
        out.push_back(char(h * 16 + l));
    }
    return out;
}

static std::string hexs(const std::string &s) {
    if (s.empty()) return "-";
    static const char *digits = "0123456789abcdef";
    std::string out;
    out.reserve(s.size() * 2);
    for (size_t i = 0; i < s.size(); ++i) {
        unsigned char c = (unsigned char)s[i];
        out.push_back(digits[c >> 4]);
        out.push_back(digits[c & 15]);
    }
    return out;
}

// strconv.Atoi with the error dropped: 0 on a syntax error, the clamped value
// on overflow
static long argz(const std::string &s) {
    size_t i = 0;
    bool neg = false;
    if (i < s.size() && (s[i] == '+' || s[i] == '-')) {
        neg = s[i] == '-';
        ++i;
    }
    if (i == s.size()) return 0;
    for (size_t j = i; j < s.size(); ++j) {
        if (s[j] < '0' || s[j] > '9') return 0;
    }
    unsigned long acc = 0;
    const unsigned long lim = neg ? (unsigned long)LONG_MAX + 1 : (unsigned long)LONG_MAX;
    bool over = false;
    for (; i < s.size(); ++i) {
        unsigned long d = (unsigned long)(s[i] - '0');
        if (acc > (ULONG_MAX - d) / 10) { over = true; break; }
        acc = acc * 10 + d;
        if (acc > lim) { over = true; break; }
    }
    if (over) return neg ? LONG_MIN : LONG_MAX;
    if (neg) return acc == (unsigned long)LONG_MAX + 1 ? LONG_MIN : -(long)acc;
    return (long)acc;
}

static std::vector<std::string> split(const std::string &s, char sep) {
    std::vector<std::string> out;
    size_t pos = 0;
    for (;;) {
        size_t f = s.find(sep, pos);
        if (f == std::string::npos) {
            out.push_back(s.substr(pos));
            return out;
        }
        out.push_back(s.substr(pos, f - pos));
        pos = f + 1;
    }
}

static std::vector<long> argzl(const std::string &s) {
    std::vector<long> out;
    if (s.empty()) return out;
    std::vector<std::string> parts = split(s, ',');
    for (size_t i = 0; i < parts.size(); ++i) out.push_back(argz(parts[i]));
    return out;
}

static std::string itoa(long v) { return std::to_string(v); }

static std::string zlist(const std::vector<long> &l) {
    if (l.empty()) return "-";
    std::string out;
    for (size_t i = 0; i < l.size(); ++i) {
        if (i) out.push_back(',');
        out += itoa(l[i]);
    }
    return out;
}

static std::string join(const std::vector<std::string> &l, const char *sep) {
    std::string out;
    for (size_t i = 0; i < l.size(); ++i) {
        if (i) out += sep;
        out += l[i];
    }
    return out;
}

static const char *b01(bool b) { return b ? "1" : "0"; }

static PadStyle padStyleOf(long n) {
    if (n == 0) return fileseq::PadStyleHash1;
    if (n == 1) return fileseq::PadStyleHash4;
    return fileseq::PadStyleDefault;
}

// ---------------------------------------------------------------- frame sets

static std::vector<long> framesOf(const FrameSet &fs) {
    Frames fr;
    fs.frames(fr);
    return std::vector<long>(fr.begin(), fr.end());
}

static std::string reparse(const std::string &s) {
    Status st;
    FrameSet fs(s, &st);
    if (!st) return "ERR";
    return zlist(framesOf(fs));
}

static std::string reparseOrDash(const std::string &s) {
    if (s.empty()) return "-";
    return reparse(s);
}

static std::string probeFS(const FrameSet &fs) {
    std::string b;
    long n = (long)fs.length();
    std::vector<long> frames = framesOf(fs);
    long mn = 0, mx = 0;
    if (!frames.empty()) {
        mn = mx = frames[0];
        for (size_t i = 0; i < frames.size(); ++i) {
            if (frames[i] < mn) mn = frames[i];
            if (frames[i] > mx) mx = frames[i];
        }
    }
    b += " len=" + itoa(n) + " start=" + itoa(fs.start()) + " end=" + itoa(fs.end())
       + " min=" + itoa(mn) + " max=" + itoa(mx);
    b += " frames=" + zlist(frames);

    const long big = 1L << 60;
    if (mn < -big || mx > big || mx - mn > (1L << 20) || n > (1L << 20)) {
        return b;
    }
    std::vector<std::string> vs;
    for (long i = -2; i < n + 3; ++i) {
        Status st;
        Frame v = fs.frame((size_t)i, &st);
        vs.push_back(st ? itoa(v) : std::string("E"));
    }
    b += " value=" + join(vs, ",");
    std::vector<long> idx;
    std::string hs;
    for (long v = mn - 2; v < mx + 3; ++v) {
        idx.push_back((long)fs.index(v));
        hs += b01(fs.hasFrame(v));
    }
    b += " index=" + zlist(idx) + " has=" + hs;
    return b;
}

// ---------------------------------------------------------------- sequences

static const long pathCap = 2000;

static std::string showSeq(FileSequence &q) {
    std::string b;
    b += " dir=" + hexs(q.dirname()) + " base=" + hexs(q.basename()) + " ext=" + hexs(q.ext())
       + " pad=" + hexs(q.padding()) + " zfill=" + itoa(q.zfill())
       + " hasfs=" + b01(q.frameSet().isValid()) + " frange=" + hexs(q.frameRange())
       + " style=" + itoa((long)q.paddingStyle()) + " string=" + hexs(q.string())
       + " len=" + itoa((long)q.length()) + " start=" + itoa(q.start()) + " end=" + itoa(q.end());
    long n = (long)q.length();
    if (n > pathCap) n = pathCap;
    std::vector<std::string> ps;
    for (long i = -1; i < n + 1; ++i) ps.push_back(hexs(q.index((size_t)i)));
    b += " paths=" + join(ps, ",");
    return b;
}

static std::string showListed(FileSequence &q) {
    long n = (long)q.length();
    if (n > pathCap) n = pathCap;
    std::vector<std::string> ps;
    for (long i = 0; i < n; ++i) ps.push_back(hexs(q.index((size_t)i)));
    return hexs(q.string()) + ":" + itoa(q.zfill()) + ":" + itoa((long)q.paddingStyle()) + ":" + join(ps, ",");
}

// ---------------------------------------------------------------- file system

static std::string g_root;

// Go's filepath.Clean on a slash-separated path
static std::string cleanPath(const std::string &path) {
    if (path.empty()) return ".";
    bool rooted = path[0] == '/';
    std::vector<std::string> st;
    size_t i = 0, n = path.size();
    while (i < n) {
        while (i < n && path[i] == '/') ++i;
        size_t j = i;
        while (j < n && path[j] != '/') ++j;
        if (j == i) break;
        std::string el = path.substr(i, j - i);
        i = j;
        if (el == ".") continue;
        if (el == "..") {
            if (!st.empty() && st.back() != "..") st.pop_back();
            else if (!rooted) st.push_back("..");
            continue;
        }
        st.push_back(el);
    }
    std::string out = rooted ? "/" : "";
    out += join(st, "/");
    if (out.empty()) return ".";
    return out;
}

// filepath.Join of two elements
static std::string joinPath(const std::string &a, const std::string &b) {
    if (a.empty() && b.empty()) return "";
    if (a.empty()) return cleanPath(b);
    if (b.empty()) return cleanPath(a);
    return cleanPath(a + "/" + b);
}

// filepath.Dir
static std::string dirOf(const std::string &p) {
    size_t f = p.rfind('/');
    if (f == std::string::npos) return ".";
    return cleanPath(p.substr(0, f + 1));
}

static void mkdirAll(const std::string &p) {
    struct stat sb;
    if (stat(p.c_str(), &sb) == 0) return;
    std::string parent = dirOf(p);
    if (parent != p && parent != "." && parent != "/") mkdirAll(parent);
    mkdir(p.c_str(), 0755);
}

static void writeEmpty(const std::string &p) {
    int fd = open(p.c_str(), O_WRONLY | O_CREAT | O_TRUNC | O_CLOEXEC, 0644);
    if (fd >= 0) close(fd);
}

static void removeAll(const std::string &p) {
    struct stat sb;
    if (lstat(p.c_str(), &sb) != 0) return;
    if (S_ISDIR(sb.st_mode)) {
        std::vector<std::string> names;
        DIR *d = opendir(p.c_str());
        if (d != NULL) {
            struct dirent *e;
            while ((e = readdir(d)) != NULL) {
                std::string nm(e->d_name);
                if (nm != "." && nm != "..") names.push_back(nm);
            }
            closedir(d);
        }
        for (size_t i = 0; i < names.size(); ++i) removeAll(p + "/" + names[i]);
        rmdir(p.c_str());
    } else {
        unlink(p.c_str());
    }
}

static bool hasPrefix(const std::string &s, const std::string &p) {
    return s.size() >= p.size() && s.compare(0, p.size(), p) == 0;
}

// removes the case directory when the operation is over (normally or not)
struct Cleanup {
    std::string top;
    ~Cleanup() { if (!top.empty()) removeAll(top); }
};

// populate creates the directory named by path (relative paths are relative to
// the root, which is the working directory) with the given entries; same
// logic as populate in the Go driver.
static void populate(Cleanup &cl, const std::string &path, bool readable,
                     const Args &a, size_t first) {
    std::string abs = path;
    if (abs.empty() || abs[0] != '/') abs = joinPath(g_root, path);
    abs = cleanPath(abs);
    if (!hasPrefix(abs, g_root + "/")) {
        throw std::runtime_error("refusing to touch " + abs);
    }
    std::string rel = abs.substr(g_root.size() + 1);
    cl.top = joinPath(g_root, rel.substr(0, rel.find('/')));
    if (!readable) {
        mkdirAll(dirOf(abs));
        return;
    }
    mkdirAll(abs);
    const std::string tfile = joinPath(joinPath(g_root, "targets"), "file");
    const std::string tdir = joinPath(joinPath(g_root, "targets"), "dir");
    const std::string tmissing = joinPath(joinPath(g_root, "targets"), "missing");
    for (size_t i = first; i < a.size(); ++i) {
        const std::string &e = a[i];
        if (hasPrefix(e, "F:")) {
            writeEmpty(joinPath(abs, e.substr(2)));
        } else if (hasPrefix(e, "D:")) {
            mkdir(joinPath(abs, e.substr(2)).c_str(), 0755);
        } else if (hasPrefix(e, "LF:")) {
            if (symlink(tfile.c_str(), joinPath(abs, e.substr(3)).c_str()) != 0) {}
        } else if (hasPrefix(e, "LD:")) {
            if (symlink(tdir.c_str(), joinPath(abs, e.substr(3)).c_str()) != 0) {}
        } else if (hasPrefix(e, "LX:")) {
            if (symlink(tmissing.c_str(), joinPath(abs, e.substr(3)).c_str()) != 0) {}
        }
    }
}

// the entry names in readdir() order, which is the order the port sees
static std::string readdirOrder(const std::string &dir) {
    DIR *d = opendir(dir.c_str());
    if (d == NULL) return "-";
    std::vector<std::string> names;
    struct dirent *e;
    while ((e = readdir(d)) != NULL) {
        std::string nm(e->d_name);
        if (nm == "." || nm == "..") continue;
        names.push_back(hexs(nm));
    }
    closedir(d);
    if (names.empty()) return "-";
    return join(names, ",");
}

static void fileOpts(const std::vector<long> &l, fileseq::FindSequenceOpts &opts, PadStyle &style) {
    for (size_t i = 0; i < l.size(); ++i) {
        switch (l[i]) {
        case 0: opts = opts | fileseq::kOptHiddenFiles; break;
        case 1: opts = opts | fileseq::kOptSingleFiles; break;
        case 2: style = fileseq::PadStyleHash1; break;
        case 3: style = fileseq::PadStyleHash4; break;
        default: break; // 4 = StrictPadding: not available in the port
        }
    }
}

// ---------------------------------------------------------------- dispatch

static std::string dispatch(const std::string &op, const Args &a) {
    if (op == "pad") {
        if (a.size() != 2) return "BADARGS";
        const fileseq::internal::PaddingMapper &m =
            fileseq::internal::getPadMapperForStyle(padStyleOf(argz(a[0])));
        std::string c = m.getPaddingChars(argz(a[1]));
        return "OK chars=" + hexs(c) + " size=" + itoa((long)m.getPaddingCharsSize(c));
    }
    if (op == "padsize") {
        if (a.size() != 2) return "BADARGS";
        const fileseq::internal::PaddingMapper &m =
            fileseq::internal::getPadMapperForStyle(padStyleOf(argz(a[0])));
        return "OK size=" + itoa((long)m.getPaddingCharsSize(a[1]));
    }
    if (op == "fs") {
        Status st;
        FrameSet fs(a.at(0), &st);
        std::string isfr = std::string(" isfr=") + b01(fileseq::isFrameRange(a.at(0)));
        if (!st) return "ERR" + isfr;
        return "OK" + isfr + probeFS(fs);
    }
    if (op == "norm") {
        Status st;
        FrameSet fs(a.at(0), &st);
        if (!st) return "ERR";
        FrameSet nf = fs.normalized();
        FrameSet iv = fs.inverted();
        std::vector<std::string> ip, ipre;
        for (int p = 0; p < 7; ++p) ip.push_back(hexs(fs.invertedFrameRange(p)));
        for (int p = 0; p < 7; ++p) ipre.push_back(reparseOrDash(fs.invertedFrameRange(p)));
        return "OK nstr=" + hexs(nf.frameRange()) + " nframes=" + zlist(framesOf(nf))
             + " istr=" + hexs(iv.frameRange()) + " iframes=" + zlist(framesOf(iv))
             + " ipad=" + join(ip, ",") + " frames=" + zlist(framesOf(fs))
             + " nre=" + reparse(nf.frameRange()) + " ire=" + reparseOrDash(iv.frameRange())
             + " ipadre=" + join(ipre, ";") + " nnstr=" + hexs(nf.normalized().frameRange());
    }
    if (op == "f2r") {
        std::vector<long> l = argzl(a.at(0));
        Frames fr(l.begin(), l.end());
        std::string s = fileseq::framesToFrameRange(fr, argz(a.at(1)) != 0, (int)argz(a.at(2)));
        return "OK s=" + hexs(s) + " re=" + reparseOrDash(s);
    }
    if (op == "padfr") {
        size_t pad = (size_t)argz(a.at(1));
        std::string t = fileseq::padFrameRange(a.at(0), pad);
        return "OK s=" + hexs(t) + " in=" + reparse(a[0]) + " out=" + reparse(t)
             + " again=" + hexs(fileseq::padFrameRange(t, pad));
    }
    if (op == "seq") {
        Status st;
        FileSequence q(a.at(0), padStyleOf(argz(a.at(1))), &st);
        if (!st) return "ERR";
        Status fst;
        std::string f = q.format("{{dir}}{{base}}{{frange}}{{pad}}{{ext}}", &fst);
        if (!fst) f = "FORMAT-ERROR";
        std::vector<std::string> fi, fstr;
        for (size_t i = 2; i < a.size(); ++i) {
            fi.push_back(hexs(q.frame((Frame)argz(a[i]))));
            fstr.push_back(hexs(q.frame(a[i])));
        }
        return "OK" + showSeq(q) + " fmt=" + hexs(f) + " frame=" + join(fi, ",")
             + " frames=" + join(fstr, ",");
    }
    if (op == "disk") {
        Cleanup cl;
        populate(cl, a.at(1), argz(a.at(2)) != 0, a, 3);
        std::string order = readdirOrder(a[1]);
        fileseq::FindSequenceOpts opts = fileseq::kNoOpt;
        PadStyle style = fileseq::PadStyleDefault;
        fileOpts(argzl(a[0]), opts, style);
        FileSequences seqs;
        Status st = fileseq::findSequencesOnDisk(seqs, a[1], opts, style);
        std::string b;
        if (!st) {
            b = "ERR";
        } else {
            b = "OK";
            for (size_t i = 0; i < seqs.size(); ++i) b += " " + showListed(seqs[i]);
        }
        return b + " M_order=" + order;
    }
    if (op == "findseq") {
        // opts style pattern readable ents...; the directory is the pattern's
        const std::string &pat = a.at(2);
        size_t slash = pat.rfind('/');
        if (slash == std::string::npos) return "BADARGS";
        std::string dir = pat.substr(0, slash + 1);
        Cleanup cl;
        populate(cl, dir, argz(a.at(3)) != 0, a, 4);
        std::string order = " M_order=" + readdirOrder(dir);
        fileseq::FindSequenceOpts opts = fileseq::kNoOpt; // not accepted by the port here
        PadStyle style = padStyleOf(argz(a[1]));
        fileOpts(argzl(a[0]), opts, style);
        Status st;
        FileSequence q = fileseq::findSequenceOnDisk(pat, style, &st);
        if (!st) return "ERR" + order;
        if (!q.isValid()) return "OK nil" + order;
        return "OK " + showListed(q) + " base=" + hexs(q.basename()) + " ext=" + hexs(q.ext()) + order;
    }
    return "UNSUPPORTED";
}

static std::string safeDispatch(const std::string &op, const Args &a) {
    try {
        return dispatch(op, a);
    } catch (...) {
        return "PANIC";
    }
}

// ---------------------------------------------------------------- main loop

static std::string g_out;

static void writeAll(const char *p, size_t n) {
    while (n > 0) {
        ssize_t w = write(1, p, n);
        if (w < 0) {
            if (errno == EINTR) continue;
            return;
        }
        p += w;
        n -= (size_t)w;
    }
}

static void flushOut() {
    writeAll(g_out.data(), g_out.size());
    g_out.clear();
}

static void onFatal(int) {
    writeAll(g_out.data(), g_out.size());
    writeAll("CRASH\n", 6);
    _exit(3);
}

#ifndef VERIF_REPO_PATH
#define VERIF_REPO_PATH "?"
#endif

int main(int argc, char **argv) {
    if (argc > 1 && strcmp(argv[1], "--repo") == 0) {
        // the tree this binary was built from (used by build.sh)
        puts(VERIF_REPO_PATH);
        return 0;
    }
    const char *r = getenv("VERIF_ROOT");
    if (r != NULL) g_root = r;
    if (!g_root.empty()) {
        mkdirAll(joinPath(joinPath(g_root, "targets"), "dir"));
        writeEmpty(joinPath(joinPath(g_root, "targets"), "file"));
        if (chdir(g_root.c_str()) != 0) {}
    }
    // the handler runs on its own stack so that a stack overflow (deep
    // std::regex recursion on a long input) is reported too
    static char altstack[1 << 16];
    stack_t ss;
    ss.ss_sp = altstack;
    ss.ss_size = sizeof(altstack);
    ss.ss_flags = 0;
    sigaltstack(&ss, NULL);
    const int sigs[] = {SIGSEGV, SIGBUS, SIGFPE, SIGILL, SIGABRT};
    for (size_t i = 0; i < sizeof(sigs) / sizeof(sigs[0]); ++i) {
        struct sigaction sa;
        memset(&sa, 0, sizeof(sa));
        sa.sa_handler = onFatal;
        sa.sa_flags = SA_ONSTACK;
        sigemptyset(&sa.sa_mask);
        sigaction(sigs[i], &sa, NULL);
    }

    std::ios::sync_with_stdio(false);
    std::string line;
    while (std::getline(std::cin, line)) {
        std::vector<std::string> f = split(line, ' ');
        Args args;
        args.reserve(f.size());
        for (size_t i = 1; i < f.size(); ++i) args.push_back(unhex(f[i]));
        // Lines must not depend on each other: the port tests errno without
        // clearing it first (FileSequence::frame(string)), and libstdc++'s
        // std::stol leaves ERANGE behind, so one overflowing number would
        // change the result of every later line.  Within a line the stale
        // value is left alone.
        errno = 0;
        g_out += safeDispatch(f[0], args);
        g_out.push_back('\n');
        if (g_out.size() > (1u << 16)) flushOut();
    }
    flushOut();
    return 0;
}
