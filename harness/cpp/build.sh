#!/bin/bash
# Build /verif/bin/cppdriver: the C++ port's sources from $VERIF_REPO/cpp
# (default /repo) together with harness/cpp/driver.cpp.  Objects are compiled
# in parallel into a scratch directory under /var/tmp, which is removed
# afterwards.  Nothing is rebuilt when the binary is newer than every source.
# Usage: harness/cpp/build.sh [-f]    (-f forces a rebuild)
set -e
V=/verif
REPO=${VERIF_REPO:-/repo}
SRC=$REPO/cpp
HERE=$V/harness/cpp
OUT=$V/bin/cppdriver
CXX=${CXX:-g++}
CXXFLAGS="-std=c++11 -O1 -DHAVE_REGEX=1 -Wno-deprecated-declarations -I$SRC"
JOBS=$(nproc 2>/dev/null || echo 4)

if [ ! -d "$SRC" ]; then
  echo "build.sh: no C++ port at $SRC" >&2
  exit 1
fi

sources=("$SRC"/*.cpp "$SRC"/private/*.cpp "$SRC"/ranges/*.cpp "$HERE/driver.cpp")

# the binary remembers which tree it was built from (cppdriver --repo)
if [ "$1" != "-f" ] && [ -x "$OUT" ] && [ "$("$OUT" --repo 2>/dev/null </dev/null)" = "$REPO" ]; then
  newer=$(find "$SRC" -maxdepth 2 \( -name '*.cpp' -o -name '*.h' \) -not -path "$SRC/test/*" -newer "$OUT" -print -quit)
  if [ -z "$newer" ] && [ ! "$HERE/driver.cpp" -nt "$OUT" ] && [ ! "$HERE/build.sh" -nt "$OUT" ]; then
    exit 0
  fi
fi

mkdir -p "$V/bin"
TMP=$(mktemp -d /var/tmp/verif.cppbuild.XXXXXX)
trap 'rm -rf "$TMP"' EXIT

# one object per source, named after its position so that equal base names
# in different directories cannot collide
i=0
: > "$TMP/jobs"
for s in "${sources[@]}"; do
  printf '%s\0%s\0' "$s" "$TMP/o$i.o" >> "$TMP/jobs"
  i=$((i + 1))
done
xargs -0 -n 2 -P "$JOBS" sh -c "$CXX $CXXFLAGS -DVERIF_REPO_PATH='\"$REPO\"' -c \"\$0\" -o \"\$1\"" < "$TMP/jobs"

$CXX -o "$TMP/cppdriver" "$TMP"/o*.o
mv -f "$TMP/cppdriver" "$OUT"
