// Driver around the implementation in /repo: reads one operation per line
// (fields separated by single spaces, every field after the first hex-encoded,
// "-" = empty) and prints the same canonical result line as the Coq model's
// dispatcher (coq/theories/Model/Driver.v).
package main

import (
	"bufio"
	"encoding/hex"
	"fmt"
	"os"
	"path/filepath"
	"runtime"
	"strconv"
	"strings"
	"time"

	fileseq "github.com/justinfx/gofileseq/v2"
	"github.com/justinfx/gofileseq/v2/ranges"
)

func unhex(s string) string {
	if s == "-" {
		return ""
	}
	b, err := hex.DecodeString(s)
	if err != nil {
		return ""
	}
	return string(b)
}

func hexs(s string) string {
	if s == "" {
		return "-"
	}
	return hex.EncodeToString([]byte(s))
}

func argz(s string) int {
	v, _ := strconv.Atoi(s)
	return v
}

func argzl(s string) []int {
	if s == "" {
		return nil
	}
	var out []int
	for _, p := range strings.Split(s, ",") {
		out = append(out, argz(p))
	}
	return out
}

func zlist(l []int) string {
	if len(l) == 0 {
		return "-"
	}
	parts := make([]string, len(l))
	for i, v := range l {
		parts[i] = strconv.Itoa(v)
	}
	return strings.Join(parts, ",")
}

func b01(b bool) string {
	if b {
		return "1"
	}
	return "0"
}

type blocks interface {
	Len() int
	Start() int
	End() int
	Value(int) (int, error)
	Index(int) int
	Contains(int) bool
}

// iterAll drains an iterator, but never more than iterCap values: a defect in the code under test
// (a wrong cached end, a wrong length) must not turn the driver into an enumeration of 2^60 frames.
// A truncated list ends in the sentinel iterTruncated, which no oracle expects.
const (
	iterCap       = 1 << 20
	iterTruncated = -987654321987654321
)

func iterAll(it ranges.Iterator) []int {
	var out []int
	for !it.IsDone() {
		if len(out) >= iterCap {
			return append(out, iterTruncated)
		}
		out = append(out, it.Next())
	}
	return out
}

func probeTail(b *strings.Builder, n int, mn, mx int, value func(int) (int, error), index func(int) int, has func(int) bool) {
	const big = 1 << 62
	if mn < -big || mx > big || mx-mn > 1<<20 || n > 1<<20 {
		// the probe loops themselves would overflow or run for ever
		return
	}
	var vs []string
	for i := -2; i < n+3; i++ {
		v, err := value(i)
		if err != nil {
			vs = append(vs, "E")
		} else {
			vs = append(vs, strconv.Itoa(v))
		}
	}
	fmt.Fprintf(b, " value=%s", strings.Join(vs, ","))
	var idx []int
	var hs strings.Builder
	for v := mn - 2; v < mx+3; v++ {
		idx = append(idx, index(v))
		hs.WriteString(b01(has(v)))
	}
	fmt.Fprintf(b, " index=%s has=%s", zlist(idx), hs.String())
}

func probeRanges(rs *ranges.InclusiveRanges) string {
	var b strings.Builder
	n := rs.Len()
	fmt.Fprintf(&b, " len=%d start=%d end=%d min=%d max=%d", n, rs.Start(), rs.End(), rs.Min(), rs.Max())
	fmt.Fprintf(&b, " frames=%s", zlist(iterAll(rs.IterValues())))
	if n >= 0 && n <= 1<<16 {
		// enumeration by count: Len() calls of Next with no IsDone in between
		it := rs.IterValues()
		cnt := make([]int, 0, n)
		for k := 0; k < n; k++ {
			cnt = append(cnt, it.Next())
		}
		fmt.Fprintf(&b, " M_bycount=%s", zlist(cnt))
	}
	probeTail(&b, n, rs.Min(), rs.Max(), rs.Value, rs.Index, rs.Contains)
	fmt.Fprintf(&b, " str=%s", hexs(rs.String()))
	return b.String()
}

func reparse(s string) string {
	fs, err := fileseq.NewFrameSet(s)
	if err != nil {
		return "ERR"
	}
	return zlist(fs.Frames())
}

func reparseOrDash(s string) string {
	if s == "" {
		return "-"
	}
	return reparse(s)
}

func minmax(l []int) (int, int) {
	if len(l) == 0 {
		return 0, 0
	}
	mn, mx := l[0], l[0]
	for _, v := range l {
		if v < mn {
			mn = v
		}
		if v > mx {
			mx = v
		}
	}
	return mn, mx
}

func probeFS(fs *fileseq.FrameSet) string {
	var b strings.Builder
	n := fs.Len()
	frames := fs.Frames()
	mn, mx := minmax(frames)
	fmt.Fprintf(&b, " len=%d start=%d end=%d min=%d max=%d", n, fs.Start(), fs.End(), mn, mx)
	fmt.Fprintf(&b, " frames=%s", zlist(frames))
	probeTail(&b, n, mn, mx, fs.Frame, fs.Index, fs.HasFrame)
	return b.String()
}

const pathCap = 2000

func showSeqCore(q *fileseq.FileSequence) string {
	return fmt.Sprintf(" dir=%s base=%s ext=%s pad=%s zfill=%d hasfs=%s frange=%s style=%d string=%s len=%d start=%d end=%d",
		hexs(q.Dirname()), hexs(q.Basename()), hexs(q.Ext()), hexs(q.Padding()), q.ZFill(),
		b01(q.FrameSet() != nil), hexs(q.FrameRange()), int(q.PaddingStyle()), hexs(q.String()),
		q.Len(), q.Start(), q.End())
}

func showSeqPaths(q *fileseq.FileSequence) string {
	var ps []string
	n := q.Len()
	if n > pathCap {
		n = pathCap
	}
	for i := -1; i < n+1; i++ {
		ps = append(ps, hexs(q.Index(i)))
	}
	return " paths=" + strings.Join(ps, ",")
}

func showSeq(q *fileseq.FileSequence) string { return showSeqCore(q) + showSeqPaths(q) }

func showSeqOpt(q *fileseq.FileSequence) string {
	if q == nil {
		return " nil"
	}
	return showSeq(q)
}

func showListed(q *fileseq.FileSequence) string {
	var ps []string
	n := q.Len()
	if n > pathCap {
		n = pathCap
	}
	for i := 0; i < n; i++ {
		ps = append(ps, hexs(q.Index(i)))
	}
	return fmt.Sprintf("%s:%d:%d:%s", hexs(q.String()), q.ZFill(), int(q.PaddingStyle()), strings.Join(ps, ","))
}

func showListing(qs fileseq.FileSequences, err error) string {
	if err != nil {
		return "ERR"
	}
	var b strings.Builder
	b.WriteString("OK")
	for _, q := range qs {
		b.WriteString(" ")
		b.WriteString(showListed(q))
	}
	return b.String()
}

func fileOpts(l []int) []fileseq.FileOption {
	var out []fileseq.FileOption
	for _, v := range l {
		out = append(out, fileseq.FileOption(v))
	}
	return out
}

var root = os.Getenv("VERIF_ROOT")
var caseNo int

// populate creates the directory named by path (relative paths are relative to
// the root, which is the working directory) with the given entries.
// pathIsFile: the next populate call makes its path a regular file instead of a directory
var pathIsFile bool

func populate(path string, readable bool, ents []string) (cleanup func()) {
	abs := path
	if !filepath.IsAbs(abs) {
		abs = filepath.Join(root, path)
	}
	abs = filepath.Clean(abs)
	if !strings.HasPrefix(abs, root+"/") {
		panic("refusing to touch " + abs)
	}
	// the first element under root is the case directory
	rel := strings.TrimPrefix(abs, root+"/")
	top := filepath.Join(root, strings.SplitN(rel, "/", 2)[0])
	cleanup = func() { os.RemoveAll(top) }
	if pathIsFile {
		pathIsFile = false
		os.MkdirAll(filepath.Dir(abs), 0o755)
		os.WriteFile(abs, nil, 0o644)
		return
	}
	if !readable {
		os.MkdirAll(filepath.Dir(abs), 0o755)
		return
	}
	tfile := filepath.Join(root, "targets", "file")
	tdir := filepath.Join(root, "targets", "dir")
	// "via link" layout: a case directory named v<N> holds the real directory at v<N>/real/d and the
	// path under test, v<N>/alt/x/d, is a RELATIVE symlink to it; links inside it are relative too
	// ("../name.t"), so their physical target (v<N>/real/name.t) differs from the lexical one
	// (v<N>/alt/x/name.t), where a decoy of the opposite kind sits.
	if strings.HasPrefix(filepath.Base(top), "v") && strings.HasSuffix(abs, "/alt/x/d") {
		realParent := filepath.Join(top, "real")
		real := filepath.Join(realParent, "d")
		os.MkdirAll(real, 0o755)
		os.MkdirAll(filepath.Dir(abs), 0o755)
		os.Symlink("../../real/d", abs)
		lex := filepath.Dir(abs)
		for _, e := range ents {
			switch {
			case strings.HasPrefix(e, "LF:"):
				os.WriteFile(filepath.Join(realParent, e[3:]+".t"), nil, 0o644)
				os.Mkdir(filepath.Join(lex, e[3:]+".t"), 0o755)
				os.Symlink("../"+e[3:]+".t", filepath.Join(real, e[3:]))
			case strings.HasPrefix(e, "LD:"):
				os.Mkdir(filepath.Join(realParent, e[3:]+".t"), 0o755)
				os.WriteFile(filepath.Join(lex, e[3:]+".t"), nil, 0o644)
				os.Symlink("../"+e[3:]+".t", filepath.Join(real, e[3:]))
			}
		}
		abs = real
	} else {
		os.MkdirAll(abs, 0o755)
	}
	via := strings.HasPrefix(filepath.Base(top), "v") && strings.HasSuffix(abs, "/real/d")
	for _, e := range ents {
		if via && (strings.HasPrefix(e, "LF:") || strings.HasPrefix(e, "LD:")) {
			continue
		}
		switch {
		case strings.HasPrefix(e, "F:"):
			os.WriteFile(filepath.Join(abs, e[2:]), nil, 0o644)
		case strings.HasPrefix(e, "D:"):
			os.Mkdir(filepath.Join(abs, e[2:]), 0o755)
		case strings.HasPrefix(e, "LF:"):
			os.Symlink(tfile, filepath.Join(abs, e[3:]))
		case strings.HasPrefix(e, "LD:"):
			os.Symlink(tdir, filepath.Join(abs, e[3:]))
		case strings.HasPrefix(e, "LS:"):
			os.Symlink("/dev/null", filepath.Join(abs, e[3:])) // a link to something that is neither a regular file nor a directory
		case strings.HasPrefix(e, "LX:"):
			os.Symlink(filepath.Join(root, "targets", "missing"), filepath.Join(abs, e[3:]))
		case strings.HasPrefix(e, "LL:"):
			os.Symlink(e[3:], filepath.Join(abs, e[3:])) // a link to itself: ELOOP
		case strings.HasPrefix(e, "LN:"):
			os.Symlink(filepath.Join(tfile, "below"), filepath.Join(abs, e[3:])) // below a regular file: ENOTDIR
		}
	}
	return
}

// readdirOrder reports the entry names in the order Readdir(-1) returns them,
// which is the order the library sees (the model is run on that order).
func readdirOrder(dir string) string {
	f, err := os.Open(dir)
	if err != nil {
		return "-"
	}
	defer f.Close()
	infos, err := f.Readdir(-1)
	if err != nil || len(infos) == 0 {
		return "-"
	}
	var names []string
	for _, fi := range infos {
		names = append(names, hexs(fi.Name()))
	}
	return strings.Join(names, ",")
}

func applyOp(q *fileseq.FileSequence, op string) {
	if op == "" {
		return
	}
	a := op[1:]
	switch op[0] {
	case 'D':
		q.SetDirname(a)
	case 'B':
		q.SetBasename(a)
	case 'E':
		q.SetExt(a)
	case 'P':
		q.SetPadding(a)
	case 'S':
		q.SetPaddingStyle(fileseq.PadStyle(argz(a)))
	case 'R':
		q.SetFrameRange(a)
	case 'N':
		q.SetFrameSet(nil)
	case 'F':
		if fs, err := fileseq.NewFrameSet(a); err == nil {
			q.SetFrameSet(fs)
		}
	}
}

func dispatch(op string, a []string) string {
	switch op {
	case "pad":
		if len(a) != 2 {
			return "BADARGS"
		}
		st := fileseq.PadStyle(argz(a[0]))
		c := fileseq.VerifPaddingChars(st, argz(a[1]))
		return fmt.Sprintf("OK chars=%s size=%d", hexs(c), fileseq.VerifPaddingCharsSize(st, c))
	case "padsize":
		if len(a) != 2 {
			return "BADARGS"
		}
		return fmt.Sprintf("OK size=%d", fileseq.VerifPaddingCharsSize(fileseq.PadStyle(argz(a[0])), a[1]))
	case "zfill":
		return "OK s=" + hexs(fileseq.VerifZfillInt(argz(a[0]), argz(a[1])))
	case "zfills":
		return "OK s=" + hexs(fileseq.VerifZfillString(a[0], argz(a[1])))
	case "ir":
		r := ranges.NewInclusiveRange(argz(a[0]), argz(a[1]), argz(a[2]))
		rs := &ranges.InclusiveRanges{}
		rs.Append(argz(a[0]), argz(a[1]), argz(a[2]))
		// the single range's own accessors, asked directly
		var rb strings.Builder
		n := r.Len()
		fmt.Fprintf(&rb, "OK rend=%d rlen=%d rmin=%d rmax=%d", r.End(), n, r.Min(), r.Max())
		if n >= 0 && n < 1<<20 {
			fmt.Fprintf(&rb, " riter=%s", zlist(iterAll(r.IterValues())))
			var vs []string
			for i := -2; i < n+3; i++ {
				v, err := r.Value(i)
				if err != nil {
					vs = append(vs, "E")
				} else {
					vs = append(vs, strconv.Itoa(v))
				}
			}
			fmt.Fprintf(&rb, " rvalue=%s", strings.Join(vs, ","))
			mn, mx := r.Min(), r.Max()
			if mx-mn <= 1<<20 && mx-mn >= 0 {
				var idx []int
				var hs strings.Builder
				for v := mn - 2; v < mx+3; v++ {
					idx = append(idx, r.Index(v))
					hs.WriteString(b01(r.Contains(v)))
				}
				fmt.Fprintf(&rb, " rindex=%s rhas=%s", zlist(idx), hs.String())
			} else {
				rb.WriteString(" rindex=SPAN-TOO-WIDE rhas=SPAN-TOO-WIDE")
			}
		}
		return rb.String() + probeRanges(rs)
	case "rs":
		rs := &ranges.InclusiveRanges{}
		for _, t := range a {
			l := argzl(t)
			if len(l) == 3 {
				rs.AppendUnique(l[0], l[1], l[2])
				// read every accessor between the appends (results dropped): a value remembered
				// from an earlier state must not survive the next append
				rs.Len()
				rs.Min()
				rs.Max()
				rs.Start()
				rs.End()
				_ = rs.String()
				rs.Contains(l[0])
				rs.Index(l[1])
				rs.Value(0)
				for it, k := rs.IterValues(), 0; !it.IsDone() && k < 3; k++ {
					it.Next()
				}
			}
		}
		return "OK" + probeRanges(rs)
	case "fs":
		fs, err := fileseq.NewFrameSet(a[0])
		isfr := " isfr=" + b01(fileseq.IsFrameRange(a[0]))
		if err != nil {
			return "ERR" + isfr
		}
		return "OK" + isfr + probeFS(fs)
	case "fsbig":
		fs, err := fileseq.NewFrameSet(a[0])
		if err != nil {
			return "ERR"
		}
		var b strings.Builder
		fmt.Fprintf(&b, "OK len=%d start=%d end=%d", fs.Len(), fs.Start(), fs.End())
		var vs []string
		for _, i := range argzl(a[1]) {
			v, err := fs.Frame(i)
			if err != nil {
				vs = append(vs, "E")
			} else {
				vs = append(vs, strconv.Itoa(v))
			}
		}
		fmt.Fprintf(&b, " value=%s", strings.Join(vs, ","))
		var idx []int
		var hs strings.Builder
		for _, v := range argzl(a[2]) {
			idx = append(idx, fs.Index(v))
			hs.WriteString(b01(fs.HasFrame(v)))
		}
		fmt.Fprintf(&b, " index=%s has=%s", zlist(idx), hs.String())
		return b.String()
	case "big":
		// a deadline per case: an implementation that enumerates a 10^12-frame range must show up
		// as a timed-out case, not hang the check (the abandoned goroutine is left behind)
		done := make(chan string, 1)
		go func() {
			defer func() {
				if r := recover(); r != nil {
					done <- "PANIC"
				}
			}()
			done <- bigOp(a)
		}()
		select {
		case r := <-done:
			return r
		case <-time.After(4 * time.Second):
			return "TIMEOUT M_alloc=0 M_us=4000000"
		}
	case "bigX":
		var ms0, ms1 runtime.MemStats
		runtime.GC()
		runtime.ReadMemStats(&ms0)
		t0 := time.Now()
		fs, err := fileseq.NewFrameSet(a[0])
		if err != nil {
			return "ERR"
		}
		var b strings.Builder
		fmt.Fprintf(&b, "OK len=%d start=%d end=%d", fs.Len(), fs.Start(), fs.End())
		var vs []string
		for _, i := range argzl(a[1]) {
			v, err := fs.Frame(i)
			if err != nil {
				vs = append(vs, "E")
			} else {
				vs = append(vs, strconv.Itoa(v))
			}
		}
		fmt.Fprintf(&b, " value=%s", strings.Join(vs, ","))
		var idx []int
		var hs strings.Builder
		for _, v := range argzl(a[2]) {
			idx = append(idx, fs.Index(v))
			hs.WriteString(b01(fs.HasFrame(v)))
		}
		fmt.Fprintf(&b, " index=%s has=%s", zlist(idx), hs.String())
		q, qerr := fileseq.NewFileSequence("/x/foo." + a[0] + "#.exr")
		if qerr != nil {
			b.WriteString(" qstr=ERR")
		} else {
			fmt.Fprintf(&b, " qstr=%s qlen=%d p0=%s plast=%s pout=%s", hexs(q.String()), q.Len(), hexs(q.Index(0)), hexs(q.Index(q.Len()-1)), hexs(q.Index(q.Len())))
			// the templated string (what seqls prints for a pattern argument, what seqinfo --format prints)
			fm, ferr := q.Format("{{dir}}{{base}}{{frange}}{{pad}}{{ext}} {{startf}} {{endf}} {{len}} {{zfill}}")
			if ferr != nil {
				fm = "FORMAT-ERROR"
			}
			fmt.Fprintf(&b, " M_format=%s", hexs(fm))
		}
		el := time.Since(t0)
		runtime.ReadMemStats(&ms1)
		fmt.Fprintf(&b, " M_alloc=%d M_us=%d", ms1.TotalAlloc-ms0.TotalAlloc, el.Microseconds())
		return b.String()
	case "norm":
		fs, err := fileseq.NewFrameSet(a[0])
		if err != nil {
			return "ERR"
		}
		nf, iv := fs.Normalize(), fs.Invert()
		var ip []string
		for p := 0; p < 7; p++ {
			ip = append(ip, hexs(fs.InvertedFrameRange(p)))
		}
		var ipre []string
		for p := 0; p < 7; p++ {
			ipre = append(ipre, reparseOrDash(fs.InvertedFrameRange(p)))
		}
		return fmt.Sprintf("OK nstr=%s nframes=%s istr=%s iframes=%s ipad=%s frames=%s nre=%s ire=%s ipadre=%s nnstr=%s",
			hexs(nf.FrameRange()), zlist(nf.Frames()), hexs(iv.FrameRange()), zlist(iv.Frames()), strings.Join(ip, ","),
			zlist(fs.Frames()), reparse(nf.FrameRange()), reparseOrDash(iv.FrameRange()), strings.Join(ipre, ";"),
			hexs(nf.Normalize().FrameRange()))
	case "f2r":
		s := fileseq.FramesToFrameRange(argzl(a[0]), argz(a[1]) != 0, argz(a[2]))
		return "OK s=" + hexs(s) + " re=" + reparseOrDash(s)
	case "padfr":
		t := fileseq.PadFrameRange(a[0], argz(a[1]))
		return "OK s=" + hexs(t) + " in=" + reparse(a[0]) + " out=" + reparse(t) + " again=" + hexs(fileseq.PadFrameRange(t, argz(a[1])))
	case "seq":
		q, err := fileseq.NewFileSequencePad(a[0], fileseq.PadStyle(argz(a[1])))
		if err != nil {
			return "ERR"
		}
		// templates that fail half-way through their execution, before anything is observed: what
		// they wrote must not show up in a later String or Format of this or any other sequence
		for _, bad := range []string{"{{dir}}POISON{{len 1}}", "{{base}}{{index .x 1}}", "STALE{{slice 1 2}}"} {
			if out, perr := q.Format(bad); perr == nil || out != "" {
				return "FAILED-FORMAT-RETURNED-TEXT"
			}
		}
		f, ferr := q.Format("{{dir}}{{base}}{{frange}}{{pad}}{{ext}}")
		if ferr != nil {
			f = "FORMAT-ERROR"
		}
		// indices far outside [0,len): all of them must give the empty path
		far := ""
		for _, i := range []int{q.Len() + 1, q.Len() + 2, 1 << 40, (1 << 62) + 1, 1<<63 - 1, -(1 << 62), -1 << 63, (1 << 62) + q.Len(), 1 << 61, 3 << 61} {
			far += b01(q.Index(i) != "")
		}
		var fi, fst []string
		for _, p := range a[2:] {
			s, _ := q.Frame(argz(p))
			fi = append(fi, hexs(s))
			s, _ = q.Frame(p)
			fst = append(fst, hexs(s))
		}
		res := "OK" + showSeq(q) + " fmt=" + hexs(f) + " frame=" + strings.Join(fi, ",") + " frames=" + strings.Join(fst, ",") + " M_far=" + far
		// last, the pad width is changed on the object that has answered all of the above: the paths
		// must follow the new width
		q.SetPadding("%09d")
		rp, _ := q.Frame(-5)
		q.SetPadding("@@")
		rp2 := q.Index(0)
		return res + " M_repad=" + hexs(rp) + "," + hexs(rp2)
	case "seqops":
		q, err := fileseq.NewFileSequencePad(a[0], fileseq.PadStyle(argz(a[1])))
		if err != nil {
			return "ERR"
		}
		for _, op := range a[2:] {
			// read the paths and strings between the setters (results dropped): a value remembered
			// from an earlier state must not survive the next setter
			q.Index(0)
			q.Frame(3)
			q.Frame("3")
			_ = q.String()
			q.FrameRangePadded()
			q.ZFill()
			q.Len()
			applyOp(q, op)
		}
		var b strings.Builder
		b.WriteString("OK" + showSeq(q))
		b.WriteString(" COPY" + showSeqOpt(q.Copy()))
		parts := q.Split()
		for _, p := range parts {
			b.WriteString(" PART" + showSeqOpt(p))
		}
		// the copy and the parts are values of their own: changing them leaves the original alone
		before := showSeq(q)
		cp := q.Copy()
		for _, p := range append(parts, cp) {
			if p == nil {
				continue
			}
			p.SetDirname("/verif-alias/")
			p.SetBasename("alias_")
			p.SetExt(".als")
			p.SetPadding("@@@@@@@")
			p.SetFrameRange("77-79")
		}
		alias := "0"
		if showSeq(q) != before {
			alias = "1"
		}
		b.WriteString(" M_alias=" + alias)
		return b.String()
	case "list":
		qs, err := fileseq.FindSequencesInList(a[1:], fileOpts(argzl(a[0]))...)
		return showListing(qs, err)
	case "disk":
		pathIsFile = argz(a[2]) == 2
		cleanup := populate(a[1], argz(a[2]) != 0, a[3:])
		defer cleanup()
		order := readdirOrder(a[1])
		qs, err := fileseq.FindSequencesOnDisk(a[1], fileOpts(argzl(a[0]))...)
		return showListing(qs, err) + " M_order=" + order
	case "findseq":
		// opts style pattern readable ents...; the directory is the pattern's
		pat := a[2]
		dir, _ := filepath.Split(pat)
		if dir == "" {
			return "BADARGS"
		}
		cleanup := populate(dir, argz(a[3]) != 0, a[4:])
		defer cleanup()
		order := " M_order=" + readdirOrder(dir)
		q, err := fileseq.FindSequenceOnDiskPad(pat, fileseq.PadStyle(argz(a[1])), fileOpts(argzl(a[0]))...)
		if err != nil {
			return "ERR" + order
		}
		if q == nil {
			return "OK nil" + order
		}
		return "OK " + showListed(q) + " base=" + hexs(q.Basename()) + " ext=" + hexs(q.Ext()) + order
	case "diskx":
		// list an existing directory: opts path
		qs, err := fileseq.FindSequencesOnDisk(a[1], fileOpts(argzl(a[0]))...)
		if err != nil {
			return "ERR"
		}
		var b strings.Builder
		b.WriteString("OK")
		for _, q := range qs {
			b.WriteString(" " + hexs(q.String()))
		}
		return b.String()
	case "findseqx":
		// opts pattern, on the existing file system, as seqls calls it
		q0, err := fileseq.NewFileSequence(a[1])
		if err != nil {
			return "ERR"
		}
		path, err := q0.Format("{{dir}}{{base}}{{pad}}{{ext}}")
		if err != nil {
			return "ERR"
		}
		q, err := fileseq.FindSequenceOnDisk(path, fileOpts(argzl(a[0]))...)
		if err != nil {
			return "ERR"
		}
		if q == nil {
			return "OK"
		}
		return "OK " + hexs(q.String())
	case "sinfo":
		// the documented seqinfo pipeline, re-done with library calls:
		// hash1 dir base range pad ext inverted index frame template pattern
		return sinfo(a)
	case "fmt":
		// library Format of a parsed pattern: pattern style template
		q, err := fileseq.NewFileSequencePad(a[0], fileseq.PadStyle(argz(a[1])))
		if err != nil {
			return "ERR"
		}
		f, ferr := q.Format(a[2])
		if ferr != nil {
			return "OK s=" + hexs("TEMPLATE-ERROR")
		}
		return "OK s=" + hexs(f)
	case "clean":
		d, f := filepath.Split(a[0])
		return fmt.Sprintf("OK clean=%s dir=%s file=%s", hexs(filepath.Clean(a[0])), hexs(d), hexs(f))
	case "rx":
		return rxOp(a[0], a[1])
	}
	return "BADOP"
}

func bigOp(a []string) string { return dispatch("bigX", a) }

func safeDispatch(op string, a []string) (out string) {
	defer func() {
		if r := recover(); r != nil {
			out = "PANIC"
		}
	}()
	return dispatch(op, a)
}

// lineDeadline bounds one call: a library call that never returns (a loop whose counter wraps
// around, say) is answered with HANG and the remaining lines are still served; the abandoned
// goroutine is left behind.
var lineDeadline = 30 * time.Second

// after hangLimit calls that never returned (each answered HANG) the remaining lines are not
// evaluated any more (HANG-SKIPPED): the abandoned goroutines keep their cores and their memory
const hangLimit = 4

var hangs int

func deadlineDispatch(op string, a []string) string {
	if hangs >= hangLimit {
		return "HANG-SKIPPED"
	}
	done := make(chan string, 1)
	go func() { done <- safeDispatch(op, a) }()
	select {
	case r := <-done:
		return r
	case <-time.After(lineDeadline):
		hangs++
		return "HANG"
	}
}

func main() {
	if f := os.Getenv("VERIF_RX"); f != "" {
		if data, err := os.ReadFile(f); err == nil {
			loadPatterns(string(data))
		}
	}
	if root != "" {
		os.MkdirAll(filepath.Join(root, "targets", "dir"), 0o755)
		os.WriteFile(filepath.Join(root, "targets", "file"), nil, 0o644)
		os.Chdir(root)
	}
	in := bufio.NewReaderSize(os.Stdin, 1<<20)
	out := bufio.NewWriterSize(os.Stdout, 1<<20)
	defer out.Flush()
	for {
		line, err := in.ReadString('\n')
		if line == "" && err != nil {
			break
		}
		line = strings.TrimRight(line, "\n")
		f := strings.Split(line, " ")
		args := make([]string, 0, len(f))
		for _, x := range f[1:] {
			args = append(args, unhex(x))
		}
		fmt.Fprintln(out, deadlineDispatch(f[0], args))
		if err != nil {
			break
		}
	}
}

// sinfo applies, with plain library calls, what seqinfo documents for its options:
// reformat first, then component overrides, then inversion, then index / frame selection.
func sinfo(a []string) string {
	if len(a) != 11 {
		return "BADARGS"
	}
	st := fileseq.PadStyleHash4
	if argz(a[0]) != 0 {
		st = fileseq.PadStyleHash1
	}
	pat := a[10]
	errOut := "OK error=1 string=" + hexs(pat)
	q, err := fileseq.NewFileSequencePad(pat, st)
	if err != nil {
		return errOut
	}
	if a[9] != "" {
		f, ferr := q.Format(a[9])
		if ferr != nil {
			return errOut
		}
		if q, err = fileseq.NewFileSequencePad(f, st); err != nil {
			return errOut
		}
	}
	if a[1] != "" {
		q.SetDirname(a[1])
	}
	if a[2] != "" {
		q.SetBasename(a[2])
	}
	if a[5] != "" {
		q.SetExt(a[5])
	}
	if a[4] != "" {
		q.SetPadding(a[4])
	}
	if a[3] != "" {
		if q.SetFrameRange(a[3]) != nil {
			return errOut
		}
	}
	if argz(a[6]) != 0 {
		inv := q.InvertedFrameRange()
		if inv != "" {
			q.SetFrameRange(inv)
		} else {
			q.SetFrameSet(nil)
		}
	}
	sel := func(path string) bool {
		n, err := fileseq.NewFileSequencePad(path, st)
		if err != nil {
			return false
		}
		n.SetFrameRange(strconv.Itoa(n.Start()))
		q = n
		return true
	}
	if a[7] != "N" {
		p := q.Index(argz(a[7]))
		if p == "" {
			return errOut
		}
		if !sel(p) {
			return errOut
		}
	}
	if a[8] != "N" {
		p, _ := q.Frame(argz(a[8]))
		if !sel(p) {
			return errOut
		}
	}
	return fmt.Sprintf("OK error=0 string=%s dir=%s base=%s range=%s pad=%s ext=%s start=%d end=%d length=%d zfill=%d hasRange=%s",
		hexs(q.String()), hexs(q.Dirname()), hexs(q.Basename()), hexs(q.FrameRange()), hexs(q.Padding()), hexs(q.Ext()),
		q.Start(), q.End(), q.Len(), q.ZFill(), b01(q.FrameSet() != nil))
}
