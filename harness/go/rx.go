package main

import (
	"regexp"
	"strings"
)

// The pattern strings are not exported by the library; the rx operation
// checks the Coq matcher against Go's regexp engine on the very pattern
// strings that gfsgen extracted from /repo (written to rx_patterns.txt by
// bin/check and read here), so the tie stays with the source.
var rxPatterns = map[string]*regexp.Regexp{}

func loadPatterns(text string) {
	for _, line := range strings.Split(text, "\n") {
		i := strings.Index(line, "\t")
		if i < 0 {
			continue
		}
		rxPatterns[line[:i]] = regexp.MustCompile(unhex(line[i+1:]))
	}
}

func rxOp(which, s string) string {
	rx, ok := rxPatterns[which]
	if !ok {
		return "BADARGS"
	}
	if which == "udim" {
		if rx.MatchString(s) {
			return "OK"
		}
		return "NOMATCH"
	}
	m := rx.FindStringSubmatch(s)
	if m == nil {
		return "NOMATCH"
	}
	var b strings.Builder
	b.WriteString("OK")
	for _, c := range m[1:] {
		b.WriteString(" " + hexs(c))
	}
	return b.String()
}
