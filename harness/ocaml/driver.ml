(* Driver around the extracted model: one operation per input line, fields
   separated by single spaces, every field after the first hex-encoded
   ("-" = empty).  Prints the model's canonical result line. *)
let rec nat_of_int n = if n <= 0 then Gfs.O else Gfs.S (nat_of_int (n - 1))
let rec int_of_nat = function Gfs.O -> 0 | Gfs.S n -> 1 + int_of_nat n

let nats = Array.init 256 nat_of_int

let bytes_of_string s =
  let rec go i acc = if i < 0 then acc else go (i - 1) (nats.(Char.code s.[i]) :: acc) in
  go (String.length s - 1) []

let string_of_bytes l =
  let b = Buffer.create 256 in
  List.iter (fun n -> Buffer.add_char b (Char.chr (int_of_nat n land 255))) l;
  Buffer.contents b

let hexval c =
  match c with
  | '0' .. '9' -> Char.code c - 48
  | 'a' .. 'f' -> Char.code c - 87
  | 'A' .. 'F' -> Char.code c - 55
  | _ -> 0

let unhex s =
  if s = "-" then ""
  else begin
    let n = String.length s / 2 in
    String.init n (fun i -> Char.chr (hexval s.[2 * i] * 16 + hexval s.[2 * i + 1]))
  end

let () =
  try
    while true do
      let line = input_line stdin in
      let fields = String.split_on_char ' ' line in
      match fields with
      | [] | [ "" ] -> print_endline "BADOP"
      | op :: rest ->
        let args = bytes_of_string op :: List.map (fun f -> bytes_of_string (unhex f)) rest in
        let out = Gfs.dispatch args in
        print_endline (string_of_bytes out)
    done
  with End_of_file -> ()
