module racedrv

go 1.13

require github.com/justinfx/gofileseq/v2 v2.0.0

replace github.com/justinfx/gofileseq/v2 => /repo
