// Race / determinism stress for C16: N goroutines each issue a random mix of
// library calls on their OWN values, starting with the very first library call
// of the process (cold start); afterwards the same calls are repeated
// sequentially and the results compared.  Build with -race.
//
//	racedrv <seed> <goroutines> <calls per goroutine> <testdata dir>
package main

import (
	"fmt"
	"os"
	"strconv"
	"strings"
	"sync"

	fileseq "github.com/justinfx/gofileseq/v2"
)

type call struct {
	kind int
	a    string
	n    int
	g    int // the goroutine that issues the call
}

func xs(x uint64) uint64 {
	x ^= x << 13
	x ^= x >> 7
	x ^= x << 17
	return x
}

var ranges_ = []string{"1-10", "1-100x5", "10-1", "1-20y3", "1-12:3", "5,3,1", "-10--2x2", "1-5,7-9#", "bad", "1-5x0",
	"1-5,99999999999999999999", "88888888888888888888", "1-77777777777777777777x2", "9223372036854775808-3"} // incl. numbers that do not fit an int (error path)
var seqs_ = []string{"/a/b/foo.1-10#.exr", "/a/foo.0001.exr", "bar.1-5,8@@.tar.gz", "/x/y.%04d.e", "q.$F3.e", "u.<UDIM>.tif", "plain.txt", "/a/b/",
	"/w/v.1-3%020d.e", "/w/v.1-5,8%040d.e", "w.5-7$F33.e", "/w/z.2-9x3%0100d.e"}
var lists_ = [][]string{{"/d/a.0001.exr", "/d/a.0002.exr", "/d/a.0004.exr", "/d/readme.txt"}, {"x.1.e", "x.2.e", "x.03.e", ".h.1.e"}}

func do(c call, dir string) string {
	switch c.kind {
	case 0:
		fs, err := fileseq.NewFrameSet(c.a)
		if err != nil {
			return "ERR"
		}
		return fmt.Sprint(fs.Len(), fs.Frames(), fs.Normalize().FrameRange(), fs.InvertedFrameRange(c.n%5), fs.FrameRangePadded((c.n%7)*11))
	case 1:
		st := fileseq.PadStyle(c.n % 2)
		if c.n%7 == 0 {
			st = fileseq.PadStyle(100 + c.n) // a style the library does not know: documented to fall back to the default
		}
		q, err := fileseq.NewFileSequencePad(c.a, st)
		if err != nil {
			return "ERR"
		}
		f, _ := q.Format("{{dir}}{{base}}{{frange}}{{pad}}{{ext}} {{len}} {{zfill}}")
		c2 := q.Copy()
		if c.n%5 == 0 {
			c2.SetPaddingStyle(fileseq.PadStyle(50 + c.n))
		}
		c2.SetPaddingStyle(fileseq.PadStyle((c.n + 1) % 2))
		fr3, _ := q.Frame("3")
		return fmt.Sprint(q.String(), q.ZFill(), q.Index(0), f, len(q.Split()), c2.String(), q.FrameRangePadded(), q.InvertedFrameRangePadded(), fr3)
	case 2:
		l := lists_[c.n%len(lists_)]
		qs, err := fileseq.FindSequencesInList(l, fileseq.SingleFiles, fileseq.FileOption(2+c.n%2))
		if err != nil {
			return "ERR"
		}
		var out []string
		for _, q := range qs {
			out = append(out, q.String())
		}
		sortStrings(out)
		return strings.Join(out, "|")
	case 3:
		qs, err := fileseq.FindSequencesOnDisk(dir, fileseq.SingleFiles)
		if err != nil {
			return "ERR"
		}
		var out []string
		for _, q := range qs {
			out = append(out, q.String())
		}
		sortStrings(out)
		return strings.Join(out, "|")
	case 6:
		// a directory of the goroutine's own; every other one holds a link whose target is missing,
		// so the scan fails and reports an error naming this directory and no other
		own := fmt.Sprintf("%s/own%02d", ownRoot, c.g)
		qs, err := fileseq.FindSequencesOnDisk(own, fileseq.SingleFiles)
		if err != nil {
			return "ERR " + err.Error()
		}
		var out []string
		for _, q := range qs {
			out = append(out, q.String())
		}
		sortStrings(out)
		if c.n%3 == 0 {
			q, err := fileseq.FindSequenceOnDisk(own + "/img.#.exr")
			out = append(out, fmt.Sprint(q, err))
		}
		return strings.Join(out, "|")
	case 4:
		return fileseq.FramesToFrameRange([]int{1, 2, 3, 10, 8, 6, c.n}, c.n%2 == 0, c.n%4) + fileseq.PadFrameRange(c.a, 4+(c.n%6)*9) + fileseq.PaddingChars(c.n%9)
	default:
		q, err := fileseq.FindSequenceOnDisk(dir+"/seqA.#.exr", fileseq.StrictPadding)
		if err != nil || q == nil {
			return fmt.Sprint("nil", err)
		}
		return q.String() + fmt.Sprint(fileseq.IsFrameRange(c.a))
	}
}

// ownRoot holds one scratch directory per goroutine (removed before the process ends)
var ownRoot string

func exit(code int) {
	if ownRoot != "" {
		os.RemoveAll(ownRoot)
	}
	os.Exit(code)
}

func sortStrings(a []string) {
	for i := 1; i < len(a); i++ {
		for j := i; j > 0 && a[j] < a[j-1]; j-- {
			a[j], a[j-1] = a[j-1], a[j]
		}
	}
}

func main() {
	seed, _ := strconv.Atoi(os.Args[1])
	g, _ := strconv.Atoi(os.Args[2])
	n, _ := strconv.Atoi(os.Args[3])
	dir := os.Args[4]
	ownRoot, _ = os.MkdirTemp("/var/tmp", "racedrv")
	for i := 0; i < g; i++ {
		own := fmt.Sprintf("%s/own%02d", ownRoot, i)
		os.MkdirAll(own, 0755)
		for f := 1; f <= 3; f++ {
			os.WriteFile(fmt.Sprintf("%s/img.%04d.exr", own, f), nil, 0644)
		}
		if i%2 == 0 {
			os.Remove(own + "/img.0004.exr")
			os.Symlink(own+"/missing-target.exr", own+"/img.0004.exr")
		}
	}
	plans := make([][]call, g)
	x := uint64(seed)*2654435761 | 1
	for i := range plans {
		for j := 0; j < n; j++ {
			x = xs(x)
			k := int(x>>7) % 7
			c := call{kind: k, n: int(x>>20) % 97, g: i}
			switch k {
			case 0, 4, 5:
				c.a = ranges_[int(x>>30)%len(ranges_)]
			case 1:
				c.a = seqs_[int(x>>30)%len(seqs_)]
			}
			plans[i] = append(plans[i], c)
		}
	}
	results := make([][]string, g)
	var wg sync.WaitGroup
	start := make(chan struct{})
	for i := range plans {
		wg.Add(1)
		go func(i int) {
			defer wg.Done()
			<-start
			for _, c := range plans[i] {
				results[i] = append(results[i], do(c, dir))
			}
		}(i)
	}
	close(start) // the very first library calls of the process happen concurrently
	wg.Wait()
	bad := 0
	for i := range plans {
		for j, c := range plans[i] {
			if r := do(c, dir); r != results[i][j] {
				bad++
				if bad < 5 {
					fmt.Printf("MISMATCH goroutine %d call %d kind %d %q: concurrent %q sequential %q\n", i, j, c.kind, c.a, results[i][j], r)
				}
			}
		}
	}
	if bad > 0 {
		fmt.Printf("MISMATCHES %d\n", bad)
		exit(3)
	}
	// values DERIVED from one another (Normalize, Invert, Copy, Split) are distinct values: one
	// goroutine queries the source, another the derived one, both untouched until then
	probeFS := func(f *fileseq.FrameSet) string {
		return fmt.Sprint(f.End(), f.Len(), f.Index(57), f.HasFrame(100), f.Start(), f.FrameRange(), f.Frames())
	}
	probeQ := func(q *fileseq.FileSequence) string {
		return fmt.Sprint(q.End(), q.Len(), q.Index(1), q.String(), q.ZFill(), q.FrameRangePadded())
	}
	for round := 0; round < 40; round++ {
		rs := []string{"1-100", "5-50x5", "100-1", "1-10,20-30", "7", "1-20y3"}[(round+seed)%6]
		mk := func() (*fileseq.FrameSet, *fileseq.FrameSet, *fileseq.FrameSet, *fileseq.FileSequence, *fileseq.FileSequence, *fileseq.FileSequence) {
			src, _ := fileseq.NewFrameSet(rs)
			q, _ := fileseq.NewFileSequence("/a/foo." + rs + "#.exr")
			parts := q.Split()
			return src, src.Normalize(), src.Invert(), q, q.Copy(), parts[len(parts)-1]
		}
		a, b, c, q, qc, qp := mk()
		var got [6]string
		var wg2 sync.WaitGroup
		start2 := make(chan struct{})
		for i, fn := range []func() string{
			func() string { return probeFS(a) }, func() string { return probeFS(b) }, func() string { return probeFS(c) },
			func() string { return probeQ(q) }, func() string { return probeQ(qc) }, func() string { return probeQ(qp) }} {
			wg2.Add(1)
			go func(i int, fn func() string) {
				defer wg2.Done()
				<-start2
				got[i] = fn()
			}(i, fn)
		}
		close(start2)
		wg2.Wait()
		a2, b2, c2, q2, qc2, qp2 := mk()
		want := [6]string{probeFS(a2), probeFS(b2), probeFS(c2), probeQ(q2), probeQ(qc2), probeQ(qp2)}
		if got != want {
			fmt.Printf("MISMATCH derived values of %q: concurrent %q sequential %q\n", rs, got, want)
			exit(3)
		}
	}
	fmt.Println("OK")
	exit(0)
}
